//@unit U02.12 props=C02,C20 tier=quick
//@source name=seg kind=file path=skrifa/src/outline/autohint/topo/segments.rs
//@source name=ah kind=file path=skrifa/src/outline/autohint/mod.rs
// C02 / C20 (the automatic hinter never panics on font-derived quantities): link_segments_default, the O(n^2) stem / serif linking
// of the Latin autohinter, for ANY segment list (any positions, extents, directions, scores), any unitsPerEm a head table can
// declare (0..=65535, including the values below 256 for which the derived length threshold would be 0) and any maximum width:
// no division by zero (the `.max(1)` on the threshold is what guarantees it), no arithmetic overflow, no index out of range -
// provided the link indices present on entry are in range, which the function itself maintains.
// Extraction: `axis.segments` (a SmallVec) is modelled as a Vec and `as_mut_slice()` as a reborrow of it; the three `for` loops are
// desugared mechanically (two of them contain `continue`). Direction::is_opposite (an enum-to-i8 cast) is an opaque predicate.
use vstd::prelude::*;
verus! {
//@prelude std_combinators
#[derive(Clone, Copy, PartialEq, Eq)]
pub enum Direction { None, Right, Left, Up, Down }
impl Direction {
    #[verifier::external_body]
    pub fn is_opposite(self, other: Self) -> bool { unimplemented!() }
}
#[derive(Clone, Copy)]
pub struct Segment {
    pub dir: Direction,
    pub pos: i16,
    pub min_coord: i16,
    pub max_coord: i16,
    pub score: i32,
    pub len: i32,
    pub link_ix: Option<u16>,
    pub serif_ix: Option<u16>,
}
pub struct Axis {
    pub major_dir: Direction,
    pub segments: Vec<Segment>,
}
pub struct Outline { pub units_per_em: i32 }
const MAX_SCORE: i32 = 32000;
//@extract source=ah fn=derived_constant ret=r
//@spec
    requires 0 <= units_per_em <= 65535, 0 <= value <= 6000
    ensures r == value * units_per_em / 2048, 0 <= r <= 6000 * 65535 / 2048
//@at body-start
    proof { assert(0 <= value * units_per_em <= 6000 * 65535) by(nonlinear_arith) requires 0 <= units_per_em <= 65535, 0 <= value <= 6000; }
//@end

pub open spec fn links_ok(s: Seq<Segment>) -> bool {
    forall|i: int| 0 <= i < s.len() ==> ((#[trigger] s[i]).link_ix is Some ==> (s[i].link_ix->Some_0 as int) < s.len())
}
//@extract source=seg fn=link_segments_default
//@rewrite "let segments = axis.segments.as_mut_slice();" => "let major_dir = axis.major_dir; let segments = &mut axis.segments;"
//@rewrite "if seg1.dir != axis.major_dir {" => "if seg1.dir != major_dir {"
//@desugarfor nth=2 name=verif_c raw
//@desugarfor nth=1 name=verif_b raw
//@desugarfor nth=0 name=verif_a raw
//@spec
    requires 0 <= outline.units_per_em <= 65535, links_ok(old(axis).segments@)
    ensures links_ok(final(axis).segments@)
//@at loop "let mut verif_a ="
        invariant links_ok(segments@), segments@.len() == old(axis).segments@.len(), verif_a.end == segments@.len(), len_threshold >= 1,
            0 <= len_score <= 6000 * 65535 / 2048, dist_score == 3000,
        decreases verif_a.end - verif_a.start
//@at loop "let mut verif_b ="
            invariant links_ok(segments@), segments@.len() == old(axis).segments@.len(), verif_b.end == segments@.len(), len_threshold >= 1,
                0 <= len_score <= 6000 * 65535 / 2048, dist_score == 3000, ix1 < segments@.len(), -32768 <= pos1 <= 32767,
            decreases verif_b.end - verif_b.start
//@at before "let delta ="
                        proof {
                            assert(0 < dist <= 65535);
                            assert((dist << 10) == dist * 1024 && 0 < (dist << 10) <= 67107840) by(bit_vector) requires 0 < dist <= 65535;
                            let ghost num = (dist << 10) as int;
                            assert(-67107840 <= num / (max_width as int) <= 67107840) by(nonlinear_arith) requires 0 < num <= 67107840, max_width != 0;
                            assert((1i32 << 10) == 1024) by(bit_vector);
                        }
//@at before "delta * delta / dist_score"
                            proof { assert(0 < delta * delta <= 100_000_000) by(nonlinear_arith) requires 0 < delta <= 10_000; }
//@at before "let score ="
                    proof {
                        assert(0 <= dist_demerit <= 100_000_000);
                        assert(0 <= len_score / len <= len_score) by(nonlinear_arith) requires len >= 1, len_score >= 0;
                    }
//@at loop "let mut verif_c ="
        invariant links_ok(segments@), segments@.len() == old(axis).segments@.len(), verif_c.end == segments@.len(),
        decreases verif_c.end - verif_c.start
//@end
}
fn main() {}
