//@unit U14.2l props=C14 tier=quick
//@source name=bs kind=file path=read-fonts/src/collections/int_set/bitset.rs
// C14 "reports exactly the ... size": the link between BitSet::len and the mathematical set. Unit U14.2v proves that every
// operation keeps `length == sum of the page lengths` (wf) and that membership is `mem`; this unit proves the missing lemma -
// under that same representation invariant the members form a FINITE set whose cardinality is the sum of the page lengths - and
// re-verifies BitSet::len / is_empty-style facts against the cardinality. The definitions map_wf_s / mem_at_s / mem_s / sum_len
// are copied verbatim from U14.2v / U14.2p (same text in all three templates).
// Proof: the member set is built as the union over the page map of each page's bit set shifted to its major value; the pieces are
// disjoint (distinct majors), each has the size of its page (injective shift), and the page indices of the map are a permutation
// of the page slots (injective, same length), so summing over the map equals summing over the slots (removal induction).
// ASSUMED: members of a page are < 512 (type invariant of BitPage; Kani unit U14.1).
use vstd::prelude::*;
verus! {
//@prelude std_combinators
#[verifier::external_body]
pub struct BitPage { _p: u8 }
impl BitPage { pub uninterp spec fn view(&self) -> Set<u32>; }
pub broadcast axiom fn axiom_page_range(p: BitPage, x: u32)
    ensures #[trigger] p@.contains(x) ==> x < 512;
#[derive(Clone, Copy)]
pub struct PageInfo {
    index: u32,
    major_value: u32,
}
pub struct BitSet {
    pages: Vec<BitPage>,
    page_map: Vec<PageInfo>,
    length: u64,
}
spec fn sum_len(s: Seq<BitPage>) -> nat
    decreases s.len()
{
    if s.len() == 0 { 0 } else { sum_len(s.drop_last()) + s.last()@.len() }
}
spec fn map_wf_s(m: Seq<PageInfo>, p: Seq<BitPage>) -> bool {
    &&& m.len() == p.len()
    &&& forall|i: int| 0 <= i < m.len() ==> (#[trigger] m[i]).index < p.len() && m[i].major_value < 0x80_0000
    &&& forall|i: int, j: int| 0 <= i < j < m.len() ==> (#[trigger] m[i]).major_value < (#[trigger] m[j]).major_value
    &&& forall|i: int, j: int| 0 <= i < j < m.len() ==> (#[trigger] m[i]).index != (#[trigger] m[j]).index
}
spec fn mem_at_s(m: Seq<PageInfo>, p: Seq<BitPage>, i: int, x: u32) -> bool {
    0 <= i < m.len() && m[i].major_value == (x >> 9) && p[m[i].index as int]@.contains(x & 511)
}
spec fn mem_s(m: Seq<PageInfo>, p: Seq<BitPage>, x: u32) -> bool {
    exists|i: int| mem_at_s(m, p, i, x)
}

// ---- the member set, built constructively (finite by construction)
spec fn shift(major: u32) -> spec_fn(u32) -> u32 { |b: u32| ((major << 9) | b) as u32 }
spec fn page_vals(m: PageInfo, pg: BitPage) -> Set<u32> { pg@.map(shift(m.major_value)) }
spec fn vs(m: Seq<PageInfo>, p: Seq<BitPage>, k: int) -> Set<u32>
    decreases k
{
    if k <= 0 { Set::empty() } else { vs(m, p, k - 1).union(page_vals(m[k - 1], p[m[k - 1].index as int])) }
}
spec fn msum(m: Seq<PageInfo>, p: Seq<BitPage>, k: int) -> nat
    decreases k
{
    if k <= 0 { 0 } else { msum(m, p, k - 1) + p[m[k - 1].index as int]@.len() }
}
proof fn lemma_shift(major: u32, b: u32)
    requires major < 0x80_0000, b < 512
    ensures (((major << 9) | b) as u32) >> 9 == major, (((major << 9) | b) as u32) & 511 == b
{
    assert((((major << 9) | b) as u32) >> 9 == major && (((major << 9) | b) as u32) & 511 == b) by(bit_vector)
        requires major < 0x80_0000, b < 512;
}
proof fn lemma_unshift(x: u32)
    ensures (((x >> 9) << 9) | (x & 511)) as u32 == x, (x >> 9) < 0x80_0000, (x & 511) < 512
{
    assert((((x >> 9) << 9) | (x & 511)) as u32 == x && (x >> 9) < 0x80_0000 && (x & 511) < 512) by(bit_vector);
}
proof fn lemma_page_vals(m: PageInfo, pg: BitPage, x: u32)
    requires m.major_value < 0x80_0000
    ensures page_vals(m, pg).contains(x) == (m.major_value == (x >> 9) && pg@.contains(x & 511))
{
    broadcast use axiom_page_range;
    let f = shift(m.major_value);
    if page_vals(m, pg).contains(x) {
        let b = choose|b: u32| pg@.contains(b) && f(b) == x;
        lemma_shift(m.major_value, b);
    }
    if m.major_value == (x >> 9) && pg@.contains(x & 511) {
        lemma_unshift(x);
        assert(f(x & 511) == x);
        assert(pg@.map(f).contains(x));
    }
}
// vs(k) contains exactly the members reached through the first k map entries
proof fn lemma_vs_mem(m: Seq<PageInfo>, p: Seq<BitPage>, k: int, x: u32)
    requires map_wf_s(m, p), 0 <= k <= m.len()
    ensures vs(m, p, k).contains(x) == (exists|i: int| 0 <= i < k && mem_at_s(m, p, i, x))
    decreases k
{
    if k > 0 {
        lemma_vs_mem(m, p, k - 1, x);
        lemma_page_vals(m[k - 1], p[m[k - 1].index as int], x);
        if vs(m, p, k).contains(x) {
            if page_vals(m[k - 1], p[m[k - 1].index as int]).contains(x) { assert(mem_at_s(m, p, k - 1, x)); }
            else { let i = choose|i: int| 0 <= i < k - 1 && mem_at_s(m, p, i, x); assert(0 <= i < k && mem_at_s(m, p, i, x)); }
        }
        if exists|i: int| 0 <= i < k && mem_at_s(m, p, i, x) {
            let i = choose|i: int| 0 <= i < k && mem_at_s(m, p, i, x);
            if i < k - 1 { assert(0 <= i < k - 1 && mem_at_s(m, p, i, x)); }
        }
    }
}
proof fn lemma_vs_size(m: Seq<PageInfo>, p: Seq<BitPage>, k: int)
    requires map_wf_s(m, p), 0 <= k <= m.len()
    ensures vs(m, p, k).len() == msum(m, p, k)
    decreases k
{
    broadcast use axiom_page_range;
    if k > 0 {
        lemma_vs_size(m, p, k - 1);
        let a = vs(m, p, k - 1);
        let pg = p[m[k - 1].index as int];
        let b = page_vals(m[k - 1], pg);
        assert(a.disjoint(b)) by {
            assert forall|x: u32| !(a.contains(x) && b.contains(x)) by {
                lemma_vs_mem(m, p, k - 1, x);
                lemma_page_vals(m[k - 1], pg, x);
                if a.contains(x) && b.contains(x) {
                    let i = choose|i: int| 0 <= i < k - 1 && mem_at_s(m, p, i, x);
                    assert(m[i].major_value < m[k - 1].major_value);
                }
            }
        }
        vstd::set_lib::lemma_set_disjoint_lens(a, b);
        let f = shift(m[k - 1].major_value);
        assert forall|x: u32, y: u32| pg@.contains(x) && pg@.contains(y) && #[trigger] f(x) == #[trigger] f(y) implies x == y by {
            lemma_shift(m[k - 1].major_value, x);
            lemma_shift(m[k - 1].major_value, y);
        }
        vstd::set_lib::lemma_map_size(pg@, b, f);
    }
}

// ---- summing over an injective index sequence == summing over the slots
spec fn ssum(s: Seq<int>, p: Seq<BitPage>) -> nat
    decreases s.len()
{
    if s.len() == 0 { 0 } else { ssum(s.drop_last(), p) + p[s.last()]@.len() }
}
spec fn inj_into(s: Seq<int>, k: int) -> bool {
    (forall|i: int| 0 <= i < s.len() ==> 0 <= #[trigger] s[i] < k)
    && (forall|i: int, j: int| 0 <= i < j < s.len() ==> #[trigger] s[i] != #[trigger] s[j])
}
proof fn lemma_ssum_remove(s: Seq<int>, p: Seq<BitPage>, i0: int)
    requires 0 <= i0 < s.len()
    ensures ssum(s, p) == ssum(s.remove(i0), p) + p[s[i0]]@.len()
    decreases s.len()
{
    if i0 == s.len() - 1 {
        assert(s.remove(i0) =~= s.drop_last());
    } else {
        lemma_ssum_remove(s.drop_last(), p, i0);
        assert(s.remove(i0).drop_last() =~= s.drop_last().remove(i0));
        assert(s.remove(i0).last() == s.last());
    }
}
proof fn lemma_ssum_prefix_pages(s: Seq<int>, p: Seq<BitPage>)
    requires p.len() > 0, forall|i: int| 0 <= i < s.len() ==> 0 <= #[trigger] s[i] < p.len() - 1
    ensures ssum(s, p) == ssum(s, p.drop_last())
    decreases s.len()
{
    if s.len() > 0 { lemma_ssum_prefix_pages(s.drop_last(), p); }
}
proof fn lemma_remove_inj(s: Seq<int>, k: int, i0: int)
    requires inj_into(s, k), 0 <= i0 < s.len(), s[i0] == k - 1
    ensures inj_into(s.remove(i0), k - 1)
{
    let r = s.remove(i0);
    assert forall|i: int| 0 <= i < r.len() implies 0 <= #[trigger] r[i] < k - 1 by {
        if i < i0 { assert(r[i] == s[i]); } else { assert(r[i] == s[i + 1]); }
    }
    assert forall|i: int, j: int| 0 <= i < j < r.len() implies #[trigger] r[i] != #[trigger] r[j] by {
        let a = if i < i0 { i } else { i + 1 };
        let b = if j < i0 { j } else { j + 1 };
        assert(r[i] == s[a] && r[j] == s[b] && a < b);
    }
}
// pigeonhole: an injective sequence into [0, k) has length <= k
proof fn lemma_inj_len(s: Seq<int>, k: int)
    requires inj_into(s, k), k >= 0
    ensures s.len() <= k
    decreases k
{
    if s.len() > 0 {
        if k == 0 { let v = s[0]; assert(0 <= v < k); assert(false); }
        else if exists|i: int| 0 <= i < s.len() && s[i] == k - 1 {
            let i0 = choose|i: int| 0 <= i < s.len() && s[i] == k - 1;
            lemma_remove_inj(s, k, i0);
            lemma_inj_len(s.remove(i0), k - 1);
        } else {
            assert(inj_into(s, k - 1));
            lemma_inj_len(s, k - 1);
        }
    }
}
proof fn lemma_perm_sum(s: Seq<int>, p: Seq<BitPage>)
    requires inj_into(s, p.len() as int), s.len() == p.len()
    ensures ssum(s, p) == sum_len(p)
    decreases p.len()
{
    if p.len() > 0 {
        let k = p.len() as int;
        if !(exists|i: int| 0 <= i < s.len() && s[i] == k - 1) {
            assert(inj_into(s, k - 1));
            lemma_inj_len(s, k - 1);
        }
        let i0 = choose|i: int| 0 <= i < s.len() && s[i] == k - 1;
        lemma_remove_inj(s, k, i0);
        lemma_ssum_remove(s, p, i0);
        lemma_ssum_prefix_pages(s.remove(i0), p);
        lemma_perm_sum(s.remove(i0), p.drop_last());
        assert(p[s[i0]] == p.last());
    }
}
spec fn idx_seq(m: Seq<PageInfo>, k: int) -> Seq<int> { Seq::new(k as nat, |i: int| m[i].index as int) }
proof fn lemma_msum_ssum(m: Seq<PageInfo>, p: Seq<BitPage>, k: int)
    requires 0 <= k <= m.len()
    ensures msum(m, p, k) == ssum(idx_seq(m, k), p)
    decreases k
{
    if k > 0 {
        lemma_msum_ssum(m, p, k - 1);
        assert(idx_seq(m, k).drop_last() =~= idx_seq(m, k - 1));
    }
}
// THE LEMMA: under the representation invariant the members are a finite set of exactly sum_len(pages) elements
proof fn lemma_cardinality(m: Seq<PageInfo>, p: Seq<BitPage>)
    requires map_wf_s(m, p)
    ensures
        forall|x: u32| vs(m, p, m.len() as int).contains(x) == mem_s(m, p, x),
        vs(m, p, m.len() as int).len() == sum_len(p),
{
    let n = m.len() as int;
    assert forall|x: u32| vs(m, p, n).contains(x) == mem_s(m, p, x) by {
        lemma_vs_mem(m, p, n, x);
        if mem_s(m, p, x) { let i = choose|i: int| mem_at_s(m, p, i, x); assert(0 <= i < n && mem_at_s(m, p, i, x)); }
    }
    lemma_vs_size(m, p, n);
    lemma_msum_ssum(m, p, n);
    assert(inj_into(idx_seq(m, n), p.len() as int));
    lemma_perm_sum(idx_seq(m, n), p);
}

impl BitSet {
    pub closed spec fn wf(&self) -> bool {
        &&& map_wf_s(self.page_map@, self.pages@)
        &&& self.length == sum_len(self.pages@)
    }
    pub closed spec fn mem(&self, x: u32) -> bool { mem_s(self.page_map@, self.pages@, x) }
    pub closed spec fn members(&self) -> Set<u32> { vs(self.page_map@, self.pages@, self.page_map@.len() as int) }

//@extract source=bs container="impl BitSet" fn=len ret=r
//@spec
        requires self.wf()
        ensures r == self.members().len(), forall|x: u32| self.members().contains(x) == self.mem(x)
//@at body-start
        proof { lemma_cardinality(self.page_map@, self.pages@); }
//@end
}
}
fn main() {}
