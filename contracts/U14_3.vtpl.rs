//@unit U14.3 props=C14 tier=quick
//@source name=intset kind=file path=read-fonts/src/collections/int_set/mod.rs
// IntSet membership-mode tables (C14): every operation of IntSet<T> equals the mathematical set operation
// for all four Inclusive/Exclusive combinations, for a generic element domain T. The BitSet layer below is
// ABSTRACT here: its operations enter as external_body stubs carrying the set-algebra contracts of unit U14.2
// (assumed; the page layer underneath is proved by Kani unit U14.1).
use vstd::prelude::*;
use std::marker::PhantomData;
use core::ops::RangeInclusive;
verus! {
//@prelude std_combinators

// std: core::mem::replace has no vstd specification in this Verus build (trusted, standard semantics)
pub assume_specification<T>[core::mem::replace::<T>](dest: &mut T, src: T) -> (r: T)
    ensures *final(dest) == src, r == *old(dest);

#[verifier::external_body]
pub struct BitSet { _p: u8 }

// stands for `impl DoubleEndedIterator<Item = u32>` (return-position impl Trait in a trait is outside Verus' subset)
#[verifier::external_body]
pub struct ValIter { _p: u8 }
impl ValIter { pub uninterp spec fn yields(&self, x: u32) -> bool; }
pub assume_specification<Idx>[ RangeInclusive::<Idx>::start ](r: &RangeInclusive<Idx>) -> (s: &Idx)
    ensures *s == r@.start;
pub assume_specification<Idx>[ RangeInclusive::<Idx>::end ](r: &RangeInclusive<Idx>) -> (s: &Idx)
    ensures *s == r@.end;

impl BitSet {
    pub uninterp spec fn view(&self) -> Set<u32>;

    #[verifier::external_body]
    pub fn insert(&mut self, val: u32) -> (r: bool)
        ensures final(self)@ == old(self)@.insert(val), r == !old(self)@.contains(val)
    { unimplemented!() }
    #[verifier::external_body]
    pub fn remove(&mut self, val: u32) -> (r: bool)
        ensures final(self)@ == old(self)@.remove(val), r == old(self)@.contains(val)
    { unimplemented!() }
    #[verifier::external_body]
    pub fn contains(&self, val: u32) -> (r: bool)
        ensures r == self@.contains(val)
    { unimplemented!() }
    #[verifier::external_body]
    pub fn len(&self) -> (r: u64)
        ensures r == self@.len()
    { unimplemented!() }
    #[verifier::external_body]
    pub fn clear(&mut self)
        ensures final(self)@ == Set::<u32>::empty()
    { unimplemented!() }
    #[verifier::external_body]
    pub fn union(&mut self, other: &BitSet)
        ensures final(self)@ == old(self)@.union(other@)
    { unimplemented!() }
    #[verifier::external_body]
    pub fn intersect(&mut self, other: &BitSet)
        ensures final(self)@ == old(self)@.intersect(other@)
    { unimplemented!() }
    #[verifier::external_body]
    pub fn subtract(&mut self, other: &BitSet)
        ensures final(self)@ == old(self)@.difference(other@)
    { unimplemented!() }
    #[verifier::external_body]
    pub fn reversed_subtract(&mut self, other: &BitSet)
        ensures final(self)@ == other@.difference(old(self)@)
    { unimplemented!() }
    #[verifier::external_body]
    pub fn insert_range(&mut self, range: RangeInclusive<u32>)
        ensures forall|x: u32| #![trigger final(self)@.contains(x)] final(self)@.contains(x) == (old(self)@.contains(x) || (range@.start <= x <= range@.end))
    { unimplemented!() }
    #[verifier::external_body]
    pub fn remove_range(&mut self, range: RangeInclusive<u32>)
        ensures forall|x: u32| #![trigger final(self)@.contains(x)] final(self)@.contains(x) == (old(self)@.contains(x) && !(range@.start <= x <= range@.end))
    { unimplemented!() }
    // extend / remove_all are generic over IntoIterator<Item = u32> in the real code; here they are instantiated at the
    // abstract iterator type the Domain stub returns (the values it yields are a ghost predicate)
    #[verifier::external_body]
    pub fn extend(&mut self, iter: ValIter)
        ensures forall|x: u32| #![trigger final(self)@.contains(x)] final(self)@.contains(x) == (old(self)@.contains(x) || iter.yields(x))
    { unimplemented!() }
    #[verifier::external_body]
    pub fn remove_all(&mut self, iter: ValIter)
        ensures forall|x: u32| #![trigger final(self)@.contains(x)] final(self)@.contains(x) == (old(self)@.contains(x) && !iter.yields(x))
    { unimplemented!() }
    #[verifier::external_body]
    pub const fn empty() -> (r: BitSet)
        ensures r@ == Set::<u32>::empty()
    { unimplemented!() }
}

// The Domain trait, reduced to the three members the mode tables use, with its documented laws as specs:
// to_u32 maps into the domain; count() is the number of domain values.
//@require source=intset seq="pub trait Domain: Sized"
//@require source=intset seq="fn to_u32(&self) -> u32;"
//@require source=intset seq="fn count() -> u64;"
//@require source=intset seq="fn is_continuous() -> bool;"
//@require source=intset seq="fn ordered_values_range(range: RangeInclusive<Self>) -> impl DoubleEndedIterator<Item = u32>;"
pub trait Domain: Sized {
    spec fn to_u32_spec(&self) -> u32;
    spec fn dom(value: u32) -> bool;
    spec fn count_spec() -> nat;

    fn to_u32(&self) -> (r: u32)
        ensures r == self.to_u32_spec(), Self::dom(r);
    fn count() -> (r: u64)
        ensures r == Self::count_spec();
    // "true if all u32 values between the mapped u32 min and mapped u32 max value of this domain are used"
    fn is_continuous() -> (r: bool)
        ensures r ==> forall|a: u32, b: u32, x: u32| #![trigger Self::dom(a), Self::dom(b), Self::dom(x)] Self::dom(a) && Self::dom(b) && a <= x <= b ==> Self::dom(x);
    // "iterator which generates all values in the given range of this domain [in order] from minimum to maximum"
    fn ordered_values_range(range: RangeInclusive<Self>) -> (r: ValIter)
        ensures forall|x: u32| r.yields(x) == (Self::dom(x) && range@.start.to_u32_spec() <= x <= range@.end.to_u32_spec());
    proof fn dom_finite()
        ensures ISet::<u32>::new(|x: u32| Self::dom(x)).finite(),
                ISet::<u32>::new(|x: u32| Self::dom(x)).len() == Self::count_spec();
}

//@require source=intset seq="enum Membership { Inclusive(BitSet), Exclusive(BitSet), }"
pub enum Membership {
    Inclusive(BitSet),
    Exclusive(BitSet),
}

//@require source=intset seq="pub struct IntSet<T>(Membership, PhantomData<T>);"
pub struct IntSet<T>(pub Membership, pub PhantomData<T>);

proof fn lemma_card<T: Domain>(s: Set<u32>)
    requires forall|x: u32| s.contains(x) ==> T::dom(x)
    ensures s.len() <= T::count_spec(),
            ISet::<u32>::new(|x: u32| T::dom(x) && !s.contains(x)).finite(),
            ISet::<u32>::new(|x: u32| T::dom(x) && !s.contains(x)).len() == T::count_spec() - s.len(),
{
    T::dom_finite();
    let d = ISet::<u32>::new(|x: u32| T::dom(x));
    let si = s.to_iset();
    vstd::set::lemma_to_iset_len(s);
    vstd::set::lemma_to_iset_finite(s);
    assert(si.subset_of(d));
    vstd::iset_lib::lemma_len_subset(si, d);
    let c = ISet::<u32>::new(|x: u32| T::dom(x) && !s.contains(x));
    assert(c =~= d.difference(si));
    vstd::iset_lib::lemma_iset_difference_len(d, si);
    assert(d.intersect(si) =~= si);
}

impl<T: Domain> IntSet<T> {
    // membership of a mapped value
    pub open spec fn mem(&self, x: u32) -> bool {
        match self.0 {
            Membership::Inclusive(s) => s@.contains(x),
            Membership::Exclusive(s) => T::dom(x) && !s@.contains(x),
        }
    }
    pub open spec fn members(&self) -> ISet<u32> { ISet::<u32>::new(|x: u32| self.mem(x)) }
    // representation invariant: stored values are in the domain
    pub open spec fn wf(&self) -> bool {
        match self.0 {
            Membership::Inclusive(s) => forall|x: u32| s@.contains(x) ==> T::dom(x),
            Membership::Exclusive(s) => forall|x: u32| s@.contains(x) ==> T::dom(x),
        }
    }

    pub proof fn lemma_members(&self)
        requires self.wf()
        ensures self.members().finite(),
            self.members().len() == (match self.0 {
                Membership::Inclusive(s) => s@.len() as int,
                Membership::Exclusive(s) => T::count_spec() - s@.len(),
            }),
            (self.members().len() == 0) <==> (forall|x: u32| !self.mem(x)),
            match self.0 { Membership::Inclusive(s) => true, Membership::Exclusive(s) => s@.len() <= T::count_spec() },
    {
        match self.0 {
            Membership::Inclusive(s) => {
                vstd::set::lemma_to_iset_len(s@);
                vstd::set::lemma_to_iset_finite(s@);
                assert(self.members() =~= s@.to_iset());
            }
            Membership::Exclusive(s) => {
                lemma_card::<T>(s@);
                assert(self.members() =~= ISet::<u32>::new(|x: u32| T::dom(x) && !s@.contains(x)));
            }
        }
        if self.members().len() == 0 {
            vstd::iset_lib::lemma_iset_empty_equivalency_len(self.members());
            assert forall|x: u32| !self.mem(x) by { assert(!self.members().contains(x)); }
        }
        if forall|x: u32| !self.mem(x) {
            assert(self.members() =~= ISet::<u32>::empty());
        }
    }

//@extract source=intset container="impl<T: Domain> IntSet<T>" fn=insert ret=r
//@spec
        requires old(self).wf()
        ensures final(self).wf(),
            forall|x: u32| final(self).mem(x) == (old(self).mem(x) || x == val.to_u32_spec()),
            r == !old(self).mem(val.to_u32_spec()),
            final(self).0 is Inclusive == old(self).0 is Inclusive,
//@end

//@extract source=intset container="impl<T: Domain> IntSet<T>" fn=remove ret=r
//@spec
        requires old(self).wf()
        ensures final(self).wf(),
            forall|x: u32| final(self).mem(x) == (old(self).mem(x) && x != val.to_u32_spec()),
            r == old(self).mem(val.to_u32_spec()),
//@end

//@extract source=intset container="impl<T: Domain> IntSet<T>" fn=insert_range
//@spec
        requires old(self).wf()
        ensures final(self).wf(),
            forall|x: u32| final(self).mem(x) == (old(self).mem(x) || (T::dom(x) && range@.start.to_u32_spec() <= x <= range@.end.to_u32_spec())),
            final(self).0 is Inclusive == old(self).0 is Inclusive,
//@end

//@extract source=intset container="impl<T: Domain> IntSet<T>" fn=remove_range
//@spec
        requires old(self).wf()
        ensures final(self).wf(),
            forall|x: u32| final(self).mem(x) == (old(self).mem(x) && !(range@.start.to_u32_spec() <= x <= range@.end.to_u32_spec())),
            final(self).0 is Inclusive == old(self).0 is Inclusive,
//@end

//@extract source=intset container="impl<T: Domain> IntSet<T>" fn=contains ret=r
//@spec
        requires self.wf()
        ensures r == self.mem(val.to_u32_spec())
//@end

//@extract source=intset container="impl<T: Domain> IntSet<T>" fn=len ret=r
//@spec
        requires self.wf()
        ensures self.members().finite(), r == self.members().len()
//@at body-start
        proof { self.lemma_members(); }
//@end

//@extract source=intset container="impl<T: Domain> IntSet<T>" fn=is_empty ret=r
//@spec
        requires self.wf()
        ensures r == (forall|x: u32| !self.mem(x))
//@at body-start
        proof { self.lemma_members(); }
//@end

//@extract source=intset container="impl<T: Domain> IntSet<T>" fn=union
//@spec
        requires old(self).wf(), other.wf()
        ensures final(self).wf(), forall|x: u32| final(self).mem(x) == (old(self).mem(x) || other.mem(x)),
//@end

//@extract source=intset container="impl<T: Domain> IntSet<T>" fn=intersect
//@spec
        requires old(self).wf(), other.wf()
        ensures final(self).wf(), forall|x: u32| final(self).mem(x) == (old(self).mem(x) && other.mem(x)),
//@end

//@extract source=intset container="impl<T: Domain> IntSet<T>" fn=subtract
//@spec
        requires old(self).wf(), other.wf()
        ensures final(self).wf(), forall|x: u32| final(self).mem(x) == (old(self).mem(x) && !other.mem(x)),
//@end
}

impl<T> IntSet<T> {
    // Verus cannot parse the real body of invert (or-pattern with &mut binding): contract only here; the
    // real body is loop-free and is proved against this same contract by Kani (unit U14.3k).
    #[verifier::external_body]
    pub fn invert(&mut self)
        ensures match (old(self).0, final(self).0) {
            (Membership::Inclusive(a), Membership::Exclusive(b)) => a@ == b@,
            (Membership::Exclusive(a), Membership::Inclusive(b)) => a@ == b@,
            _ => false,
        }
    { unimplemented!() }

//@extract source=intset container="impl<T> IntSet<T>" fn=is_inverted ret=r
//@spec
        ensures r == (self.0 is Exclusive)
//@end

//@extract source=intset container="impl<T> IntSet<T>" fn=empty ret=r
//@spec
        ensures r.0 is Inclusive, r.0->Inclusive_0@ == Set::<u32>::empty()
//@end

//@extract source=intset container="impl<T> IntSet<T>" fn=all ret=r
//@spec
        ensures r.0 is Exclusive, r.0->Exclusive_0@ == Set::<u32>::empty()
//@end

//@extract source=intset container="impl<T> IntSet<T>" fn=clear
//@spec
        ensures final(self).0 is Inclusive, final(self).0->Inclusive_0@ == Set::<u32>::empty()
//@end
}

}
fn main() {}
