//@unit U19.8 props=C19 tier=quick
//@source name=pm kind=file path=incremental-font-transfer/src/patchmap.rs
// C19, the format-2 top level ("the set of patches offered for a subset definition is exactly the set of ... un-ignored mapping
// entries whose ... conditions intersect that definition"): add_intersecting_format2_patches appends to `patches`, in entry order,
// exactly one URI for every decoded entry that is not ignored and whose intersection test (unit U19.1's `intersects`, here an
// abstract predicate `int_spec`) holds - nothing else, nothing twice, nothing removed - and each appended URI is the entry's own
// URI, carrying intersection information (computed from the entry's subset definition intersected with the requested one, and the
// entry's position) exactly when THAT ENTRY's own patch format is an invalidating one.
// Containers and decoders are opaque; `entries.iter().enumerate()` is replaced by a stub with the std semantics (ASSUMED: yields
// (0, &e[0]), (1, &e[1]), ... in order); the `for` loop is desugared mechanically.
use vstd::prelude::*;
verus! {
//@prelude std_combinators
#[verifier::external_body] pub struct IftTableTag { _p: u8 }
#[verifier::external_body] pub struct PatchMapFormat2 { _p: u8 }
#[verifier::external_body] pub struct ReadError { _p: u8 }
#[verifier::external_body] pub struct StringStub { _p: u8 }
#[verifier::external_body] pub struct PatchId { _p: u8 }
#[verifier::external_body] pub struct SubsetDefinition { _p: u8 }
#[verifier::external_body] pub struct IntersectionInfo { _p: u8 }
#[verifier::external_body] #[derive(Clone, Copy)] pub struct PatchFormat { _p: u8 }
#[verifier::external_body] #[verifier::accept_recursive_types(K)] #[verifier::accept_recursive_types(V)] pub struct HashMap<K, V> { _p: core::marker::PhantomData<(K, V)> }
impl<K, V> Default for HashMap<K, V> { #[verifier::external_body] fn default() -> Self { unimplemented!() } }

impl PatchFormat {
    pub uninterp spec fn inv_spec(&self) -> bool;
    #[verifier::external_body]
    fn is_invalidating(&self) -> (r: bool) ensures r == self.inv_spec() { unimplemented!() }
//@extract source=pm container="impl PatchFormat" fn=is_invalidating_format ret=r
//@spec
        ensures r == (format == 1 || format == 2)
//@end
}
// further accessors of the real API (not called by the current text; present so that an edit that starts using them is decided
// instead of being unprocessable)
impl PatchMapFormat2 {
    #[verifier::external_body]
    pub fn default_patch_format(&self) -> (r: u8) { unimplemented!() }
    #[verifier::external_body]
    pub fn entry_count(&self) -> (r: u32) { unimplemented!() }
}
impl SubsetDefinition {
    pub uninterp spec fn inter_spec(&self, other: &SubsetDefinition) -> SubsetDefinition;
    #[verifier::external_body]
    fn intersection(&self, other: &Self) -> (r: Self) ensures r == self.inter_spec(other) { unimplemented!() }
}
impl IntersectionInfo {
    pub uninterp spec fn from_subset_spec(value: SubsetDefinition, order: usize) -> IntersectionInfo;
    #[verifier::external_body]
    fn from_subset(value: SubsetDefinition, order: usize) -> (r: Self) ensures r == Self::from_subset_spec(value, order) { unimplemented!() }
}
//@require source=pm seq="pub struct PatchUri { template: String,"
//@require source=pm seq="id: PatchId, encoding: PatchFormat, source_table: IftTableTag, application_flag_bit_index: usize, intersection_info: IntersectionInfo, }"
pub struct PatchUri {
    pub template: StringStub,
    pub id: PatchId,
    pub encoding: PatchFormat,
    pub source_table: IftTableTag,
    pub application_flag_bit_index: usize,
    pub intersection_info: IntersectionInfo,
}
impl Clone for PatchUri {
    #[verifier::external_body]
    fn clone(&self) -> (r: Self) ensures r == *self { unimplemented!() }
}
impl PatchUri {
//@extract source=pm container="impl PatchUri" fn=encoding ret=r
//@spec
        ensures r == self.encoding
//@end
}
//@require source=pm seq="struct Entry { subset_definition: SubsetDefinition, child_indices: Vec<usize>, conjunctive_child_match: bool, ignored: bool, uri: PatchUri, }"
pub struct Entry {
    pub subset_definition: SubsetDefinition,
    pub child_indices: Vec<usize>,
    pub conjunctive_child_match: bool,
    pub ignored: bool,
    pub uri: PatchUri,
}
//@require source=pm seq="struct EntryIntersectionCache<'a> { entries: &'a [Entry], cache: HashMap<usize, bool>, }"
pub struct EntryIntersectionCache<'a> {
    pub entries: &'a [Entry],
    pub cache: HashMap<usize, bool>,
}
// the recursive intersection test of unit U19.1 (there: == spec_intersects), abstract here
pub uninterp spec fn int_spec(entries: Seq<Entry>, index: int, sd: &SubsetDefinition) -> bool;
impl EntryIntersectionCache<'_> {
    #[verifier::external_body]
    fn intersects(&mut self, index: usize, subset_definition: &SubsetDefinition) -> (r: bool)
        ensures final(self).entries == old(self).entries, r == int_spec(old(self).entries@, index as int, subset_definition)
    { unimplemented!() }
}
// ASSUMED: nothing about what is decoded (any entry list, or an error)
#[verifier::external_body]
fn decode_format2_entries(source_table: &IftTableTag, map: &PatchMapFormat2) -> (r: Result<Vec<Entry>, ReadError>) { unimplemented!() }
pub uninterp spec fn decoded(source_table: &IftTableTag, map: &PatchMapFormat2) -> Seq<Entry>;

// ASSUMED (std): slice::iter().enumerate() yields (0, &s[0]), (1, &s[1]), ...
#[verifier::external_body] pub struct EnumIter<'a> { _p: core::marker::PhantomData<&'a Entry> }
impl<'a> EnumIter<'a> {
    pub uninterp spec fn pos(&self) -> int;
    pub uninterp spec fn items(&self) -> Seq<Entry>;
    #[verifier::external_body]
    pub fn next(&mut self) -> (r: Option<(usize, &'a Entry)>)
        ensures final(self).items() == old(self).items(),
            match r {
                Some(p) => old(self).pos() < old(self).items().len() && p.0 == old(self).pos() && *p.1 == old(self).items()[old(self).pos()]
                    && final(self).pos() == old(self).pos() + 1,
                None => old(self).pos() >= old(self).items().len() && final(self).pos() == old(self).pos(),
            }
    { unimplemented!() }
}
#[verifier::external_body]
fn enumerate_stub<'a>(v: &'a Vec<Entry>) -> (r: EnumIter<'a>) ensures r.pos() == 0, r.items() == v@ { unimplemented!() }

// ---- specification: what is offered for the first n entries
pub open spec fn offered_uri(e: Entry, order: int, sd: &SubsetDefinition) -> PatchUri {
    if e.uri.encoding.inv_spec() {
        PatchUri { intersection_info: IntersectionInfo::from_subset_spec(e.subset_definition.inter_spec(sd), order as usize), ..e.uri }
    } else { e.uri }
}
pub open spec fn offered(entries: Seq<Entry>, sd: &SubsetDefinition, n: int) -> Seq<PatchUri>
    decreases n
{
    if n <= 0 { Seq::empty() }
    else if !entries[n - 1].ignored && int_spec(entries, n - 1, sd) { offered(entries, sd, n - 1).push(offered_uri(entries[n - 1], n - 1, sd)) }
    else { offered(entries, sd, n - 1) }
}

//@extract source=pm fn=add_intersecting_format2_patches ret=res
//@rewrite "entries.iter().enumerate()" => "enumerate_stub(&entries)"
//@desugarfor nth=0 name=verif_it raw
//@spec
    ensures
        // nothing is ever removed or reordered, also on error
        old(patches)@.is_prefix_of(final(patches)@),
        res is Ok ==> exists|entries: Seq<Entry>| final(patches)@ == old(patches)@ + #[trigger] offered(entries, subset_definition, entries.len() as int),
//@at loop "let mut verif_it ="
        invariant
            verif_it.items() == entries@, 0 <= verif_it.pos() <= entries@.len(),
            entry_intersection_cache.entries@ == entries@,
            patches@ == old(patches)@ + offered(entries@, subset_definition, verif_it.pos()),
        ensures
            patches@ == old(patches)@ + offered(entries@, subset_definition, entries@.len() as int),
        decreases entries@.len() - verif_it.pos()
//@at after "else { break; };"
        proof {
            assert(offered(entries@, subset_definition, verif_it.pos()) == (if !entries@[verif_it.pos() - 1].ignored && int_spec(entries@, verif_it.pos() - 1, subset_definition)
                { offered(entries@, subset_definition, verif_it.pos() - 1).push(offered_uri(entries@[verif_it.pos() - 1], verif_it.pos() - 1, subset_definition)) }
                else { offered(entries@, subset_definition, verif_it.pos() - 1) }));
        }
//@at after "patches.push(uri)"
        ;
        proof {
            assert(patches@ =~= old(patches)@ + offered(entries@, subset_definition, verif_it.pos()));
        }
//@end
}
fn main() {}
