//@unit U14.2c props=C14 tier=quick
//@source name=bs kind=file path=read-fonts/src/collections/int_set/bitset.rs
// C14, middle layer, page compaction (used by intersect / reversed_subtract between the forward and the backward merge):
// BitSet::compact_pages, BitSet::compact and BitSet::resize on the real text, for unboundedly many pages. compact(new_len) moves the pages of the
// first new_len map entries (whose page indices must be distinct and in range) to the page slots 0..new_len, keeps every entry's
// major value and every kept page's contents, and leaves both vectors' lengths alone - exactly the contract the merge proof
// (unit U14.2p) assumes for it. compact_pages: given the inverse table (old page index -> map index, usize::MAX = dropped), the
// kept pages are packed in increasing old-index order: the page of old index p ends up at rank(p) = number of kept indices < p.
// Extraction: `table.iter().enumerate().take(n)` is replaced by a stub iterator with the std semantics (ASSUMED: yields (0, &t[0]),
// (1, &t[1]), ... for the first min(len, n) elements), the `for` loop is desugared mechanically. Vec::with_capacity / resize:
// vstd / ASSUMED below.
use vstd::prelude::*;
verus! {
//@prelude std_combinators
#[verifier::external_body]
pub struct BitPage { _p: u8 }
impl BitPage {
    pub uninterp spec fn view(&self) -> Set<u32>;
    #[verifier::external_body]
    pub fn new_zeroes() -> (r: Self) ensures r@ == Set::<u32>::empty() { unimplemented!() }
}
impl Clone for BitPage {
    #[verifier::external_body]
    fn clone(&self) -> (r: Self) ensures r@ == self@ { unimplemented!() }
}
#[derive(Clone, Copy)]
pub struct PageInfo {
    index: u32,
    major_value: u32,
}
pub struct BitSet {
    pages: Vec<BitPage>,
    page_map: Vec<PageInfo>,
    length: u64,
}
#[verifier::external_body] pub struct EnumTake<'a> { _p: core::marker::PhantomData<&'a usize> }
impl<'a> EnumTake<'a> {
    pub uninterp spec fn pos(&self) -> int;
    pub uninterp spec fn items(&self) -> Seq<usize>;
    pub uninterp spec fn limit(&self) -> int;
    #[verifier::external_body]
    pub fn next(&mut self) -> (r: Option<(usize, &'a usize)>)
        ensures final(self).items() == old(self).items(), final(self).limit() == old(self).limit(),
            match r {
                Some(p) => old(self).pos() < old(self).limit() && p.0 == old(self).pos() && *p.1 == old(self).items()[old(self).pos()]
                    && final(self).pos() == old(self).pos() + 1,
                None => old(self).pos() >= old(self).limit() && final(self).pos() == old(self).pos(),
            }
    { unimplemented!() }
}
#[verifier::external_body]
fn enumerate_take_stub<'a>(v: &'a Vec<usize>, n: usize) -> (r: EnumTake<'a>)
    ensures r.pos() == 0, r.items() == v@, r.limit() == (if v@.len() <= n as int { v@.len() as int } else { n as int })
{ unimplemented!() }

pub open spec fn live(t: Seq<usize>, p: int) -> bool { 0 <= p < t.len() && t[p] != usize::MAX }
// number of kept old indices below p
pub open spec fn rank(t: Seq<usize>, p: int) -> int decreases p {
    if p <= 0 { 0 } else { rank(t, p - 1) + (if live(t, p - 1) { 1int } else { 0int }) }
}
proof fn lemma_rank_bounds(t: Seq<usize>, p: int)
    requires 0 <= p <= t.len()
    ensures 0 <= rank(t, p) <= p
    decreases p
{ if p > 0 { lemma_rank_bounds(t, p - 1); } }
proof fn lemma_rank_mono(t: Seq<usize>, p: int, q: int)
    requires 0 <= p <= q <= t.len()
    ensures rank(t, p) <= rank(t, q), live(t, p) && p < q ==> rank(t, p) < rank(t, q)
    decreases q - p
{
    if p < q { lemma_rank_mono(t, p, q - 1); if p == q - 1 { } }
}

proof fn lemma_rank_none(t: Seq<usize>, p: int)
    requires 0 <= p <= t.len(), forall|q: int| 0 <= q < t.len() ==> !live(t, q)
    ensures rank(t, p) == 0
    decreases p
{ if p > 0 { lemma_rank_none(t, p - 1); } }
proof fn lemma_rank_update(t: Seq<usize>, q: int, p: int)
    requires live(t, q), 0 <= p <= t.len()
    ensures rank(t, p) == rank(t.update(q, usize::MAX), p) + (if q < p { 1int } else { 0int })
    decreases p
{
    if p > 0 {
        lemma_rank_update(t, q, p - 1);
        let t2 = t.update(q, usize::MAX);
        assert(live(t2, p - 1) == (live(t, p - 1) && p - 1 != q));
    }
}
// the kept old indices are exactly the page indices of the first n map entries, which are pairwise distinct: there are n of them
proof fn lemma_live_count(t: Seq<usize>, pm: Seq<PageInfo>, n: int)
    requires
        0 <= n <= pm.len(), n < usize::MAX,
        forall|i: int| 0 <= i < n ==> (#[trigger] pm[i]).index < t.len() && t[pm[i].index as int] == i,
        forall|p: int| live(t, p) ==> (#[trigger] t[p]) < n && pm[t[p] as int].index == p,
    ensures rank(t, t.len() as int) == n
    decreases n
{
    if n == 0 {
        lemma_rank_none(t, t.len() as int);
    } else {
        let q = pm[n - 1].index as int;
        let t2 = t.update(q, usize::MAX);
        assert(live(t, q));
        assert forall|i: int| 0 <= i < n - 1 implies (#[trigger] pm[i]).index < t2.len() && t2[pm[i].index as int] == i by {
            assert(t[pm[i].index as int] == i);
        }
        assert forall|p: int| live(t2, p) implies (#[trigger] t2[p]) < n - 1 && pm[t2[p] as int].index == p by {
            assert(live(t, p) && p != q);
            assert(t[p] < n);
            if t[p] == n - 1 { assert(pm[t[p] as int].index == p); }
        }
        lemma_live_count(t2, pm, n - 1);
        lemma_rank_update(t, q, t.len() as int);
    }
}

impl BitSet {
//@extract source=bs container="impl BitSet" fn=compact_pages
//@rewrite "old_index_to_page_map_index .iter() .enumerate() .take(self.pages.len())" => "enumerate_take_stub(&old_index_to_page_map_index, self.pages.len())"
//@desugarfor nth=0 name=verif_it raw
//@spec
        requires
            old_index_to_page_map_index@.len() == old(self).pages@.len(),
            old(self).pages@.len() <= 0x8000_0000,
            forall|p: int| live(old_index_to_page_map_index@, p) ==> (#[trigger] old_index_to_page_map_index@[p]) < old(self).page_map@.len()
                && old(self).page_map@[old_index_to_page_map_index@[p] as int].index == p,
        ensures
            final(self).pages@.len() == old(self).pages@.len(), final(self).page_map@.len() == old(self).page_map@.len(),
            final(self).length == old(self).length,
            forall|k: int| 0 <= k < final(self).page_map@.len() ==> (#[trigger] final(self).page_map@[k]).major_value == old(self).page_map@[k].major_value,
            forall|p: int| live(old_index_to_page_map_index@, p) ==>
                final(self).page_map@[(#[trigger] old_index_to_page_map_index@[p]) as int].index == rank(old_index_to_page_map_index@, p)
                && final(self).pages@[rank(old_index_to_page_map_index@, p)]@ == old(self).pages@[p]@,
//@at before "let mut verif_it ="
        let ghost t = old_index_to_page_map_index@;
        let ghost pm0 = self.page_map@;
        let ghost pg0 = self.pages@;
//@at loop "let mut verif_it ="
            invariant
                t == old_index_to_page_map_index@, pm0 == old(self).page_map@, pg0 == old(self).pages@,
                verif_it.items() == t, verif_it.limit() == t.len(), 0 <= verif_it.pos() <= t.len(),
                t.len() == pg0.len(), pg0.len() <= 0x8000_0000,
                forall|p: int| live(t, p) ==> (#[trigger] t[p]) < pm0.len() && pm0[t[p] as int].index == p,
                self.pages@.len() == pg0.len(), self.page_map@.len() == pm0.len(), self.length == old(self).length,
                write_index == rank(t, verif_it.pos()),
                forall|k: int| 0 <= k < pm0.len() ==> (#[trigger] self.page_map@[k]).major_value == pm0[k].major_value,
                forall|k: int| verif_it.pos() <= k < pg0.len() ==> #[trigger] self.pages@[k] == pg0[k],
                forall|p: int| live(t, p) && p < verif_it.pos() ==>
                    self.page_map@[(#[trigger] t[p]) as int].index == rank(t, p) && self.pages@[rank(t, p)]@ == pg0[p]@,
            ensures
                forall|p: int| live(t, p) ==>
                    self.page_map@[(#[trigger] t[p]) as int].index == rank(t, p) && self.pages@[rank(t, p)]@ == pg0[p]@,
            decreases t.len() - verif_it.pos()
//@at after "else { break; };"
            proof {
                lemma_rank_bounds(t, verif_it.pos() - 1);
                assert forall|p: int| live(t, p) && p < verif_it.pos() - 1 implies rank(t, p) < rank(t, verif_it.pos() - 1) by {
                    lemma_rank_mono(t, p, verif_it.pos() - 1);
                }
            }
//@end

//@extract source=bs container="impl BitSet" fn=resize
//@spec
        ensures final(self).page_map@.len() == new_len, final(self).pages@.len() == new_len, final(self).length == old(self).length,
            forall|k: int| 0 <= k < new_len && k < old(self).page_map@.len() ==> #[trigger] final(self).page_map@[k] == old(self).page_map@[k],
            forall|k: int| 0 <= k < new_len && k < old(self).pages@.len() ==> #[trigger] final(self).pages@[k] == old(self).pages@[k],
            forall|k: int| old(self).pages@.len() <= k < new_len ==> (#[trigger] final(self).pages@[k])@ == Set::<u32>::empty(),
//@end

//@extract source=bs container="impl BitSet" fn=compact
//@spec
        requires new_len <= old(self).page_map@.len(), old(self).pages@.len() <= 0x8000_0000, new_len <= 0x8000_0000,
            forall|i: int| 0 <= i < new_len ==> (#[trigger] old(self).page_map@[i]).index < old(self).pages@.len(),
            forall|i: int, j: int| 0 <= i < j < new_len ==> (#[trigger] old(self).page_map@[i]).index != (#[trigger] old(self).page_map@[j]).index,
        ensures final(self).page_map@.len() == old(self).page_map@.len(), final(self).pages@.len() == old(self).pages@.len(),
            final(self).length == old(self).length,
            forall|i: int| 0 <= i < new_len ==> (#[trigger] final(self).page_map@[i]).major_value == old(self).page_map@[i].major_value
                && final(self).page_map@[i].index < new_len
                && final(self).pages@[final(self).page_map@[i].index as int]@ == old(self).pages@[old(self).page_map@[i].index as int]@,
            forall|i: int, j: int| 0 <= i < j < new_len ==> (#[trigger] final(self).page_map@[i]).index != (#[trigger] final(self).page_map@[j]).index,
//@desugarfor nth=0 name=verif_rng raw
//@at loop "let mut verif_rng ="
            invariant
                *self == *old(self), verif_rng.end == new_len, 0 <= verif_rng.start <= new_len,
                new_len <= self.page_map@.len(),
                forall|i: int| 0 <= i < new_len ==> (#[trigger] self.page_map@[i]).index < self.pages@.len(),
                forall|i: int, j: int| 0 <= i < j < new_len ==> (#[trigger] self.page_map@[i]).index != (#[trigger] self.page_map@[j]).index,
                old_index_to_page_map_index@.len() == self.pages@.len(),
                forall|j: int| 0 <= j < verif_rng.start ==> old_index_to_page_map_index@[(#[trigger] self.page_map@[j]).index as int] == j,
                forall|p: int| live(old_index_to_page_map_index@, p) ==> (#[trigger] old_index_to_page_map_index@[p]) < verif_rng.start
                    && self.page_map@[old_index_to_page_map_index@[p] as int].index == p,
            ensures verif_rng.start == new_len
            decreases verif_rng.end - verif_rng.start
//@at before "self.compact_pages(old_index_to_page_map_index);"
        let ghost t = old_index_to_page_map_index@;
        proof {
            lemma_live_count(t, self.page_map@, new_len as int);
            assert forall|i: int| 0 <= i < new_len implies live(t, (#[trigger] self.page_map@[i]).index as int)
                && rank(t, self.page_map@[i].index as int) < new_len by {
                lemma_rank_mono(t, self.page_map@[i].index as int, t.len() as int);
            }
            assert forall|i: int, j: int| 0 <= i < j < new_len implies
                rank(t, (#[trigger] self.page_map@[i]).index as int) != rank(t, (#[trigger] self.page_map@[j]).index as int) by {
                let (a, b) = (self.page_map@[i].index as int, self.page_map@[j].index as int);
                if a < b { lemma_rank_mono(t, a, b); } else { lemma_rank_mono(t, b, a); }
            }
        }
//@end
}
}
fn main() {}
