//@unit U20.7 props=C20,C02 tier=quick
//@source name=gk kind=file path=incremental-font-transfer/src/glyph_keyed.rs
// C20 (patch arithmetic on font-controlled offsets never overflows) / C02 (IFT client totality): retained_glyphs_total_size sums the
// data sizes of the glyph runs that a glyph-keyed patch keeps. The offsets come from the font's loca / CFF INDEX / gvar offset
// array and need not ascend: for ANY offsets and ANY sequence of kept ranges the function returns a size or an error - the
// per-run difference is checked, `end + 1` is checked, and the running sum cannot overflow (at most 2^32 runs of < 2^32 bytes;
// 64-bit usize assumed). The range iterator (IntSet::iter_excluded_ranges().filter_map(..)) is an opaque type: nothing is assumed
// about the ranges it yields except how many there can be. Extraction: the `for` loop is desugared mechanically.
use vstd::prelude::*;
use core::ops::RangeInclusive;
verus! {
//@prelude std_combinators
global layout usize is size == 8;
#[derive(Clone, Copy)]
pub struct GlyphId(pub u32);
impl GlyphId { pub fn to_u32(&self) -> (r: u32) ensures r == self.0 { self.0 } }
impl vstd::std_specs::convert::FromSpecImpl<u32> for GlyphId {
    open spec fn obeys_from_spec() -> bool { true }
    open spec fn from_spec(v: u32) -> GlyphId { GlyphId(v) }
}
impl From<u32> for GlyphId { fn from(v: u32) -> GlyphId { GlyphId(v) } }
pub assume_specification<Idx>[ RangeInclusive::<Idx>::start ](r: &RangeInclusive<Idx>) -> (s: &Idx) ensures *s == r@.start;
pub assume_specification<Idx>[ RangeInclusive::<Idx>::end ](r: &RangeInclusive<Idx>) -> (s: &Idx) ensures *s == r@.end;
#[verifier::external_body] #[verifier::accept_recursive_types(T)] pub struct IntSet<T> { _p: core::marker::PhantomData<T> }
pub enum ReadError { MalformedData(&'static str), OutOfBounds }
pub enum PatchingError { FontParsingFailed(ReadError), InternalError }
pub trait GlyphDataOffsetArray {
    // ASSUMED: nothing about the value (offsets are font data)
    fn offset_for(&self, gid: GlyphId) -> Result<u32, PatchingError>;
}
#[verifier::external_body] pub struct KeepRanges { _p: u8 }
impl KeepRanges {
    // ghost: how many ranges are still to come; disjoint ranges of u32 glyph ids number at most 2^32
    pub uninterp spec fn remaining(&self) -> nat;
    #[verifier::external_body]
    pub fn next(&mut self) -> (r: Option<RangeInclusive<GlyphId>>)
        ensures r is Some ==> old(self).remaining() > 0 && final(self).remaining() == old(self).remaining() - 1,
            r is None ==> final(self).remaining() == old(self).remaining(),
    { unimplemented!() }
}
#[verifier::external_body]
fn retained_glyphs_in_font(replace_gids: &IntSet<GlyphId>, max_glyph_id: GlyphId) -> (r: KeepRanges)
    ensures r.remaining() <= 0x1_0000_0000
{ unimplemented!() }

//@extract source=gk fn=retained_glyphs_total_size ret=r
//@desugarfor nth=0 name=verif_it raw
//@at before "let mut verif_it ="
    let ghost n0 = 0nat;
//@at after "let mut verif_it = retained_glyphs_in_font(gids, max_glyph_id);"
    let ghost n0 = verif_it.remaining();
//@at loop "let mut verif_it ="
        invariant
            n0 <= 0x1_0000_0000, verif_it.remaining() <= n0,
            total_size as int <= (n0 - verif_it.remaining()) * 0xFFFF_FFFF,
        decreases verif_it.remaining()
//@at after "else { break; };"
        proof {
            assert((n0 - verif_it.remaining()) * 0xFFFF_FFFF <= 0x1_0000_0000 * 0xFFFF_FFFF) by(nonlinear_arith)
                requires 0 <= n0 - verif_it.remaining() <= 0x1_0000_0000;
            assert((n0 - verif_it.remaining() - 1) * 0xFFFF_FFFF + 0xFFFF_FFFF == (n0 - verif_it.remaining()) * 0xFFFF_FFFF) by(nonlinear_arith);
        }
//@end
}
fn main() {}
