//@unit U06.6 props=C06 tier=quick
//@source name=fb kind=file path=write-fonts/src/font_builder.rs
// C06: "copying missing tables from an existing font never overrides a table already supplied" - FontBuilder::
// {add_raw, copy_missing_tables, contains} on the real text, for every builder state and every source font (unbounded
// number of tables). BTreeMap<Tag, Cow<[u8]>> is an opaque type with a Map view (insert/contains_key/get carry the std
// contracts: assumed); FontRef/TableDirectory/TableRecord accessors are uninterpreted (their no-panic side is C01).
// Extraction drops: the `log::warn!` statement in the else branch (logging only).
use vstd::prelude::*;
verus! {
//@prelude std_combinators
// std combinators without a vstd specification in this build (trusted, standard semantics); present so that edits of
// the extracted functions that use them stay decidable
#[verifier::external_body] #[derive(Clone, Copy)] pub struct Tag { _p: u8 }
#[verifier::external_body] #[verifier::accept_recursive_types(K)] #[verifier::accept_recursive_types(V)] pub struct BTreeMap<K, V> { _p: core::marker::PhantomData<(K, V)> }
#[verifier::external_body] #[verifier::accept_recursive_types(T)] pub struct Cow<'a, T: ?Sized> { _p: core::marker::PhantomData<&'a T> }
#[verifier::external_body] #[derive(Clone, Copy)] pub struct FontData<'a> { _p: core::marker::PhantomData<&'a u8> }
#[verifier::external_body] pub struct TableRecord { _p: u8 }
#[verifier::external_body] pub struct TableDirectory<'a> { _p: core::marker::PhantomData<&'a u8> }

impl<K, V> BTreeMap<K, V> {
    pub uninterp spec fn view(&self) -> Map<K, V>;
    #[verifier::external_body]
    pub fn insert(&mut self, key: K, value: V) -> (r: Option<V>)
        ensures final(self)@ == old(self)@.insert(key, value)
    { unimplemented!() }
    #[verifier::external_body]
    pub fn get(&self, key: &K) -> (r: Option<&V>)
        ensures r is Some == self@.dom().contains(*key), r is Some ==> *r->Some_0 == self@[*key]
    { unimplemented!() }
    #[verifier::external_body]
    pub fn contains_key(&self, key: &K) -> (r: bool)
        ensures r == self@.dom().contains(*key)
    { unimplemented!() }
}
impl<'a> Cow<'a, [u8]> {
    pub uninterp spec fn bytes(&self) -> Seq<u8>;
    #[verifier::external_body]
    pub fn len(&self) -> (r: usize) ensures r == self.bytes().len() { unimplemented!() }
    #[verifier::external_body]
    pub fn is_empty(&self) -> (r: bool) ensures r == (self.bytes().len() == 0) { unimplemented!() }
}
impl TableRecord {
    pub uninterp spec fn tag_spec(&self) -> Tag;
    #[verifier::external_body]
    pub fn tag(&self) -> (r: Tag) ensures r == self.tag_spec() { unimplemented!() }
}
impl<'a> TableDirectory<'a> {
    pub uninterp spec fn records(&self) -> Seq<TableRecord>;
    #[verifier::external_body]
    pub fn table_records(&self) -> (r: &'a [TableRecord]) ensures r@ == self.records() { unimplemented!() }
}
pub struct FontRef<'a> {
    pub data: FontData<'a>,
    pub table_directory: TableDirectory<'a>,
}
impl<'a> FontRef<'a> {
    pub uninterp spec fn data_for_tag_spec(&self, tag: Tag) -> Option<FontData<'a>>;
    #[verifier::external_body]
    pub fn data_for_tag(&self, tag: Tag) -> (r: Option<FontData<'a>>) ensures r == self.data_for_tag_spec(tag) { unimplemented!() }
}
pub uninterp spec fn cow_of<'a>(d: FontData<'a>) -> Cow<'a, [u8]>;
impl<'a> From<FontData<'a>> for Cow<'a, [u8]> {
    #[verifier::external_body]
    fn from(d: FontData<'a>) -> (r: Cow<'a, [u8]>) { unimplemented!() }
}

//@require source=fb seq="pub struct FontBuilder<'a> { tables: BTreeMap<Tag, Cow<'a, [u8]>>, }"
pub struct FontBuilder<'a> {
    tables: BTreeMap<Tag, Cow<'a, [u8]>>,
}

impl<'a> FontBuilder<'a> {
//@extract source=fb container="impl<'a> FontBuilder<'a>" fn=add_raw ret=r
//@spec
        ensures (*r).tables@.dom() == old(self).tables@.dom().insert(tag),
            forall|t: Tag| t != tag && #[trigger] old(self).tables@.dom().contains(t) ==> (*r).tables@[t] == old(self).tables@[t],
            *final(r) == *final(self),
//@end

//@extract source=fb container="impl<'a> FontBuilder<'a>" fn=copy_missing_tables ret=r
//@rewrite "log::warn!(\"data for '{tag}' is malformed\");" => ""
//@spec
        ensures
            *final(r) == *final(self),
            // never overrides (or drops) a table already supplied
            forall|t: Tag| #[trigger] old(self).tables@.dom().contains(t) ==> (*r).tables@.dom().contains(t) && (*r).tables@[t] == old(self).tables@[t],
            // adds nothing but tables of the source font that have data
            forall|t: Tag| (*r).tables@.dom().contains(t) && !old(self).tables@.dom().contains(t) ==>
                font.data_for_tag_spec(t) is Some && exists|i: int| 0 <= i < font.table_directory.records().len() && font.table_directory.records()[i].tag_spec() == t,
            // every table of the source font that has data is present afterwards
            forall|i: int| 0 <= i < font.table_directory.records().len() && font.data_for_tag_spec(font.table_directory.records()[i].tag_spec()) is Some
                ==> (*r).tables@.dom().contains(#[trigger] font.table_directory.records()[i].tag_spec()),
//@at body-start
        let ghost recs = font.table_directory.records();
//@at after "for record in"
it:
//@at loop "for record in"
            invariant
                it.seq().len() == recs.len(), forall|j: int| 0 <= j < recs.len() ==> *(#[trigger] it.seq()[j]) == recs[j],
                recs == font.table_directory.records(),
                forall|t: Tag| #[trigger] old(self).tables@.dom().contains(t) ==> self.tables@.dom().contains(t) && self.tables@[t] == old(self).tables@[t],
                forall|t: Tag| self.tables@.dom().contains(t) && !old(self).tables@.dom().contains(t) ==>
                    font.data_for_tag_spec(t) is Some && exists|i: int| 0 <= i < recs.len() && recs[i].tag_spec() == t,
                forall|i: int| 0 <= i < it.index@ && font.data_for_tag_spec(recs[i].tag_spec()) is Some
                    ==> self.tables@.dom().contains(#[trigger] recs[i].tag_spec()),
//@end

//@extract source=fb container="impl<'a> FontBuilder<'a>" fn=contains ret=r
//@spec
        ensures r == self.tables@.dom().contains(tag)
//@end
}
}
fn main() {}
