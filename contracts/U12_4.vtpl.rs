//@unit U12.4 props=C12,C02 tier=quick
//@source name=path kind=file path=skrifa/src/outline/path.rs
// C12 ("drawing is well-formed"): the TrueType outline-to-path conversion. For EVERY outline (any points, flags, contour end points,
// both path styles, any coordinate type) to_path, contour_to_path and the PendingState machine drive the pen in the grammar
//     ( move_to ( line_to | quad_to | curve_to )* close )*
// - a segment or a close is never emitted outside a sub-path, a move_to never inside one - and when the function returns Ok the
// sub-path it opened has been closed (the pen is back outside); to_path's loop over contours therefore starts every contour outside,
// never indexes outside the point / flag / contour arrays whatever the contour end points say, and its error-index arithmetic
// (index within the contour + contour start) cannot overflow because an error names a point of the contour.
// The pen is abstract: a trait whose methods carry the grammar as preconditions over a ghost `open` flag. The point iterator is an
// opaque type (enumerate().peekable() replaced by a stub; nothing is assumed about what next/peek return), so the statement
// holds for every input, including ones the glyph loader would never produce. Termination is not claimed (it is the iterator's).
// Extraction: the two `for` loops are desugared mechanically; `impl Iterator<Item = ContourPoint<C>>` / `.enumerate().peekable()`
// / `trailing_points.iter().filter_map(|x| *x)` are replaced by stub iterator types; `finish(mut self, ..)` becomes
// `finish(self, ..) { let mut this = self; .. }` (Verus has no by-value `mut self`) - documented rewrites.
use vstd::prelude::*;
verus! {
//@prelude std_combinators
#[verifier::external_body] #[derive(Clone, Copy)] pub struct PointFlags { _p: u8 }
impl PointFlags {
    #[verifier::external_body] pub const fn on_curve() -> Self { unimplemented!() }
    #[verifier::external_body] pub const fn is_on_curve(self) -> bool { unimplemented!() }
    #[verifier::external_body] pub const fn is_off_curve_quad(self) -> bool { unimplemented!() }
    #[verifier::external_body] pub const fn is_off_curve_cubic(self) -> bool { unimplemented!() }
}
#[verifier::external_body] #[derive(Clone, Copy)] pub struct F32Point { _p: u8 }
pub struct Point<T> { pub x: T, pub y: T }
impl<T> Point<T> { pub fn new(x: T, y: T) -> Self { Point { x, y } } }
pub trait PointCoord: Copy {
    fn to_f32(self) -> f32;
    fn midpoint(self, other: Self) -> Self;
}
//@require source=path seq="pub enum ToPathError { ContourOrder(usize), ExpectedQuad(usize), ExpectedQuadOrOnCurve(usize), ExpectedCubic(usize), PointFlagMismatch { num_points: usize, num_flags: usize }, }"
pub enum ToPathError {
    ContourOrder(usize),
    ExpectedQuad(usize),
    ExpectedQuadOrOnCurve(usize),
    ExpectedCubic(usize),
    PointFlagMismatch { num_points: usize, num_flags: usize },
}
#[derive(Clone, Copy)]
pub enum PathStyle { FreeType, HarfBuzz }
// the pen: the path grammar as a protocol
pub trait OutlinePen {
    spec fn open(&self) -> bool;
    fn move_to(&mut self, x: f32, y: f32) requires !old(self).open() ensures final(self).open();
    fn line_to(&mut self, x: f32, y: f32) requires old(self).open() ensures final(self).open();
    fn quad_to(&mut self, cx0: f32, cy0: f32, x: f32, y: f32) requires old(self).open() ensures final(self).open();
    fn curve_to(&mut self, cx0: f32, cy0: f32, cx1: f32, cy1: f32, x: f32, y: f32) requires old(self).open() ensures final(self).open();
    fn close(&mut self) requires old(self).open() ensures !final(self).open();
}
//@require source=path seq="pub(crate) struct ContourPoint<T> { pub x: T, pub y: T, pub flags: PointFlags, }"
#[derive(Clone, Copy)]
pub struct ContourPoint<T> {
    pub x: T,
    pub y: T,
    pub flags: PointFlags,
}
impl<T: PointCoord> ContourPoint<T> {
//@extract source=path container="impl<T> ContourPoint<T>" fn=point_f32
//@end
//@extract source=path container="impl<T> ContourPoint<T>" fn=midpoint
//@end
}
// stub iterators (ASSUMED: nothing)
// stub iterators. ASSUMED: enumerate() numbers the items of an iterator over n items 0..n (n = `count`, a ghost); nothing about the items
#[verifier::external_body] #[verifier::accept_recursive_types(C)] pub struct PointIter<C> { _p: core::marker::PhantomData<C> }
impl<C> PointIter<C> { pub uninterp spec fn count(&self) -> nat; }
#[verifier::external_body] #[verifier::accept_recursive_types(C)] pub struct PeekIter<C> { _p: core::marker::PhantomData<C> }
impl<C: PointCoord> PeekIter<C> {
    pub uninterp spec fn count(&self) -> nat;
    #[verifier::external_body] pub fn next(&mut self) -> (r: Option<(usize, ContourPoint<C>)>)
        ensures final(self).count() == old(self).count(), r is Some ==> r->Some_0.0 < old(self).count() { unimplemented!() }
    #[verifier::external_body] pub fn peek(&mut self) -> (r: Option<&(usize, ContourPoint<C>)>)
        ensures final(self).count() == old(self).count(), r is Some ==> r->Some_0.0 < old(self).count() { unimplemented!() }
}
#[verifier::external_body]
fn peekable_enumerate_stub<C: PointCoord>(points: PointIter<C>) -> (r: PeekIter<C>) ensures r.count() == points.count() { unimplemented!() }
// the (index, point) pairs stored in trailing_points, in order
#[verifier::external_body]
fn trailing_stub<C: PointCoord>(t: &[Option<(usize, ContourPoint<C>)>; 2]) -> (r: PeekIter<C>) ensures r.count() == 2 { unimplemented!() }
pub open spec fn err_ix(e: ToPathError) -> int {
    match e { ToPathError::ExpectedQuad(i) => i as int, ToPathError::ExpectedQuadOrOnCurve(i) => i as int, ToPathError::ExpectedCubic(i) => i as int, _ => 0 }
}

// stands for `points.iter().zip(flags).map(|(point, flags)| ContourPoint { .. })` (ASSUMED: as many items as there are points)
#[verifier::external_body]
fn zip_points_stub<C: PointCoord>(points: &[Point<C>], flags: &[PointFlags]) -> (r: PointIter<C>) ensures r.count() == points@.len() { unimplemented!() }
//@require source=path seq="enum PendingState<C> { #[default] Empty, PendingQuad(ContourPoint<C>), PendingCubic(ContourPoint<C>), TwoPendingCubics(ContourPoint<C>, ContourPoint<C>), }"
#[derive(Clone, Copy)]
pub enum PendingState<C> {
    Empty,
    PendingQuad(ContourPoint<C>),
    PendingCubic(ContourPoint<C>),
    TwoPendingCubics(ContourPoint<C>, ContourPoint<C>),
}
impl<C: PointCoord> PendingState<C> {
    pub fn default() -> Self { PendingState::Empty }
//@extract source=path container="impl<C> PendingState<C>" fn=emit ret=res
//@spec
        requires old(pen).open()
        ensures final(pen).open(), res is Err ==> err_ix(res->Err_0) == ix
//@end
//@extract source=path container="impl<C> PendingState<C>" fn=finish ret=res
//@rewrite "mut self," => "self,"
//@rewrite "match self {" => "let mut this = self; match this {"
//@rewrite "self.emit(start_ix, start_point, pen)?;" => "this.emit(start_ix, start_point, pen)?;"
//@spec
        requires old(pen).open()
        ensures res is Ok ==> !final(pen).open(), res is Err ==> err_ix(res->Err_0) == start_ix
//@end
}

#[verifier::exec_allows_no_decreases_clause]
//@extract source=path fn=contour_to_path ret=res
//@rewrite "points: impl Iterator<Item = ContourPoint<C>>," => "points_in: PointIter<C>,"
//@rewrite "points.enumerate().peekable()" => "peekable_enumerate_stub(points_in)"
//@rewrite "trailing_points.iter().filter_map(|x| *x)" => "trailing_stub(&trailing_points)"
//@desugarfor nth=1 name=verif_trail raw
//@desugarfor nth=0 name=verif_rest raw
//@spec
    requires !old(pen).open()
    ensures res is Ok ==> !final(pen).open(),
        // an error names a point of this contour (or position 0 / 1 of the two deferred start points)
        res is Err ==> err_ix(res->Err_0) < points_in.count() || err_ix(res->Err_0) <= 1
//@at loop "while let Some((ix, point)) = points.next()"
            invariant pen.open(), points.count() == points_in.count()
//@at loop "let mut verif_rest ="
            invariant pen.open(), verif_rest.count() == points_in.count()
//@at loop "let mut verif_trail ="
        invariant pen.open(), verif_trail.count() == 2
//@end

#[verifier::exec_allows_no_decreases_clause]
//@extract source=path fn=to_path ret=res
//@rewrite "points.iter().zip(flags).map(|(point, flags)| ContourPoint { x: point.x, y: point.y, flags: *flags, })" => "zip_points_stub(points, flags)"
//@desugarfor nth=0 name=verif_c raw
//@spec
    requires !old(pen).open()
    ensures res is Ok ==> !final(pen).open()
//@closure nth=0
-> (o: usize) requires contour_ix > 0, contour_ix - 1 < contours@.len() ensures o == contours@[contour_ix - 1] as usize + 1
//@closure nth=1
-> (o: ToPathError) requires err_ix(e) + start_ix <= usize::MAX
//@at loop "let mut verif_c ="
        invariant !pen.open(), verif_c.end == contours@.len()
//@end
}
fn main() {}
