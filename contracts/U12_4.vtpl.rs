//@unit U12.4 props=C12,C02 tier=quick
//@source name=path kind=file path=skrifa/src/outline/path.rs
// C12 ("drawing is well-formed"): the TrueType contour-to-path conversion. For EVERY point sequence (any flags, any length,
// both path styles, any coordinate type) contour_to_path and the PendingState machine drive the pen in the grammar
//     ( move_to ( line_to | quad_to | curve_to )* close )?
// - a segment or a close is never emitted outside a sub-path, a move_to never inside one - and when the function returns Ok the
// sub-path it opened has been closed (the pen is back outside), so to_path's loop over contours starts every contour outside.
// The pen is abstract: a trait whose methods carry the grammar as preconditions over a ghost `open` flag. The point iterator is an
// opaque type (enumerate().peekable() replaced by a stub; nothing is assumed about what next/peek return), so the statement
// holds for every input, including ones the glyph loader would never produce. Termination is not claimed (it is the iterator's).
// Extraction: the two `for` loops are desugared mechanically; `impl Iterator<Item = ContourPoint<C>>` / `.enumerate().peekable()`
// / `trailing_points.iter().filter_map(|x| *x)` are replaced by stub iterator types; `finish(mut self, ..)` becomes
// `finish(self, ..) { let mut this = self; .. }` (Verus has no by-value `mut self`) - documented rewrites.
use vstd::prelude::*;
verus! {
//@prelude std_combinators
#[verifier::external_body] #[derive(Clone, Copy)] pub struct PointFlags { _p: u8 }
impl PointFlags {
    #[verifier::external_body] pub const fn on_curve() -> Self { unimplemented!() }
    #[verifier::external_body] pub const fn is_on_curve(self) -> bool { unimplemented!() }
    #[verifier::external_body] pub const fn is_off_curve_quad(self) -> bool { unimplemented!() }
    #[verifier::external_body] pub const fn is_off_curve_cubic(self) -> bool { unimplemented!() }
}
#[verifier::external_body] #[derive(Clone, Copy)] pub struct F32Point { _p: u8 }
pub struct Point<T> { pub x: T, pub y: T }
impl<T> Point<T> { pub fn new(x: T, y: T) -> Self { Point { x, y } } }
pub trait PointCoord: Copy {
    fn to_f32(self) -> f32;
    fn midpoint(self, other: Self) -> Self;
}
//@require source=path seq="pub enum ToPathError { ContourOrder(usize), ExpectedQuad(usize), ExpectedQuadOrOnCurve(usize), ExpectedCubic(usize), PointFlagMismatch { num_points: usize, num_flags: usize }, }"
pub enum ToPathError {
    ContourOrder(usize),
    ExpectedQuad(usize),
    ExpectedQuadOrOnCurve(usize),
    ExpectedCubic(usize),
    PointFlagMismatch { num_points: usize, num_flags: usize },
}
#[derive(Clone, Copy)]
pub enum PathStyle { FreeType, HarfBuzz }
// the pen: the path grammar as a protocol
pub trait OutlinePen {
    spec fn open(&self) -> bool;
    fn move_to(&mut self, x: f32, y: f32) requires !old(self).open() ensures final(self).open();
    fn line_to(&mut self, x: f32, y: f32) requires old(self).open() ensures final(self).open();
    fn quad_to(&mut self, cx0: f32, cy0: f32, x: f32, y: f32) requires old(self).open() ensures final(self).open();
    fn curve_to(&mut self, cx0: f32, cy0: f32, cx1: f32, cy1: f32, x: f32, y: f32) requires old(self).open() ensures final(self).open();
    fn close(&mut self) requires old(self).open() ensures !final(self).open();
}
//@require source=path seq="pub(crate) struct ContourPoint<T> { pub x: T, pub y: T, pub flags: PointFlags, }"
#[derive(Clone, Copy)]
pub struct ContourPoint<T> {
    pub x: T,
    pub y: T,
    pub flags: PointFlags,
}
impl<T: PointCoord> ContourPoint<T> {
//@extract source=path container="impl<T> ContourPoint<T>" fn=point_f32
//@end
//@extract source=path container="impl<T> ContourPoint<T>" fn=midpoint
//@end
}
// stub iterators (ASSUMED: nothing)
#[verifier::external_body] #[verifier::accept_recursive_types(C)] pub struct PointIter<C> { _p: core::marker::PhantomData<C> }
#[verifier::external_body] #[verifier::accept_recursive_types(C)] pub struct PeekIter<C> { _p: core::marker::PhantomData<C> }
impl<C: PointCoord> PeekIter<C> {
    #[verifier::external_body] pub fn next(&mut self) -> Option<(usize, ContourPoint<C>)> { unimplemented!() }
    #[verifier::external_body] pub fn peek(&mut self) -> Option<&(usize, ContourPoint<C>)> { unimplemented!() }
}
#[verifier::external_body]
fn peekable_enumerate_stub<C: PointCoord>(points: PointIter<C>) -> PeekIter<C> { unimplemented!() }
#[verifier::external_body]
fn trailing_stub<C: PointCoord>(t: &[Option<(usize, ContourPoint<C>)>; 2]) -> PeekIter<C> { unimplemented!() }

//@require source=path seq="enum PendingState<C> { #[default] Empty, PendingQuad(ContourPoint<C>), PendingCubic(ContourPoint<C>), TwoPendingCubics(ContourPoint<C>, ContourPoint<C>), }"
#[derive(Clone, Copy)]
pub enum PendingState<C> {
    Empty,
    PendingQuad(ContourPoint<C>),
    PendingCubic(ContourPoint<C>),
    TwoPendingCubics(ContourPoint<C>, ContourPoint<C>),
}
impl<C: PointCoord> PendingState<C> {
    pub fn default() -> Self { PendingState::Empty }
//@extract source=path container="impl<C> PendingState<C>" fn=emit ret=res
//@spec
        requires old(pen).open()
        ensures final(pen).open()
//@end
//@extract source=path container="impl<C> PendingState<C>" fn=finish ret=res
//@rewrite "mut self," => "self,"
//@rewrite "match self {" => "let mut this = self; match this {"
//@rewrite "self.emit(start_ix, start_point, pen)?;" => "this.emit(start_ix, start_point, pen)?;"
//@spec
        requires old(pen).open()
        ensures res is Ok ==> !final(pen).open()
//@end
}

#[verifier::exec_allows_no_decreases_clause]
//@extract source=path fn=contour_to_path ret=res
//@rewrite "points: impl Iterator<Item = ContourPoint<C>>," => "points: PointIter<C>,"
//@rewrite "points.enumerate().peekable()" => "peekable_enumerate_stub(points)"
//@rewrite "trailing_points.iter().filter_map(|x| *x)" => "trailing_stub(&trailing_points)"
//@desugarfor nth=1 name=verif_trail raw
//@desugarfor nth=0 name=verif_rest raw
//@spec
    requires !old(pen).open()
    ensures res is Ok ==> !final(pen).open()
//@at loop "while let Some((ix, point)) = points.next()"
            invariant pen.open()
//@at loop "let mut verif_rest ="
            invariant pen.open()
//@at loop "let mut verif_trail ="
        invariant pen.open()
//@end
}
fn main() {}
