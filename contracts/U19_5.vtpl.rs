//@unit U19.5 props=C19 tier=quick
//@source name=pm kind=file path=incremental-font-transfer/src/patchmap.rs
// C19: Entry::intersects (the per-entry "check entry intersection" test of the IFT specification) equals the set-theoretic
// definition: each component of the entry's subset definition (code points, feature tags, design space) is either empty
// or shares a point with the same component of the requested definition, `All` denoting the full set. This instantiates
// the abstract predicate `own_intersects` of unit U19.1. Lemmas: the test is monotone in the requested definition and
// implied for the all-inclusive definition (so the offered set only grows with the definition).
// Containers (IntSet, BTreeSet, HashMap, RangeSet) are opaque types here whose operations carry set-view contracts
// (assumed; IntSet::is_empty is proved in U14.3). Entry::design_space_intersects is proved with its `for` loop desugared mechanically (//@desugarfor) over an ASSUMED model of
// HashMap iteration (every entry visited, some order) and of RangeSet::intersection (non-empty iff the sets share a point).
use vstd::prelude::*;
verus! {
//@prelude std_combinators

#[verifier::external_body] #[verifier::accept_recursive_types(T)] pub struct IntSet<T> { _p: core::marker::PhantomData<T> }
#[verifier::external_body] #[verifier::accept_recursive_types(T)] pub struct BTreeSet<T> { _p: core::marker::PhantomData<T> }
#[verifier::external_body] #[verifier::accept_recursive_types(K)] #[verifier::accept_recursive_types(V)] pub struct HashMap<K, V> { _p: core::marker::PhantomData<(K, V)> }
#[verifier::external_body] #[verifier::accept_recursive_types(T)] pub struct RangeSet<T> { _p: core::marker::PhantomData<T> }
#[verifier::external_body] #[verifier::accept_recursive_types(T)] pub struct Intersection<'a, T> { _p: core::marker::PhantomData<&'a T> }
#[verifier::external_body] #[derive(Clone, Copy)] pub struct Tag { _p: u8 }
#[verifier::external_body] pub struct Fixed { _p: u8 }
#[verifier::external_body] pub struct PatchUri { _p: u8 }

impl IntSet<u32> {
    pub uninterp spec fn mem(&self, x: u32) -> bool;
    // proved in unit U14.3 (IntSet::intersect for all four mode combinations)
    #[verifier::external_body]
    pub fn intersect(&mut self, other: &IntSet<u32>) ensures forall|x: u32| #![trigger final(self).mem(x)] final(self).mem(x) == (old(self).mem(x) && other.mem(x)) { unimplemented!() }
    // ASSUMED: nothing (which representation a set happens to use carries no meaning)
    #[verifier::external_body]
    pub fn is_inverted(&self) -> (r: bool) { unimplemented!() }
    #[verifier::external_body]
    pub fn is_empty(&self) -> (r: bool) ensures r == (forall|x: u32| !self.mem(x)) { unimplemented!() }
    #[verifier::external_body]
    pub fn intersects_set(&self, other: &IntSet<u32>) -> (r: bool) ensures r == (exists|x: u32| self.mem(x) && other.mem(x)) { unimplemented!() }
}
impl<T> Clone for BTreeSet<T> {
    #[verifier::external_body]
    fn clone(&self) -> (r: Self) ensures r@ == self@ { unimplemented!() }
}
// stands for `a.intersection(b).copied().collect()` (ASSUMED: collects exactly the common elements)
#[verifier::external_body]
pub fn collect_intersection(a: &BTreeSet<Tag>, b: &BTreeSet<Tag>) -> (r: BTreeSet<Tag>) ensures r@ == a@.intersect(b@) { unimplemented!() }
impl<T> BTreeSet<T> {
    pub uninterp spec fn view(&self) -> Set<T>;
    #[verifier::external_body]
    pub fn len(&self) -> (r: usize) ensures r == self@.len(), (r == 0) == (forall|t: T| !self@.contains(t)) { unimplemented!() }
    #[verifier::external_body]
    pub fn is_empty(&self) -> (r: bool) ensures r == (self@.len() == 0), r == (forall|t: T| !self@.contains(t)) { unimplemented!() }
    #[verifier::external_body]
    pub fn intersection<'a>(&'a self, other: &'a BTreeSet<T>) -> (r: Intersection<'a, T>) ensures r.rem() == self@.intersect(other@) { unimplemented!() }
}
impl<'a, T> Intersection<'a, T> {
    pub uninterp spec fn rem(&self) -> Set<T>;
    #[verifier::external_body]
    pub fn next(&mut self) -> (r: Option<&'a T>) ensures r.is_some() == (exists|t: T| old(self).rem().contains(t)) { unimplemented!() }
}
impl<K, V> HashMap<K, V> {
    pub uninterp spec fn view(&self) -> Map<K, V>;
    #[verifier::external_body]
    pub fn is_empty(&self) -> (r: bool) ensures r == (forall|k: K| !self@.dom().contains(k)) { unimplemented!() }
    #[verifier::external_body]
    pub fn get<'a>(&'a self, k: &K) -> (r: Option<&'a V>)
        ensures r is Some == self@.dom().contains(*k), r is Some ==> *r->Some_0 == self@[*k] { unimplemented!() }
    #[verifier::external_body]
    pub fn insert(&mut self, k: K, v: V) -> (r: Option<V>) ensures final(self)@ == old(self)@.insert(k, v) { unimplemented!() }
    // ASSUMED (std): iteration visits every (key, value) of the map, in some order
    #[verifier::external_body]
    pub fn iter<'a>(&'a self) -> (r: MapIter<'a, K, V>)
        ensures
            forall|i: int| 0 <= i < r.rem().len() ==> self@.dom().contains((#[trigger] r.rem()[i]).0) && self@[r.rem()[i].0] == r.rem()[i].1,
            forall|k: K| self@.dom().contains(k) ==> exists|i: int| 0 <= i < r.rem().len() && (#[trigger] r.rem()[i]).0 == k,
    { unimplemented!() }
}
impl<K, V> Default for HashMap<K, V> {
    #[verifier::external_body]
    fn default() -> (r: Self) ensures r@ == Map::<K, V>::empty() { unimplemented!() }
}
impl<K, V> Clone for HashMap<K, V> {
    #[verifier::external_body]
    fn clone(&self) -> (r: Self) ensures r@ == self@ { unimplemented!() }
}
#[verifier::external_body] #[verifier::accept_recursive_types(K)] #[verifier::accept_recursive_types(V)]
pub struct MapIter<'a, K, V> { _p: core::marker::PhantomData<&'a (K, V)> }
impl<'a, K, V> MapIter<'a, K, V> {
    pub uninterp spec fn rem(&self) -> Seq<(K, V)>;
    #[verifier::external_body]
    pub fn next(&mut self) -> (r: Option<(&'a K, &'a V)>)
        ensures match r {
            Some(kv) => old(self).rem().len() > 0 && *kv.0 == old(self).rem()[0].0 && *kv.1 == old(self).rem()[0].1
                && final(self).rem() == old(self).rem().skip(1),
            None => old(self).rem().len() == 0 && final(self).rem() == old(self).rem(),
        }
    { unimplemented!() }
}
#[verifier::external_body] #[verifier::accept_recursive_types(T)] pub struct RsIntersection<'a, T> { _p: core::marker::PhantomData<&'a T> }
impl<'a> RsIntersection<'a, Fixed> {
    pub uninterp spec fn nonempty(&self) -> bool;
    #[verifier::external_body]
    pub fn next(&mut self) -> (r: Option<core::ops::RangeInclusive<Fixed>>) ensures r.is_some() == old(self).nonempty() { unimplemented!() }
}
// stands for `a.intersection(b).collect::<RangeSet<Fixed>>()` (ASSUMED: the collected set has exactly the common points)
#[verifier::external_body]
pub fn collect_rs_intersection(a: &RangeSet<Fixed>, b: &RangeSet<Fixed>) -> (r: RangeSet<Fixed>)
    ensures forall|x: Fixed| r.mem(x) == (a.mem(x) && b.mem(x)) { unimplemented!() }
impl RangeSet<Fixed> {
    pub uninterp spec fn mem(&self, x: Fixed) -> bool;
    #[verifier::external_body]
    pub fn is_empty(&self) -> (r: bool) ensures r == (forall|x: Fixed| !self.mem(x)) { unimplemented!() }
    // ASSUMED (the intersection iterator; bounded Kani unit U14.5i): it yields a range iff the two sets share a point
    #[verifier::external_body]
    pub fn intersection<'a>(&'a self, other: &'a RangeSet<Fixed>) -> (r: RsIntersection<'a, Fixed>)
        ensures r.nonempty() == (exists|x: Fixed| self.mem(x) && other.mem(x)) { unimplemented!() }
}

//@require source=pm seq="pub enum FeatureSet { Set(BTreeSet<Tag>), All, }"
pub enum FeatureSet {
    Set(BTreeSet<Tag>),
    All,
}
//@require source=pm seq="pub enum DesignSpace { Ranges(HashMap<Tag, RangeSet<Fixed>>), All, }"
pub enum DesignSpace {
    Ranges(HashMap<Tag, RangeSet<Fixed>>),
    All,
}
//@require source=pm seq="pub struct SubsetDefinition { pub codepoints: IntSet<u32>, pub feature_tags: FeatureSet, pub design_space: DesignSpace, }"
pub struct SubsetDefinition {
    pub codepoints: IntSet<u32>,
    pub feature_tags: FeatureSet,
    pub design_space: DesignSpace,
}
impl Clone for SubsetDefinition {
    #[verifier::external_body]
    fn clone(&self) -> (r: Self) ensures r == *self { unimplemented!() }
}
//@require source=pm seq="struct Entry { subset_definition: SubsetDefinition, child_indices: Vec<usize>, conjunctive_child_match: bool, ignored: bool, uri: PatchUri, }"
pub struct Entry {
    subset_definition: SubsetDefinition,
    child_indices: Vec<usize>,
    conjunctive_child_match: bool,
    ignored: bool,
    uri: PatchUri,
}

// ---- specification: the IFT "check entry intersection" step, component by component. Every component of a subset
// definition denotes a set of points (code points; feature tags; (axis, coordinate) pairs), `All` being the full set.
// An entry component is satisfied iff it is empty or shares a point with the definition's component.
impl IntSet<u32> {
    pub open spec fn empty_spec(&self) -> bool { forall|x: u32| !self.mem(x) }
    pub open spec fn common(&self, o: &IntSet<u32>) -> bool { exists|x: u32| self.mem(x) && o.mem(x) }
}
impl FeatureSet {
    pub open spec fn has(&self, t: Tag) -> bool { match self { FeatureSet::All => true, FeatureSet::Set(s) => s@.contains(t) } }
    pub open spec fn empty_spec(&self) -> bool { forall|t: Tag| !self.has(t) }
    pub open spec fn common(&self, o: &FeatureSet) -> bool { exists|t: Tag| self.has(t) && o.has(t) }
}
impl DesignSpace {
    pub open spec fn has(&self, t: Tag, x: Fixed) -> bool {
        match self { DesignSpace::All => true, DesignSpace::Ranges(m) => m@.dom().contains(t) && m@[t].mem(x) }
    }
    pub open spec fn empty_spec(&self) -> bool { forall|t: Tag, x: Fixed| !self.has(t, x) }
    pub open spec fn common(&self, o: &DesignSpace) -> bool { exists|t: Tag, x: Fixed| self.has(t, x) && o.has(t, x) }
    // representation invariant (what decode_format2_entry / the public constructors produce): no axis maps to an empty range set
    pub open spec fn wf(&self) -> bool {
        match self { DesignSpace::All => true, DesignSpace::Ranges(m) => forall|t: Tag| m@.dom().contains(t) ==> exists|x: Fixed| (#[trigger] m@[t]).mem(x) }
    }
}
pub open spec fn spec_entry_intersects(e: &SubsetDefinition, d: &SubsetDefinition) -> bool {
    &&& (e.codepoints.empty_spec() || e.codepoints.common(&d.codepoints))
    &&& (e.feature_tags.empty_spec() || e.feature_tags.common(&d.feature_tags))
    &&& (e.design_space.empty_spec() || e.design_space.common(&d.design_space))
}


pub proof fn lemma_feature_cases(e: &FeatureSet, d: &FeatureSet)
    ensures
        e is All ==> !e.empty_spec() && (e.common(d) == !d.empty_spec()),
        d is All ==> (e.empty_spec() || e.common(d)),
        (e is Set && d is Set) ==> (e.empty_spec() == (forall|t: Tag| !e->Set_0@.contains(t)))
            && (e.common(d) == (exists|t: Tag| e->Set_0@.intersect(d->Set_0@).contains(t))),
{
    let w: Tag = arbitrary();
    if e is All {
        assert(e.has(w));
        if !d.empty_spec() { let t = choose|t: Tag| d.has(t); assert(e.has(t) && d.has(t)); }
    }
    if d is All {
        if !e.empty_spec() { let t = choose|t: Tag| e.has(t); assert(e.has(t) && d.has(t)); }
    }
    if e is Set && d is Set {
        let s = e->Set_0@; let o = d->Set_0@;
        if e.common(d) { let t = choose|t: Tag| e.has(t) && d.has(t); assert(s.intersect(o).contains(t)); }
        if exists|t: Tag| s.intersect(o).contains(t) { let t = choose|t: Tag| s.intersect(o).contains(t); assert(e.has(t) && d.has(t)); }
        if e.empty_spec() { assert forall|t: Tag| !s.contains(t) by { assert(!e.has(t)); } }
    }
}
pub proof fn lemma_ds_cases(e: &DesignSpace, d: &DesignSpace)
    requires e.wf(), d.wf()
    ensures
        e is All ==> !e.empty_spec() && (e.common(d) == !d.empty_spec()),
        d is All ==> (e.empty_spec() || e.common(d)),
        e is Ranges ==> (e.empty_spec() == (forall|t: Tag| !e->Ranges_0@.dom().contains(t))),
        (e is Ranges && d is Ranges) ==> (e.common(d) == (exists|t: Tag, x: Fixed| e->Ranges_0@.dom().contains(t) && d->Ranges_0@.dom().contains(t)
                && e->Ranges_0@[t].mem(x) && d->Ranges_0@[t].mem(x))),
{
    let wt: Tag = arbitrary(); let wx: Fixed = arbitrary();
    if e is All {
        assert(e.has(wt, wx));
        if !d.empty_spec() { let (t, x) = choose|t: Tag, x: Fixed| d.has(t, x); assert(e.has(t, x) && d.has(t, x)); }
    }
    if d is All {
        if !e.empty_spec() { let (t, x) = choose|t: Tag, x: Fixed| e.has(t, x); assert(e.has(t, x) && d.has(t, x)); }
    }
    if e is Ranges {
        let m = e->Ranges_0@;
        if e.empty_spec() {
            assert forall|t: Tag| !m.dom().contains(t) by {
                if m.dom().contains(t) { let x = choose|x: Fixed| m[t].mem(x); assert(e.has(t, x)); }
            }
        }
    }
    if e is Ranges && d is Ranges {
        let m = e->Ranges_0@; let n = d->Ranges_0@;
        if e.common(d) { let (t, x) = choose|t: Tag, x: Fixed| e.has(t, x) && d.has(t, x);
            assert(m.dom().contains(t) && n.dom().contains(t) && m[t].mem(x) && n[t].mem(x)); }
        if exists|t: Tag, x: Fixed| m.dom().contains(t) && n.dom().contains(t) && m[t].mem(x) && n[t].mem(x) {
            let (t, x) = choose|t: Tag, x: Fixed| m.dom().contains(t) && n.dom().contains(t) && m[t].mem(x) && n[t].mem(x);
            assert(e.has(t, x) && d.has(t, x)); }
    }
}

impl FeatureSet {
//@extract source=pm container="impl FeatureSet" fn=len ret=r
//@spec
        ensures (r > 0) == !self.empty_spec()
//@at body-start
        proof { lemma_feature_cases(self, self); }
//@end
}
impl DesignSpace {
//@extract source=pm container="impl DesignSpace" fn=is_empty ret=r
//@spec
        requires self.wf()
        ensures r == self.empty_spec()
//@at body-start
        proof { lemma_ds_cases(self, self); }
//@end
}

impl SubsetDefinition {
//@extract source=pm container="impl SubsetDefinition" fn=design_space_intersection ret=r
//@rewrite "in other_ranges {" => "in other_ranges.iter() {"
//@rewrite "input_segments.intersection(entry_segments).collect()" => "collect_rs_intersection(input_segments, entry_segments)"
//@desugarfor nth=0 name=verif_it raw
//@spec
        ensures forall|t: Tag, x: Fixed| r.has(t, x) == (self.design_space.has(t, x) && other_design_space.has(t, x))
//@at before "let mut verif_it ="
                let ghost mut n: int = 0;
//@at after "let mut verif_it = other_ranges.iter();"
                let ghost all = verif_it.rem();
//@at loop "let mut verif_it ="
                    invariant
                        0 <= n <= all.len(), verif_it.rem() == all.skip(n),
                        forall|i: int| 0 <= i < all.len() ==> other_ranges@.dom().contains((#[trigger] all[i]).0) && other_ranges@[all[i].0] == all[i].1,
                        forall|k: Tag| other_ranges@.dom().contains(k) ==> exists|i: int| 0 <= i < all.len() && (#[trigger] all[i]).0 == k,
                        // result holds, for the keys seen so far, exactly the non-empty pointwise intersections
                        forall|t: Tag, x: Fixed| (result@.dom().contains(t) && #[trigger] result@[t].mem(x)) ==>
                            self_ranges@.dom().contains(t) && other_ranges@.dom().contains(t) && self_ranges@[t].mem(x) && other_ranges@[t].mem(x),
                        forall|j: int, x: Fixed| 0 <= j < n && self_ranges@.dom().contains((#[trigger] all[j]).0)
                            && self_ranges@[all[j].0].mem(x) && #[trigger] all[j].1.mem(x) ==> result@.dom().contains(all[j].0) && result@[all[j].0].mem(x),
                    ensures n == all.len()
                    decreases all.len() - n
//@at after "else { break; };"
                    proof {
                        assert(all.skip(n)[0] == all[n]);
                        assert(all.skip(n).skip(1) == all.skip(n + 1));
                        n = n + 1;
                    }
//@at loop-after "let mut verif_it ="
                proof {
                    assert forall|t: Tag, x: Fixed| (result@.dom().contains(t) && result@[t].mem(x))
                        == (self_ranges@.dom().contains(t) && self_ranges@[t].mem(x) && other_ranges@.dom().contains(t) && other_ranges@[t].mem(x)) by {
                        if self_ranges@.dom().contains(t) && self_ranges@[t].mem(x) && other_ranges@.dom().contains(t) && other_ranges@[t].mem(x) {
                            let i = choose|i: int| 0 <= i < all.len() && (#[trigger] all[i]).0 == t;
                            assert(all[i].1.mem(x));
                        }
                    }
                }
//@end
    // C19 "the largest intersection": what IntersectionInfo measures is the component-wise intersection of the entry's definition
    // with the requested one
//@extract source=pm container="impl SubsetDefinition" fn=intersection ret=r
//@rewrite "a.intersection(b).copied().collect()" => "collect_intersection(a, b)"
//@spec
        ensures
            forall|x: u32| r.codepoints.mem(x) == (self.codepoints.mem(x) && other.codepoints.mem(x)),
            forall|t: Tag| r.feature_tags.has(t) == (self.feature_tags.has(t) && other.feature_tags.has(t)),
            forall|t: Tag, x: Fixed| r.design_space.has(t, x) == (self.design_space.has(t, x) && other.design_space.has(t, x)),
//@end
}

impl Entry {
//@extract source=pm container="impl Entry" fn=intersects ret=r
//@spec
        requires self.subset_definition.design_space.wf(), subset_definition.design_space.wf()
        ensures r == spec_entry_intersects(&self.subset_definition, subset_definition)
//@at body-start
        proof {
            lemma_feature_cases(&self.subset_definition.feature_tags, &subset_definition.feature_tags);
            lemma_ds_cases(&self.subset_definition.design_space, &subset_definition.design_space);
        }
//@end

//@extract source=pm container="impl Entry" fn=design_space_intersects ret=r
//@rewrite "in a {" => "in a.iter() {"
//@desugarfor nth=0 name=verif_it raw
//@spec
        ensures r == (exists|t: Tag, x: Fixed| a@.dom().contains(t) && b@.dom().contains(t) && a@[t].mem(x) && b@[t].mem(x))
//@at before "let mut verif_it ="
        let ghost mut n: int = 0;
//@at after "let mut verif_it = a.iter();"
        let ghost all = verif_it.rem();
//@at loop "let mut verif_it ="
            invariant
                0 <= n <= all.len(), verif_it.rem() == all.skip(n),
                forall|i: int| 0 <= i < all.len() ==> a@.dom().contains((#[trigger] all[i]).0) && a@[all[i].0] == all[i].1,
                forall|k: Tag| a@.dom().contains(k) ==> exists|i: int| 0 <= i < all.len() && (#[trigger] all[i]).0 == k,
                forall|j: int, x: Fixed| 0 <= j < n && b@.dom().contains((#[trigger] all[j]).0) ==> !(all[j].1.mem(x) && #[trigger] b@[all[j].0].mem(x)),
            ensures n == all.len()
            decreases all.len() - n
//@at after "else { break; };"
            proof {
                assert(all.skip(n)[0] == all[n]);
                assert(all.skip(n).skip(1) == all.skip(n + 1));
                n = n + 1;
            }
//@at loop-after "let mut verif_it ="
        proof {
            assert(n == all.len());
            assert forall|t: Tag, x: Fixed| !(a@.dom().contains(t) && b@.dom().contains(t) && a@[t].mem(x) && b@[t].mem(x)) by {
                if a@.dom().contains(t) && b@.dom().contains(t) {
                    let i = choose|i: int| 0 <= i < all.len() && (#[trigger] all[i]).0 == t;
                    assert(!(all[i].1.mem(x) && b@[all[i].0].mem(x)));
                }
            }
        }
//@end
}

// ---- monotonicity (C19: "it only grows when the definition grows and is contained in the set offered for the
// all-inclusive definition")
pub open spec fn def_subset(d1: &SubsetDefinition, d2: &SubsetDefinition) -> bool {
    &&& forall|x: u32| d1.codepoints.mem(x) ==> d2.codepoints.mem(x)
    &&& forall|t: Tag| d1.feature_tags.has(t) ==> d2.feature_tags.has(t)
    &&& forall|t: Tag, x: Fixed| d1.design_space.has(t, x) ==> d2.design_space.has(t, x)
}
pub proof fn lemma_entry_intersects_monotone(e: &SubsetDefinition, d1: &SubsetDefinition, d2: &SubsetDefinition)
    requires def_subset(d1, d2), spec_entry_intersects(e, d1)
    ensures spec_entry_intersects(e, d2)
{
    if !e.codepoints.empty_spec() { let x = choose|x: u32| e.codepoints.mem(x) && d1.codepoints.mem(x); assert(e.codepoints.mem(x) && d2.codepoints.mem(x)); }
    if !e.feature_tags.empty_spec() { let t = choose|t: Tag| e.feature_tags.has(t) && d1.feature_tags.has(t); assert(e.feature_tags.has(t) && d2.feature_tags.has(t)); }
    if !e.design_space.empty_spec() { let (t, x) = choose|t: Tag, x: Fixed| e.design_space.has(t, x) && d1.design_space.has(t, x);
        assert(e.design_space.has(t, x) && d2.design_space.has(t, x)); }
}
pub open spec fn is_all_inclusive(a: &SubsetDefinition) -> bool {
    (forall|x: u32| a.codepoints.mem(x)) && a.feature_tags is All && a.design_space is All
}
pub proof fn lemma_entry_intersects_all_inclusive(e: &SubsetDefinition, d: &SubsetDefinition, a: &SubsetDefinition)
    requires is_all_inclusive(a), spec_entry_intersects(e, d)
    ensures spec_entry_intersects(e, a)
{
    assert(def_subset(d, a));
    lemma_entry_intersects_monotone(e, d, a);
}

}
fn main() {}
