//@unit U14.2v props=C14 tier=quick
//@source name=bs kind=file path=read-fonts/src/collections/int_set/bitset.rs
//@source name=bp kind=file path=read-fonts/src/collections/int_set/bitpage.rs
// C14, middle layer: BitSet (sorted page map + page vector) acts as a mathematical set of u32 for the operations that do
// not go through the page merge: insert, remove, contains, clear, empty, len, num_pages and every page-lookup helper
// (page_index_for_major, ensure_page_index_for_major, page_for, page_for_mut, page_for_major_mut, ensure_page_for_mut,
// ensure_page_for_major_mut, get_major_value, major_start) - real text, unbounded number of pages.
// Representation invariant wf: page_map strictly sorted by major value, majors < 2^23, indices form an injection into
// pages, |page_map| = |pages|, length = sum of the page lengths. Membership mem(x): the page registered for x >> 9 holds
// bit x & 511. Contracts state the whole view ("forall x: mem'(x) == ..."), so the frame is proved, not assumed.
// ASSUMED: the BitPage operations' contracts (proved on the real BitPage over all 2^512 pages by Kani unit U14.1), members of
// a page are < 512, <[T]>::binary_search_by as documented by std for a slice partitioned by the comparator.
// Ghost insertions besides contracts: closure result naming (`-> (o: T) ensures .. { body }`), proof blocks.
// PAGE_BITS = 512 (8 x u64) is an anchored constant.
use vstd::prelude::*;
use std::cmp::Ordering;
use vstd::std_specs::cmp::OrdSpec;
verus! {
//@prelude std_combinators

// ---- std: <[T]>::binary_search_by (ASSUMED; documented std behaviour for a slice partitioned by the comparator)
pub open spec fn ord_rank(o: Ordering) -> int { match o { Ordering::Less => 0, Ordering::Equal => 1, Ordering::Greater => 2 } }
pub assume_specification<'a, T, F: FnMut(&'a T) -> Ordering>[<[T]>::binary_search_by](s: &'a [T], f: F) -> (r: Result<usize, usize>)
    requires
        forall|i: int| 0 <= i < s@.len() ==> call_requires(f, (&s@[i],)),
    ensures
        match r {
            Ok(i) => i < s@.len() && call_ensures(f, (&s@[i as int],), Ordering::Equal),
            Err(i) => i <= s@.len(),
        },
        // comparator deterministic on the elements and monotone along the slice (i.e. the slice is partitioned by it)
        ((forall|j: int, o1: Ordering, o2: Ordering| 0 <= j < s@.len()
                && #[trigger] call_ensures(f, (&s@[j],), o1) && #[trigger] call_ensures(f, (&s@[j],), o2) ==> o1 == o2)
          && (forall|a: int, b: int, oa: Ordering, ob: Ordering| 0 <= a < b < s@.len()
                && #[trigger] call_ensures(f, (&s@[a],), oa) && #[trigger] call_ensures(f, (&s@[b],), ob) ==> ord_rank(oa) <= ord_rank(ob)))
        ==> match r {
            Ok(i) => true,
            Err(i) => (forall|j: int| 0 <= j < i ==> call_ensures(f, (&#[trigger] s@[j],), Ordering::Less))
                && (forall|j: int| i <= j < s@.len() ==> call_ensures(f, (&#[trigger] s@[j],), Ordering::Greater)),
        };

//@require source=bp seq="type Element = u64;"
//@require source=bp seq="const PAGE_SIZE: u32 = 8;"
//@require source=bp seq="pub(crate) const PAGE_BITS: u32 = ELEM_BITS * PAGE_SIZE;"
//@require source=bs seq="const PAGE_BITS_LOG_2: u32 = PAGE_BITS.ilog2();"
pub assume_specification<T>[core::ops::RangeInclusive::<T>::start](r: &core::ops::RangeInclusive<T>) -> (s: &T)
    ensures *s == r@.start;
pub assume_specification<T>[core::ops::RangeInclusive::<T>::end](r: &core::ops::RangeInclusive<T>) -> (e: &T)
    ensures *e == r@.end;
pub const PAGE_BITS: u32 = 512;
const PAGE_BITS_LOG_2: u32 = 9;

// ---- the page layer: opaque here; every contract below is PROVED on the real BitPage by Kani unit U14.1
#[verifier::external_body]
pub struct BitPage { _p: u8 }
impl BitPage {
    pub uninterp spec fn view(&self) -> Set<u32>;
    #[verifier::external_body]
    pub fn new_zeroes() -> (r: Self) ensures r@ == Set::<u32>::empty() { unimplemented!() }
    #[verifier::external_body]
    pub fn len(&self) -> (r: u32) ensures r == self@.len(), r <= 512 { unimplemented!() }
    #[verifier::external_body]
    pub fn is_empty(&self) -> (r: bool) ensures r == (self@.len() == 0) { unimplemented!() }
    #[verifier::external_body]
    pub fn insert(&mut self, val: u32) -> (r: bool)
        ensures final(self)@ == old(self)@.insert(val & 511), r == !old(self)@.contains(val & 511)
    { unimplemented!() }
    #[verifier::external_body]
    pub fn remove(&mut self, val: u32) -> (r: bool)
        ensures final(self)@ == old(self)@.remove(val & 511), r == old(self)@.contains(val & 511)
    { unimplemented!() }
    #[verifier::external_body]
    pub fn contains(&self, val: u32) -> (r: bool) ensures r == self@.contains(val & 511) { unimplemented!() }
    #[verifier::external_body]
    pub fn clear(&mut self) ensures final(self)@ == Set::<u32>::empty() { unimplemented!() }
    #[verifier::external_body]
    pub fn remove_range(&mut self, first: u32, last: u32)
        ensures forall|y: u32| final(self)@.contains(y) == (old(self)@.contains(y) && !((first & 511) <= y <= (last & 511)))
    { unimplemented!() }
    #[verifier::external_body]
    pub fn insert_range(&mut self, first: u32, last: u32)
        ensures forall|y: u32| final(self)@.contains(y) == (old(self)@.contains(y) || ((first & 511) <= y <= (last & 511)))
    { unimplemented!() }
}
// members of a page are 0..=511 (type invariant of BitPage; part of U14.1's view)
pub broadcast axiom fn axiom_page_range(p: BitPage, x: u32)
    ensures #[trigger] p@.contains(x) ==> x < 512;

//@require source=bs seq="struct PageInfo { index: u32, major_value: u32, }"
#[derive(Clone, Copy)]
pub struct PageInfo {
    index: u32,
    major_value: u32,
}

//@require source=bs seq="pub(crate) struct BitSet { pages: Vec<BitPage>, page_map: Vec<PageInfo>, length: u64, }"
pub struct BitSet {
    pages: Vec<BitPage>,
    page_map: Vec<PageInfo>,
    length: u64,
}

proof fn lemma_sorted_bound(m: Seq<PageInfo>, i: int)
    requires forall|a: int, b: int| 0 <= a < b < m.len() ==> m[a].major_value < m[b].major_value, 0 <= i < m.len()
    ensures m[i].major_value >= i
    decreases i
{
    if i > 0 { lemma_sorted_bound(m, i - 1); }
}
spec fn sum_len(s: Seq<BitPage>) -> nat
    decreases s.len()
{
    if s.len() == 0 { 0 } else { sum_len(s.drop_last()) + s.last()@.len() }
}

// ---- representation: page_map (sorted by major value) points into pages (creation order)
spec fn map_wf_s(m: Seq<PageInfo>, p: Seq<BitPage>) -> bool {
    &&& m.len() == p.len()
    &&& forall|i: int| 0 <= i < m.len() ==> (#[trigger] m[i]).index < p.len() && m[i].major_value < 0x80_0000
    &&& forall|i: int, j: int| 0 <= i < j < m.len() ==> (#[trigger] m[i]).major_value < (#[trigger] m[j]).major_value
    &&& forall|i: int, j: int| 0 <= i < j < m.len() ==> (#[trigger] m[i]).index != (#[trigger] m[j]).index
}
spec fn mem_at_s(m: Seq<PageInfo>, p: Seq<BitPage>, i: int, x: u32) -> bool {
    0 <= i < m.len() && m[i].major_value == (x >> 9) && p[m[i].index as int]@.contains(x & 511)
}
spec fn mem_s(m: Seq<PageInfo>, p: Seq<BitPage>, x: u32) -> bool {
    exists|i: int| mem_at_s(m, p, i, x)
}
proof fn lemma_len_bound(m: Seq<PageInfo>, p: Seq<BitPage>)
    requires map_wf_s(m, p)
    ensures p.len() <= 0x80_0000
{
    if m.len() > 0 { lemma_sorted_bound(m, m.len() - 1); }
}
proof fn lemma_new_page(m: Seq<PageInfo>, p: Seq<BitPage>, k: int, major: u32, z: BitPage)
    requires map_wf_s(m, p), 0 <= k <= m.len(), major < 0x80_0000, z@ == Set::<u32>::empty(),
        forall|j: int| 0 <= j < k ==> (#[trigger] m[j]).major_value < major,
        forall|j: int| k <= j < m.len() ==> (#[trigger] m[j]).major_value > major,
    ensures ({
        let m2 = m.insert(k, PageInfo { index: p.len() as u32, major_value: major });
        let p2 = p.push(z);
        &&& p.len() <= 0x80_0000
        &&& map_wf_s(m2, p2)
        &&& sum_len(p2) == sum_len(p)
        &&& forall|x: u32| mem_s(m2, p2, x) == mem_s(m, p, x)
    })
{
    lemma_len_bound(m, p);
    let ni = PageInfo { index: p.len() as u32, major_value: major };
    let m2 = m.insert(k, ni);
    let p2 = p.push(z);
    assert(p2.drop_last() =~= p);
    assert forall|i: int, j: int| 0 <= i < j < m2.len() implies (#[trigger] m2[i]).major_value < (#[trigger] m2[j]).major_value && m2[i].index != m2[j].index by {
        let oi = if i < k { i } else { i - 1 };
        let oj = if j < k { j } else { j - 1 };
        if i != k && j != k { assert(m2[i] == m[oi] && m2[j] == m[oj]); }
        else if i == k { assert(m2[j] == m[oj]); }
        else { assert(m2[i] == m[oi]); }
    }
    assert forall|i: int| 0 <= i < m2.len() implies (#[trigger] m2[i]).index < p2.len() && m2[i].major_value < 0x80_0000 by {
        if i != k { let oi = if i < k { i } else { i - 1 }; assert(m2[i] == m[oi]); }
    }
    assert forall|x: u32| mem_s(m2, p2, x) == mem_s(m, p, x) by {
        if mem_s(m, p, x) {
            let i = choose|i: int| mem_at_s(m, p, i, x);
            let i2 = if i < k { i } else { i + 1 };
            assert(m2[i2] == m[i]);
            assert(mem_at_s(m2, p2, i2, x));
        }
        if mem_s(m2, p2, x) {
            let i2 = choose|i: int| mem_at_s(m2, p2, i, x);
            if i2 == k { assert(p2[m2[k].index as int] == z); assert(false); }
            let i = if i2 < k { i2 } else { i2 - 1 };
            assert(m2[i2] == m[i]);
            assert(mem_at_s(m, p, i, x));
        }
    }
}

proof fn lemma_sum_bound(p: Seq<BitPage>)
    ensures sum_len(p) <= 512 * p.len()
    decreases p.len()
{
    if p.len() > 0 {
        lemma_sum_bound(p.drop_last());
        lemma_page_len(p.last());
    }
}
// a page holds at most 512 members (all below 512)
proof fn lemma_page_len(pg: BitPage)
    ensures pg@.len() <= 512
{
    let full = Set::<u32>::range(0, 512);
    assert forall|x: u32| pg@.contains(x) implies full.contains(x) by { axiom_page_range(pg, x); }
    vstd::set_lib::lemma_len_subset(pg@, full);
}
proof fn lemma_sum_update(p: Seq<BitPage>, idx: int, np: BitPage)
    requires 0 <= idx < p.len()
    ensures sum_len(p.update(idx, np)) + p[idx]@.len() == sum_len(p) + np@.len()
    decreases p.len()
{
    let q = p.update(idx, np);
    if idx == p.len() - 1 {
        assert(q.drop_last() =~= p.drop_last());
    } else {
        assert(q.drop_last() =~= p.drop_last().update(idx, np));
        lemma_sum_update(p.drop_last(), idx, np);
    }
}
proof fn lemma_update_page(m: Seq<PageInfo>, p: Seq<BitPage>, i: int, np: BitPage)
    requires map_wf_s(m, p), 0 <= i < m.len()
    ensures ({
        let idx = m[i].index as int;
        let p2 = p.update(idx, np);
        &&& map_wf_s(m, p2)
        &&& sum_len(p2) + p[idx]@.len() == sum_len(p) + np@.len()
        &&& forall|x: u32| (x >> 9) != m[i].major_value ==> mem_s(m, p2, x) == mem_s(m, p, x)
        &&& forall|x: u32| (x >> 9) == m[i].major_value ==> mem_s(m, p2, x) == np@.contains(x & 511)
        &&& forall|x: u32| (x >> 9) == m[i].major_value ==> mem_s(m, p, x) == p[idx]@.contains(x & 511)
    })
{
    let idx = m[i].index as int;
    let p2 = p.update(idx, np);
    lemma_sum_update(p, idx, np);
    assert forall|x: u32| (x >> 9) != m[i].major_value implies mem_s(m, p2, x) == mem_s(m, p, x) by {
        if mem_s(m, p, x) { let j = choose|j: int| mem_at_s(m, p, j, x); assert(j != i); assert(m[j].index != m[i].index); assert(mem_at_s(m, p2, j, x)); }
        if mem_s(m, p2, x) { let j = choose|j: int| mem_at_s(m, p2, j, x); assert(j != i); assert(m[j].index != m[i].index); assert(mem_at_s(m, p, j, x)); }
    }
    assert forall|x: u32| (x >> 9) == m[i].major_value implies mem_s(m, p2, x) == np@.contains(x & 511) && mem_s(m, p, x) == p[idx]@.contains(x & 511) by {
        if np@.contains(x & 511) { assert(mem_at_s(m, p2, i, x)); }
        if p[idx]@.contains(x & 511) { assert(mem_at_s(m, p, i, x)); }
        if mem_s(m, p2, x) { let j = choose|j: int| mem_at_s(m, p2, j, x); assert(j == i); }
        if mem_s(m, p, x) { let j = choose|j: int| mem_at_s(m, p, j, x); assert(j == i); }
    }
}

impl BitSet {
    pub closed spec fn wf(&self) -> bool {
        &&& map_wf_s(self.page_map@, self.pages@)
        &&& self.length == sum_len(self.pages@)
    }
    // membership: x is in the set iff the page registered for its major value has bit (x mod 512)
    pub closed spec fn mem(&self, x: u32) -> bool { mem_s(self.page_map@, self.pages@, x) }

//@extract source=bs container="impl BitSet" fn=get_major_value ret=r
//@spec
        ensures r == value >> 9, r < 0x80_0000
//@at body-start
        proof { assert(value >> 9 < 0x80_0000) by(bit_vector); }
//@end

//@extract source=bs container="impl BitSet" fn=major_start ret=r
//@spec
        requires major < 0x80_0000
        ensures r == major << 9
//@end

//@extract source=bs container="impl BitSet" fn=page_index_for_major ret=r
//@spec
        requires map_wf_s(self.page_map@, self.pages@)
        ensures
            r is Some ==> exists|i: int| 0 <= i < self.page_map@.len() && self.page_map@[i].major_value == major_value && self.page_map@[i].index == r->Some_0,
            r is None ==> forall|i: int| 0 <= i < self.page_map@.len() ==> self.page_map@[i].major_value != major_value,
//@closure nth=0
-> (o: Ordering) ensures o == probe.major_value.cmp_spec(&major_value)
//@closure nth=1
-> (o: usize) requires info_idx < self.page_map@.len() ensures o == self.page_map@[info_idx as int].index as usize
//@end

//@extract source=bs container="impl BitSet" fn=ensure_page_index_for_major ret=r
//@spec
        requires map_wf_s(old(self).page_map@, old(self).pages@), major_value < 0x80_0000
        ensures map_wf_s(final(self).page_map@, final(self).pages@), sum_len(final(self).pages@) == sum_len(old(self).pages@), r < final(self).pages@.len(),
            exists|i: int| 0 <= i < final(self).page_map@.len() && final(self).page_map@[i].major_value == major_value && final(self).page_map@[i].index == r,
            forall|x: u32| final(self).mem(x) == old(self).mem(x),
            final(self).length == old(self).length,
//@closure nth=0
-> (o: Ordering) ensures o == probe.major_value.cmp_spec(&major_value)
//@at before "page_index }"
                proof {
                    lemma_new_page(old(self).page_map@, old(self).pages@, map_index_to_insert as int, major_value, self.pages@.last());
                    assert(self.page_map@ =~= old(self).page_map@.insert(map_index_to_insert as int, new_info));
                    assert(self.page_map@[map_index_to_insert as int] == new_info);
                }
//@end

//@extract source=bs container="impl BitSet" fn=ensure_page_for_major_mut ret=r
//@spec
        requires map_wf_s(old(self).page_map@, old(self).pages@), major_value < 0x80_0000
        ensures
            map_wf_s(final(self).page_map@, final(self).pages@),
            final(self).length == old(self).length,
            sum_len(final(self).pages@) + (*r)@.len() == sum_len(old(self).pages@) + (*final(r))@.len(),
            forall|x: u32| (x >> 9) != major_value ==> final(self).mem(x) == old(self).mem(x),
            forall|x: u32| (x >> 9) == major_value ==> old(self).mem(x) == (*r)@.contains(x & 511),
            forall|x: u32| (x >> 9) == major_value ==> final(self).mem(x) == (*final(r))@.contains(x & 511),
//@at before "self.pages.get_mut(page_index).unwrap()"
        proof {
            let m = self.page_map@; let p = self.pages@;
            let i = choose|i: int| 0 <= i < m.len() && m[i].major_value == major_value && m[i].index == page_index;
            assert forall|np: BitPage| #![auto] map_wf_s(m, p.update(page_index as int, np))
                && sum_len(p.update(page_index as int, np)) + p[page_index as int]@.len() == sum_len(p) + np@.len()
                && (forall|x: u32| (x >> 9) != major_value ==> mem_s(m, p.update(page_index as int, np), x) == mem_s(m, p, x))
                && (forall|x: u32| (x >> 9) == major_value ==> mem_s(m, p.update(page_index as int, np), x) == np@.contains(x & 511))
                && (forall|x: u32| (x >> 9) == major_value ==> mem_s(m, p, x) == p[page_index as int]@.contains(x & 511))
            by { lemma_update_page(m, p, i, np); }
        }
//@end

//@extract source=bs container="impl BitSet" fn=ensure_page_for_mut ret=r
//@spec
        requires map_wf_s(old(self).page_map@, old(self).pages@)
        ensures
            map_wf_s(final(self).page_map@, final(self).pages@),
            final(self).length == old(self).length,
            sum_len(final(self).pages@) + (*r)@.len() == sum_len(old(self).pages@) + (*final(r))@.len(),
            forall|x: u32| (x >> 9) != (value >> 9) ==> final(self).mem(x) == old(self).mem(x),
            forall|x: u32| (x >> 9) == (value >> 9) ==> old(self).mem(x) == (*r)@.contains(x & 511),
            forall|x: u32| (x >> 9) == (value >> 9) ==> final(self).mem(x) == (*final(r))@.contains(x & 511),
//@end

//@extract source=bs container="impl BitSet" fn=insert ret=r
//@spec
        requires old(self).wf()
        ensures final(self).wf(), forall|x: u32| final(self).mem(x) == (old(self).mem(x) || x == val), r == !old(self).mem(val)
//@at after "let ret = page.insert(val);"
        proof {
            lemma_sum_bound(self.pages@);
            lemma_len_bound(self.page_map@, self.pages@);
            assert forall|x: u32| (x == val) == ((x >> 9) == (val >> 9) && (x & 511) == (val & 511)) by { lemma_split(x, val); }
        }
//@end

//@extract source=bs container="impl BitSet" fn=page_for ret=r
//@spec
        requires map_wf_s(self.page_map@, self.pages@)
        ensures r is Some ==> (forall|x: u32| (x >> 9) == (value >> 9) ==> self.mem(x) == r->Some_0@.contains(x & 511)),
            r is None ==> (forall|x: u32| (x >> 9) == (value >> 9) ==> !self.mem(x)),
//@at before "self.pages.get(pages_index)"
        proof {
            let m = self.page_map@; let p = self.pages@;
            let i = choose|i: int| 0 <= i < m.len() && m[i].major_value == major_value && m[i].index == pages_index;
            lemma_update_page(m, p, i, p[pages_index as int]);
        }
//@end

//@extract source=bs container="impl BitSet" fn=contains ret=r
//@spec
        requires self.wf()
        ensures r == self.mem(val)
//@closure nth=0
-> (o: bool) ensures o == page@.contains(val & 511)
//@end

//@extract source=bs container="impl BitSet" fn=empty ret=r
//@spec
        ensures r.wf(), forall|x: u32| !r.mem(x), r.length == 0
//@end

//@extract source=bs container="impl BitSet" fn=clear
//@spec
        ensures final(self).wf(), forall|x: u32| !final(self).mem(x), final(self).length == 0
//@end

//@extract source=bs container="impl BitSet" fn=len ret=r
//@spec
        ensures r == self.length
//@end

//@extract source=bs container="impl BitSet" fn=num_pages ret=r
//@spec
        ensures r == self.pages@.len()
//@end

//@extract source=bs container="impl BitSet" fn=page_for_major_mut ret=r
//@spec
        requires map_wf_s(old(self).page_map@, old(self).pages@)
        ensures
            r is None ==> *final(self) == *old(self) && (forall|x: u32| (x >> 9) == major_value ==> !old(self).mem(x)),
            r is Some ==> {
                &&& map_wf_s(final(self).page_map@, final(self).pages@)
                &&& final(self).length == old(self).length
                &&& sum_len(final(self).pages@) + (*r->Some_0)@.len() == sum_len(old(self).pages@) + (*final(r->Some_0))@.len()
                &&& forall|x: u32| (x >> 9) != major_value ==> final(self).mem(x) == old(self).mem(x)
                &&& forall|x: u32| (x >> 9) == major_value ==> old(self).mem(x) == (*r->Some_0)@.contains(x & 511)
                &&& forall|x: u32| (x >> 9) == major_value ==> final(self).mem(x) == (*final(r->Some_0))@.contains(x & 511)
            },
//@at before "self.pages.get_mut(page_index)"
        proof {
            let m = self.page_map@; let p = self.pages@;
            let i = choose|i: int| 0 <= i < m.len() && m[i].major_value == major_value && m[i].index == page_index;
            assert forall|np: BitPage| #![auto] map_wf_s(m, p.update(page_index as int, np))
                && sum_len(p.update(page_index as int, np)) + p[page_index as int]@.len() == sum_len(p) + np@.len()
                && (forall|x: u32| (x >> 9) != major_value ==> mem_s(m, p.update(page_index as int, np), x) == mem_s(m, p, x))
                && (forall|x: u32| (x >> 9) == major_value ==> mem_s(m, p.update(page_index as int, np), x) == np@.contains(x & 511))
                && (forall|x: u32| (x >> 9) == major_value ==> mem_s(m, p, x) == p[page_index as int]@.contains(x & 511))
            by { lemma_update_page(m, p, i, np); }
        }
//@end

//@extract source=bs container="impl BitSet" fn=page_for_mut ret=r
//@spec
        requires map_wf_s(old(self).page_map@, old(self).pages@)
        ensures
            r is None ==> *final(self) == *old(self) && (forall|x: u32| (x >> 9) == (value >> 9) ==> !old(self).mem(x)),
            r is Some ==> {
                &&& map_wf_s(final(self).page_map@, final(self).pages@)
                &&& final(self).length == old(self).length
                &&& sum_len(final(self).pages@) + (*r->Some_0)@.len() == sum_len(old(self).pages@) + (*final(r->Some_0))@.len()
                &&& forall|x: u32| (x >> 9) != (value >> 9) ==> final(self).mem(x) == old(self).mem(x)
                &&& forall|x: u32| (x >> 9) == (value >> 9) ==> old(self).mem(x) == (*r->Some_0)@.contains(x & 511)
                &&& forall|x: u32| (x >> 9) == (value >> 9) ==> final(self).mem(x) == (*final(r->Some_0))@.contains(x & 511)
            },
//@end

//@extract source=bs container="impl BitSet" fn=remove ret=r
//@spec
        requires old(self).wf()
        ensures final(self).wf(), forall|x: u32| final(self).mem(x) == (old(self).mem(x) && x != val), r == old(self).mem(val)
//@at after "let ret = page.remove(val);"
            proof {
                assert forall|x: u32| (x == val) == ((x >> 9) == (val >> 9) && (x & 511) == (val & 511)) by { lemma_split(x, val); }
            }
//@end

//@extract source=bs container="impl BitSet" fn=insert_range
//@rewrite "RangeInclusive<u32>" => "core::ops::RangeInclusive<u32>"
//@spec
        requires old(self).wf()
        ensures final(self).wf(), forall|x: u32| final(self).mem(x) == (old(self).mem(x) || (range@.start <= x <= range@.end))
//@at after "let mut total_added = 0;"
        proof {
            assert((start >> 9) <= (end >> 9)) by(bit_vector) requires start <= end;
            assert forall|x: u32| start <= x implies (start >> 9) <= (x >> 9) by { assert((start >> 9) <= (x >> 9)) by(bit_vector) requires start <= x; }
        }
//@at after "for major in"
it:
//@at loop "for major in"
            invariant
                start <= end, major_start == start >> 9, major_end == end >> 9, major_start <= major_end,
                map_wf_s(self.page_map@, self.pages@), self.length == old(self).length,
                sum_len(self.pages@) == old(self).length + total_added, sum_len(old(self).pages@) == old(self).length, total_added <= 512 * it.index@,
                forall|x: u32| self.mem(x) == (old(self).mem(x) || (start <= x <= end && (x >> 9) < major_start + it.index@)),
//@at loop-body "for major in"
            proof {
                assert(major < 0x80_0000) by(bit_vector) requires major <= end >> 9;
                assert((major << 9) <= 0xffff_fe00u32) by(bit_vector) requires major < 0x80_0000u32;
            }
//@at after "let pre_len = page.len();"
            let ghost pre = page@;
//@at after "page.insert_range(page_start, page_end);"
            proof {
                assert(pre.subset_of(page@));
                vstd::set_lib::lemma_len_subset(pre, page@);
                lemma_page_len(*page);
            }
//@at loop-end "for major in"
            proof {
                assert forall|x: u32| self.mem(x) == (old(self).mem(x) || (start <= x <= end && (x >> 9) < major_start + it.index@ + 1)) by {
                    if (x >> 9) == major { lemma_range_bits(start, end, major, x); }
                }
            }
//@at loop-after "for major in"
        proof {
            lemma_sum_bound(self.pages@);
            lemma_len_bound(self.page_map@, self.pages@);
            assert forall|x: u32| (start <= x <= end) implies (x >> 9) < major_end + 1 by {
                assert((x >> 9) <= (end >> 9)) by(bit_vector) requires x <= end;
            }
        }
//@end

//@extract source=bs container="impl BitSet" fn=major_end ret=r
//@spec
        requires major < 0x80_0000
        ensures r == (major << 9) + 511
//@at body-start
        proof { assert((major << 9) <= 0xffff_fe00u32) by(bit_vector) requires major < 0x80_0000u32; }
//@end

    // ASSUMED (iterator sum outside Verus' subset): the cached length is recomputed as the sum of the page lengths
    #[verifier::external_body]
    fn recompute_length(&mut self)
        ensures final(self).page_map@ == old(self).page_map@, final(self).pages@ == old(self).pages@, final(self).length == sum_len(final(self).pages@)
    { unimplemented!() }

//@extract source=bs container="impl BitSet" fn=remove_range
//@rewrite "RangeInclusive<u32>" => "core::ops::RangeInclusive<u32>"
//@spec
        requires old(self).wf()
        ensures final(self).wf(), forall|x: u32| final(self).mem(x) == (old(self).mem(x) && !(range@.start <= x <= range@.end))
//@closure nth=0
-> (o: Ordering) ensures o == probe.major_value.cmp_spec(&start_major)
//@at before "loop {"
        let ghost pm0 = self.page_map@;
        let ghost pg0 = self.pages@;
        let ghost k0 = info_index as int;
        let ghost mut hi = info_index as int;
        proof {
            lemma_len_bound(self.page_map@, self.pages@);
            assert((start >> 9) <= (end >> 9)) by(bit_vector) requires start <= end;
            // everything before the search position lies below the range
            assert forall|j: int| 0 <= j < info_index implies (#[trigger] pm0[j]).major_value < start_major by {
                if info_index < pm0.len() && pm0[info_index as int].major_value == start_major { assert(pm0[j].major_value < pm0[info_index as int].major_value); }
            }
        }
//@at loop "loop"
            invariant_except_break
                map_wf_s(pm0, pg0), self.page_map@ == pm0, pm0.len() <= 0x80_0000, self.length == old(self).length,
                start <= end, start_major == start >> 9, end_major == end >> 9, start_major <= end_major, k0 <= info_index,
                forall|j: int| 0 <= j < k0 ==> (#[trigger] pm0[j]).major_value < start_major,
                info_index < pm0.len() ==> pm0[info_index as int].major_value >= start_major,
                info_index <= pm0.len() ==> cut_state(pm0, pg0, self.pages@, k0, info_index as int, start, end),
                info_index <= pm0.len(),
            ensures
                self.page_map@ == pm0, self.length == old(self).length,
                cut_state(pm0, pg0, self.pages@, k0, hi, start, end),
                forall|j: int| hi <= j < pm0.len() ==> (#[trigger] pm0[j]).major_value > end_major,
            decreases pm0.len() - info_index
//@at before "break;" nth=0
                proof { hi = info_index as int; }
//@at before "let Some(page)"
            let ghost pg = self.pages@;
            let ghost major = info.major_value;
            let ghost slot = info.index as int;
//@at before "break;" nth=2
                proof {
                    hi = info_index as int;
                    assert(pg.update(slot, pg[slot]) =~= pg);
                    assert forall|j: int| hi <= j < pm0.len() implies (#[trigger] pm0[j]).major_value > end_major by {
                        if j > hi { assert(pm0[hi].major_value < pm0[j].major_value); }
                    }
                }
//@at after "page.remove_range(start, Self::major_end(start_major).min(end));"
                proof {
                    assert(pm0[info_index as int].index as int == slot);
                    assert(pg[slot] == pg0[slot]);
                    assert(start >= (major << 9)) by(bit_vector) requires (start >> 9) == major;
                    assert((major << 9) <= 0xffff_fe00u32) by(bit_vector) requires major < 0x80_0000u32;
                    assert forall|x: u32| (x >> 9) == major implies (#[trigger] page@.contains(x & 511)) == (pg0[slot]@.contains(x & 511) && !(start <= x <= end)) by {
                        lemma_range_bits(start, end, major, x);
                    }
                    lemma_cut_step(pm0, pg0, pg, k0, info_index as int, start, end, *page);
                }
//@at after "page.remove_range(Self::major_start(end_major), end);"
                proof {
                    assert(pm0[info_index as int].index as int == slot);
                    assert(pg[slot] == pg0[slot]);
                    assert(start < (major << 9)) by(bit_vector) requires (start >> 9) < major, major < 0x80_0000u32;
                    assert((major << 9) <= 0xffff_fe00u32) by(bit_vector) requires major < 0x80_0000u32;
                    assert(end <= (major << 9) + 511) by(bit_vector) requires (end >> 9) == major, major < 0x80_0000u32;
                    assert forall|x: u32| (x >> 9) == major implies (#[trigger] page@.contains(x & 511)) == (pg0[slot]@.contains(x & 511) && !(start <= x <= end)) by {
                        lemma_range_bits(start, end, major, x);
                    }
                    lemma_cut_step(pm0, pg0, pg, k0, info_index as int, start, end, *page);
                    hi = info_index + 1;
                    assert forall|j: int| hi <= j < pm0.len() implies (#[trigger] pm0[j]).major_value > end_major by {
                        assert(pm0[info_index as int].major_value < pm0[j].major_value);
                    }
                }
//@at after "page.clear();"
                proof {
                    assert(pm0[info_index as int].index as int == slot);
                    assert forall|x: u32| (x >> 9) == major implies (#[trigger] page@.contains(x & 511)) == (pg0[slot]@.contains(x & 511) && !(start <= x <= end)) by {
                        lemma_rng_inner(start, end, x);
                    }
                    lemma_cut_step(pm0, pg0, pg, k0, info_index as int, start, end, *page);
                }
//@at loop-after "loop"
        proof { lemma_cut_members(pm0, pg0, self.pages@, k0, hi, start, end); }
//@end
}

proof fn lemma_rng_major(start: u32, end: u32, x: u32)
    requires start <= x <= end
    ensures (start >> 9) <= (x >> 9) <= (end >> 9)
{ assert((start >> 9) <= (x >> 9) && (x >> 9) <= (end >> 9)) by(bit_vector) requires start <= x, x <= end; }
proof fn lemma_rng_inner(start: u32, end: u32, x: u32)
    requires (start >> 9) < (x >> 9) < (end >> 9)
    ensures start <= x <= end
{ assert(start <= x && x <= end) by(bit_vector) requires (start >> 9) < (x >> 9), (x >> 9) < (end >> 9); }

// ---- remove_range: what has happened to the page of map entry i
spec fn page_cut(pm0: Seq<PageInfo>, pg0: Seq<BitPage>, pg: Seq<BitPage>, i: int, start: u32, end: u32) -> bool {
    forall|x: u32| (x >> 9) == pm0[i].major_value ==>
        (#[trigger] pg[pm0[i].index as int]@.contains(x & 511)) == (pg0[pm0[i].index as int]@.contains(x & 511) && !(start <= x <= end))
}
spec fn cut_state(pm0: Seq<PageInfo>, pg0: Seq<BitPage>, pg: Seq<BitPage>, k0: int, hi: int, start: u32, end: u32) -> bool {
    &&& pg.len() == pg0.len() && 0 <= k0 <= hi <= pm0.len()
    &&& forall|i: int| k0 <= i < hi ==> #[trigger] page_cut(pm0, pg0, pg, i, start, end)
    &&& forall|i: int| 0 <= i < pm0.len() && !(k0 <= i < hi) ==> pg[(#[trigger] pm0[i]).index as int] == pg0[pm0[i].index as int]
}
proof fn lemma_cut_members(pm0: Seq<PageInfo>, pg0: Seq<BitPage>, pg: Seq<BitPage>, k0: int, hi: int, start: u32, end: u32)
    requires map_wf_s(pm0, pg0), cut_state(pm0, pg0, pg, k0, hi, start, end), start <= end,
        forall|i: int| 0 <= i < k0 ==> (#[trigger] pm0[i]).major_value < (start >> 9),
        forall|i: int| hi <= i < pm0.len() ==> (#[trigger] pm0[i]).major_value > (end >> 9),
    ensures forall|x: u32| #[trigger] mem_s(pm0, pg, x) == (mem_s(pm0, pg0, x) && !(start <= x <= end))
{
    assert forall|x: u32| #[trigger] mem_s(pm0, pg, x) == (mem_s(pm0, pg0, x) && !(start <= x <= end)) by {
        if mem_s(pm0, pg, x) || mem_s(pm0, pg0, x) {
            let i = if mem_s(pm0, pg, x) { choose|i: int| mem_at_s(pm0, pg, i, x) } else { choose|i: int| mem_at_s(pm0, pg0, i, x) };
            // i is the only entry for this major value
            assert forall|j: int| mem_at_s(pm0, pg, j, x) || mem_at_s(pm0, pg0, j, x) implies j == i by {
                if j < i { assert(pm0[j].major_value < pm0[i].major_value); }
                if i < j { assert(pm0[i].major_value < pm0[j].major_value); }
            }
            if k0 <= i < hi {
                assert(page_cut(pm0, pg0, pg, i, start, end));
                if pg[pm0[i].index as int]@.contains(x & 511) { assert(mem_at_s(pm0, pg, i, x)); }
                if pg0[pm0[i].index as int]@.contains(x & 511) { assert(mem_at_s(pm0, pg0, i, x)); }
            } else {
                assert(pg[pm0[i].index as int] == pg0[pm0[i].index as int]);
                if start <= x <= end { lemma_rng_major(start, end, x); }
                if pg0[pm0[i].index as int]@.contains(x & 511) { assert(mem_at_s(pm0, pg0, i, x)); assert(mem_at_s(pm0, pg, i, x)); }
            }
        }
    }
}
// one more page has been cut (np replaces the page of entry i)
proof fn lemma_cut_step(pm0: Seq<PageInfo>, pg0: Seq<BitPage>, pg: Seq<BitPage>, k0: int, i: int, start: u32, end: u32, np: BitPage)
    requires map_wf_s(pm0, pg0), cut_state(pm0, pg0, pg, k0, i, start, end), k0 <= i < pm0.len(),
        forall|x: u32| (x >> 9) == pm0[i].major_value ==> (#[trigger] np@.contains(x & 511)) == (pg0[pm0[i].index as int]@.contains(x & 511) && !(start <= x <= end)),
    ensures cut_state(pm0, pg0, pg.update(pm0[i].index as int, np), k0, i + 1, start, end)
{
    let pg2 = pg.update(pm0[i].index as int, np);
    assert forall|j: int| k0 <= j < i + 1 implies #[trigger] page_cut(pm0, pg0, pg2, j, start, end) by {
        if j < i { assert(pm0[j].index != pm0[i].index); assert(page_cut(pm0, pg0, pg, j, start, end)); }
    }
    assert forall|j: int| 0 <= j < pm0.len() && !(k0 <= j < i + 1) implies pg2[(#[trigger] pm0[j]).index as int] == pg0[pm0[j].index as int] by {
        if j < i { assert(pm0[j].index != pm0[i].index); } else { assert(pm0[i].index != pm0[j].index); }
    }
}

// within the page of `major`, the members of start..=end are the bit positions page_start..=page_end (mod 512)
proof fn lemma_range_bits(start: u32, end: u32, major: u32, x: u32)
    requires start <= end, (start >> 9) <= major <= (end >> 9), (x >> 9) == major
    ensures ({
        let lo = (major << 9) as u32;
        let hi = (lo + 511) as u32;
        let ps = if start >= lo { start } else { lo };
        let pe = if end <= hi { end } else { hi };
        (start <= x <= end) == ((ps & 511) <= (x & 511) <= (pe & 511))
    })
{
    assert(major < 0x80_0000u32) by(bit_vector) requires major <= end >> 9;
    let lo = (major << 9) as u32;
    assert(lo <= 0xffff_fe00u32) by(bit_vector) requires lo == major << 9, major < 0x80_0000u32;
    let hi = (lo + 511) as u32;
    let ps = if start >= lo { start } else { lo };
    let pe = if end <= hi { end } else { hi };
    assert((start <= x <= end) == ((ps & 511) <= (x & 511) <= (pe & 511))) by(bit_vector)
        requires start <= end, (start >> 9) <= major, major <= (end >> 9), (x >> 9) == major, lo == major << 9, hi == lo + 511, lo <= 0xffff_fe00u32,
            ps == (if start >= lo { start } else { lo }), pe == (if end <= hi { end } else { hi });
}
proof fn lemma_split(x: u32, y: u32)
    ensures (x == y) == ((x >> 9) == (y >> 9) && (x & 511) == (y & 511))
{ assert((x == y) == ((x >> 9) == (y >> 9) && (x & 511) == (y & 511))) by(bit_vector); }
}
fn main() {}
