//@unit U19.1 props=C19,C02 tier=quick
//@source name=pm kind=file path=incremental-font-transfer/src/patchmap.rs
// C19 / C02: the IFT "check entry intersection" recursion (EntryIntersectionCache) terminates and returns exactly
// the specification's recursive definition, for every list of entries whose child indices refer to earlier
// entries (what decode_format2_entry enforces), with the cache only ever holding correct answers.
use vstd::prelude::*;
use std::collections::HashMap;
verus! {
//@prelude std_combinators
broadcast use vstd::std_specs::hash::group_hash_axioms;


#[verifier::external_body] pub struct SubsetDefinition { _p: u8 }

//@require source=pm seq="struct Entry { subset_definition: SubsetDefinition, child_indices: Vec<usize>, conjunctive_child_match: bool, ignored: bool, uri: PatchUri, }"
// the two fields the recursion reads; Entry::intersects (IntSet/BTreeSet/RangeSet work on the entry's own subset
// definition) is abstract: an uninterpreted predicate of (entry, definition)
pub struct Entry {
    pub child_indices: Vec<usize>,
    pub conjunctive_child_match: bool,
    pub ignored: bool,
}

impl Entry {
    pub uninterp spec fn own_intersects(&self, d: &SubsetDefinition) -> bool;
    #[verifier::external_body]
    fn intersects(&self, subset_definition: &SubsetDefinition) -> (r: bool)
        ensures r == self.own_intersects(subset_definition)
    { unimplemented!() }
}

// well-formedness established by decode_format2_entry: children refer only to prior entries
pub open spec fn entries_wf(entries: Seq<Entry>) -> bool {
    forall|i: int, k: int| 0 <= i < entries.len() && 0 <= k < entries[i].child_indices@.len()
        ==> (#[trigger] entries[i].child_indices@[k]) < i
}

// the IFT spec's "check entry intersection", as a recursive spec function
#[verifier::opaque]
pub open spec fn spec_intersects(entries: Seq<Entry>, idx: int, d: &SubsetDefinition) -> bool
    decreases idx, 1int
{
    if idx < 0 || idx >= entries.len() { false } else {
        let e = entries[idx];
        if !e.own_intersects(d) { false }
        else if e.child_indices@.len() == 0 { true }
        else if e.conjunctive_child_match { spec_all(entries, idx, e.child_indices@.len() as int, d) }
        else { spec_some(entries, idx, e.child_indices@.len() as int, d) }
    }
}
#[verifier::opaque]
pub open spec fn spec_all(entries: Seq<Entry>, idx: int, n: int, d: &SubsetDefinition) -> bool
    decreases idx, 0int, n
{
    if n <= 0 || idx < 0 || idx >= entries.len() || n > entries[idx].child_indices@.len() { true } else {
        let c = entries[idx].child_indices@[n - 1] as int;
        spec_all(entries, idx, n - 1, d) && (c < idx && spec_intersects(entries, c, d))
    }
}
#[verifier::opaque]
pub open spec fn spec_some(entries: Seq<Entry>, idx: int, n: int, d: &SubsetDefinition) -> bool
    decreases idx, 0int, n
{
    if n <= 0 || idx < 0 || idx >= entries.len() || n > entries[idx].child_indices@.len() { false } else {
        let c = entries[idx].child_indices@[n - 1] as int;
        spec_some(entries, idx, n - 1, d) || (c < idx && spec_intersects(entries, c, d))
    }
}


// one-step unfoldings of the (opaque) specification functions
pub proof fn lemma_unfold_intersects(entries: Seq<Entry>, idx: int, d: &SubsetDefinition)
    ensures spec_intersects(entries, idx, d) == (
        if idx < 0 || idx >= entries.len() { false } else {
            let e = entries[idx];
            if !e.own_intersects(d) { false }
            else if e.child_indices@.len() == 0 { true }
            else if e.conjunctive_child_match { spec_all(entries, idx, e.child_indices@.len() as int, d) }
            else { spec_some(entries, idx, e.child_indices@.len() as int, d) }
        })
{ reveal_with_fuel(spec_intersects, 2); reveal_with_fuel(spec_all, 2); reveal_with_fuel(spec_some, 2); }
pub proof fn lemma_unfold_all(entries: Seq<Entry>, idx: int, n: int, d: &SubsetDefinition)
    ensures spec_all(entries, idx, n, d) == (
        if n <= 0 || idx < 0 || idx >= entries.len() || n > entries[idx].child_indices@.len() { true } else {
            let c = entries[idx].child_indices@[n - 1] as int;
            spec_all(entries, idx, n - 1, d) && (c < idx && spec_intersects(entries, c, d))
        })
{ reveal_with_fuel(spec_intersects, 2); reveal_with_fuel(spec_all, 2); reveal_with_fuel(spec_some, 2); }
pub proof fn lemma_unfold_some(entries: Seq<Entry>, idx: int, n: int, d: &SubsetDefinition)
    ensures spec_some(entries, idx, n, d) == (
        if n <= 0 || idx < 0 || idx >= entries.len() || n > entries[idx].child_indices@.len() { false } else {
            let c = entries[idx].child_indices@[n - 1] as int;
            spec_some(entries, idx, n - 1, d) || (c < idx && spec_intersects(entries, c, d))
        })
{ reveal_with_fuel(spec_intersects, 2); reveal_with_fuel(spec_all, 2); reveal_with_fuel(spec_some, 2); }

//@require source=pm seq="struct EntryIntersectionCache<'a> { entries: &'a [Entry], cache: HashMap<usize, bool>, }"
pub struct EntryIntersectionCache<'a> {
    pub entries: &'a [Entry],
    pub cache: HashMap<usize, bool>,
}

// least index holding this entry (entries may contain duplicates)
pub open spec fn idx_of(entries: Seq<Entry>, e: Entry) -> int {
    choose|i: int| 0 <= i < entries.len() && entries[i] == e && forall|j: int| 0 <= j < i ==> entries[j] != e
}
pub proof fn lemma_idx_of(entries: Seq<Entry>, e: Entry, k: int)
    requires 0 <= k < entries.len(), entries[k] == e
    ensures 0 <= idx_of(entries, e) <= k, entries[idx_of(entries, e)] == e
    decreases k
{
    if exists|j: int| 0 <= j < k && entries[j] == e {
        let j = choose|j: int| 0 <= j < k && entries[j] == e;
        lemma_idx_of(entries, e, j);
    } else {
        assert(forall|j: int| 0 <= j < k ==> entries[j] != e);
    }
}
// the spec does not depend on which copy of an entry is looked at
pub proof fn lemma_same_entry_all(ents: Seq<Entry>, i: int, j: int, n: int, d: &SubsetDefinition)
    requires entries_wf(ents), 0 <= i < ents.len(), 0 <= j < ents.len(), ents[i] == ents[j], 0 <= n <= ents[i].child_indices@.len()
    ensures spec_all(ents, i, n, d) == spec_all(ents, j, n, d), spec_some(ents, i, n, d) == spec_some(ents, j, n, d)
    decreases n
{
    lemma_unfold_all(ents, i, n, d); lemma_unfold_all(ents, j, n, d);
    lemma_unfold_some(ents, i, n, d); lemma_unfold_some(ents, j, n, d);
    if n > 0 { lemma_same_entry_all(ents, i, j, n - 1, d); }
}
pub proof fn lemma_same_entry(ents: Seq<Entry>, i: int, j: int, d: &SubsetDefinition)
    requires entries_wf(ents), 0 <= i < ents.len(), 0 <= j < ents.len(), ents[i] == ents[j]
    ensures spec_intersects(ents, i, d) == spec_intersects(ents, j, d)
{
    lemma_unfold_intersects(ents, i, d); lemma_unfold_intersects(ents, j, d);
    lemma_same_entry_all(ents, i, j, ents[i].child_indices@.len() as int, d);
}
pub open spec fn is_entry_of(entries: Seq<Entry>, e: Entry) -> bool {
    exists|i: int| 0 <= i < entries.len() && entries[i] == e
}

impl EntryIntersectionCache<'_> {
    pub open spec fn inv(&self, d: &SubsetDefinition) -> bool {
        entries_wf(self.entries@) &&
        forall|k: usize| #[trigger] self.cache@.dom().contains(k) ==> self.cache@[k] == spec_intersects(self.entries@, k as int, d)
    }

//@extract source=pm container="impl EntryIntersectionCache<'_>" fn=intersects ret=r
//@spec
        requires old(self).inv(subset_definition)
        ensures final(self).inv(subset_definition), final(self).entries == old(self).entries,
            r == spec_intersects(old(self).entries@, index as int, subset_definition)
        decreases index, 2int, 0int
//@at body-start
        proof { lemma_unfold_intersects(self.entries@, index as int, subset_definition); }
//@at before "let result = self.compute_intersection(entry, subset_definition);"
        proof {
            assert(self.entries@[index as int] == *entry);
            assert(is_entry_of(self.entries@, *entry));
            lemma_idx_of(self.entries@, *entry, index as int);
            lemma_same_entry(self.entries@, idx_of(self.entries@, *entry), index as int, subset_definition);
        }
//@end

//@extract source=pm container="impl EntryIntersectionCache<'_>" fn=compute_intersection ret=r
//@spec
        requires old(self).inv(subset_definition), is_entry_of(old(self).entries@, *entry),
        ensures final(self).inv(subset_definition), final(self).entries == old(self).entries,
            r == spec_intersects(old(self).entries@, idx_of(old(self).entries@, *entry), subset_definition)
        decreases idx_of(old(self).entries@, *entry), 1int, 0int
//@at body-start
        proof {
            let k = choose|k: int| 0 <= k < self.entries@.len() && self.entries@[k] == *entry;
            lemma_idx_of(self.entries@, *entry, k);
            lemma_unfold_intersects(self.entries@, idx_of(self.entries@, *entry), subset_definition);
        }
//@end

//@extract source=pm container="impl EntryIntersectionCache<'_>" fn=all_children_intersect ret=r
//@spec
        requires old(self).inv(subset_definition), is_entry_of(old(self).entries@, *entry),
        ensures final(self).inv(subset_definition), final(self).entries == old(self).entries,
            r == spec_all(old(self).entries@, idx_of(old(self).entries@, *entry), entry.child_indices@.len() as int, subset_definition)
        decreases idx_of(old(self).entries@, *entry), 0int, 0int
//@at body-start
        let ghost idx = idx_of(self.entries@, *entry);
        let ghost ents = self.entries@;
        proof {
            let k = choose|k: int| 0 <= k < ents.len() && ents[k] == *entry;
            lemma_idx_of(ents, *entry, k);
            lemma_unfold_all(ents, idx, 0, subset_definition);
        }
//@at after "for child_index in"
it:
//@at loop "for child_index in"
            invariant
                self.inv(subset_definition), self.entries@ == ents, ents == old(self).entries@,
                0 <= idx < ents.len(), ents[idx] == *entry, idx == idx_of(ents, *entry),
                it.seq().len() == entry.child_indices@.len(), forall|j: int| 0 <= j < it.seq().len() ==> *(#[trigger] it.seq()[j]) == entry.child_indices@[j],
                spec_all(ents, idx, it.index@, subset_definition),
//@at loop-body "for child_index in"
            proof {
                assert(*child_index == entry.child_indices@[it.index@]);
                assert((*child_index as int) < idx);
                lemma_unfold_all(ents, idx, it.index@ + 1, subset_definition);
            }
//@at before "return false;"
                proof { assert(!spec_all(ents, idx, it.index@ + 1, subset_definition)); lemma_all_false_extends(ents, idx, it.index@ + 1, entry.child_indices@.len() as int, subset_definition); }
//@end

//@extract source=pm container="impl EntryIntersectionCache<'_>" fn=some_children_intersect ret=r
//@spec
        requires old(self).inv(subset_definition), is_entry_of(old(self).entries@, *entry),
        ensures final(self).inv(subset_definition), final(self).entries == old(self).entries,
            r == spec_some(old(self).entries@, idx_of(old(self).entries@, *entry), entry.child_indices@.len() as int, subset_definition)
        decreases idx_of(old(self).entries@, *entry), 0int, 0int
//@at body-start
        let ghost idx = idx_of(self.entries@, *entry);
        let ghost ents = self.entries@;
        proof {
            let k = choose|k: int| 0 <= k < ents.len() && ents[k] == *entry;
            lemma_idx_of(ents, *entry, k);
            lemma_unfold_some(ents, idx, 0, subset_definition);
        }
//@at after "for child_index in"
it:
//@at loop "for child_index in"
            invariant
                self.inv(subset_definition), self.entries@ == ents, ents == old(self).entries@,
                0 <= idx < ents.len(), ents[idx] == *entry, idx == idx_of(ents, *entry),
                it.seq().len() == entry.child_indices@.len(), forall|j: int| 0 <= j < it.seq().len() ==> *(#[trigger] it.seq()[j]) == entry.child_indices@[j],
                !spec_some(ents, idx, it.index@, subset_definition),
//@at loop-body "for child_index in"
            proof {
                assert(*child_index == entry.child_indices@[it.index@]);
                assert((*child_index as int) < idx);
                lemma_unfold_some(ents, idx, it.index@ + 1, subset_definition);
            }
//@at before "return true;"
                proof { assert(spec_some(ents, idx, it.index@ + 1, subset_definition)); lemma_some_true_extends(ents, idx, it.index@ + 1, entry.child_indices@.len() as int, subset_definition); }
//@end
}

pub proof fn lemma_all_false_extends(ents: Seq<Entry>, idx: int, n: int, m: int, d: &SubsetDefinition)
    requires 0 <= idx < ents.len(), 0 <= n <= m <= ents[idx].child_indices@.len(), !spec_all(ents, idx, n, d)
    ensures !spec_all(ents, idx, m, d)
    decreases m - n
{
    if n < m { lemma_all_false_extends(ents, idx, n, m - 1, d); lemma_unfold_all(ents, idx, m, d); }
}
pub proof fn lemma_some_true_extends(ents: Seq<Entry>, idx: int, n: int, m: int, d: &SubsetDefinition)
    requires 0 <= idx < ents.len(), 0 <= n <= m <= ents[idx].child_indices@.len(), spec_some(ents, idx, n, d)
    ensures spec_some(ents, idx, m, d)
    decreases m - n
{
    if n < m { lemma_some_true_extends(ents, idx, n, m - 1, d); lemma_unfold_some(ents, idx, m, d); }
}

// ---- U19.2: the specification is monotone in the subset definition (a larger definition never loses a patch) ----
// if each entry's own test is monotone from d1 to d2, so is the recursive intersection
pub open spec fn own_monotone(ents: Seq<Entry>, d1: &SubsetDefinition, d2: &SubsetDefinition) -> bool {
    forall|i: int| 0 <= i < ents.len() && (#[trigger] ents[i]).own_intersects(d1) ==> ents[i].own_intersects(d2)
}
pub proof fn lemma_mono_intersects(ents: Seq<Entry>, idx: int, d1: &SubsetDefinition, d2: &SubsetDefinition)
    requires own_monotone(ents, d1, d2), spec_intersects(ents, idx, d1)
    ensures spec_intersects(ents, idx, d2)
    decreases idx, 1int, 0int
{
    lemma_unfold_intersects(ents, idx, d1); lemma_unfold_intersects(ents, idx, d2);
    if 0 <= idx < ents.len() {
        let e = ents[idx];
        let n = e.child_indices@.len() as int;
        if n > 0 {
            if e.conjunctive_child_match { lemma_mono_all(ents, idx, n, d1, d2); } else { lemma_mono_some(ents, idx, n, d1, d2); }
        }
    }
}
pub proof fn lemma_mono_all(ents: Seq<Entry>, idx: int, n: int, d1: &SubsetDefinition, d2: &SubsetDefinition)
    requires own_monotone(ents, d1, d2), spec_all(ents, idx, n, d1), 0 <= idx < ents.len()
    ensures spec_all(ents, idx, n, d2)
    decreases idx, 0int, n
{
    lemma_unfold_all(ents, idx, n, d1); lemma_unfold_all(ents, idx, n, d2);
    if !(n <= 0 || n > ents[idx].child_indices@.len()) {
        let c = ents[idx].child_indices@[n - 1] as int;
        lemma_mono_all(ents, idx, n - 1, d1, d2);
        lemma_mono_intersects(ents, c, d1, d2);
    }
}
pub proof fn lemma_mono_some(ents: Seq<Entry>, idx: int, n: int, d1: &SubsetDefinition, d2: &SubsetDefinition)
    requires own_monotone(ents, d1, d2), spec_some(ents, idx, n, d1), 0 <= idx < ents.len()
    ensures spec_some(ents, idx, n, d2)
    decreases idx, 0int, n
{
    lemma_unfold_some(ents, idx, n, d1); lemma_unfold_some(ents, idx, n, d2);
    if !(n <= 0 || n > ents[idx].child_indices@.len()) {
        let c = ents[idx].child_indices@[n - 1] as int;
        if spec_some(ents, idx, n - 1, d1) { lemma_mono_some(ents, idx, n - 1, d1, d2); }
        else { lemma_mono_intersects(ents, c, d1, d2); }
    }
}

}
fn main() {}
