//@unit U01.12 props=C01,C20,C19 tier=quick
//@source name=ift kind=file path=read-fonts/src/tables/ift.rs
// C01 / C20 (IFT mapping tables are untrusted bytes): FeatureMap::entry_records_size - the up-front size check the format-1 feature
// map intersection relies on - sums entryMapCount * fieldWidth * 2 over the feature records. For ANY records (the record iterator is
// opaque: nothing is assumed about what it yields except that a feature map has at most 65535 records, its count field being a u16)
// the sum cannot overflow (64-bit usize) and an unreadable record is reported as an error. The `for` loop is desugared mechanically.
use vstd::prelude::*;
verus! {
//@prelude std_combinators
global layout usize is size == 8;
#[verifier::external_body] pub struct ReadError { _p: u8 }
#[verifier::external_body] pub struct U8Or16 { _p: u8 }
impl U8Or16 { #[verifier::external_body] pub fn get(&self) -> u16 { unimplemented!() } }
#[verifier::external_body] pub struct FeatureRecord { _p: u8 }
impl FeatureRecord { #[verifier::external_body] pub fn entry_map_count(&self) -> &U8Or16 { unimplemented!() } }
#[verifier::external_body] pub struct RecordIter<'a> { _p: core::marker::PhantomData<&'a u8> }
impl<'a> RecordIter<'a> {
    pub uninterp spec fn remaining(&self) -> nat;
    #[verifier::external_body]
    pub fn next(&mut self) -> (r: Option<Result<&'a FeatureRecord, ReadError>>)
        ensures r is Some ==> old(self).remaining() > 0 && final(self).remaining() == old(self).remaining() - 1,
            r is None ==> final(self).remaining() == old(self).remaining(),
    { unimplemented!() }
}
#[verifier::external_body] pub struct RecordArray<'a> { _p: core::marker::PhantomData<&'a u8> }
impl<'a> RecordArray<'a> {
    // featureCount is a u16
    #[verifier::external_body]
    pub fn iter(&self) -> (r: RecordIter<'a>) ensures r.remaining() <= 0xFFFF { unimplemented!() }
}
#[verifier::external_body] pub struct FeatureMap<'a> { _p: core::marker::PhantomData<&'a u8> }
impl<'a> FeatureMap<'a> {
    #[verifier::external_body] pub fn feature_records(&self) -> RecordArray<'a> { unimplemented!() }
//@extract source=ift container="impl FeatureMap<'_>" fn=entry_records_size ret=r
//@desugarfor nth=0 name=verif_it raw
//@at after "let mut verif_it = self.feature_records().iter();"
        let ghost n0 = verif_it.remaining();
//@at loop "let mut verif_it ="
            invariant n0 <= 0xFFFF, verif_it.remaining() <= n0, field_width == 1 || field_width == 2,
                num_bytes as int <= (n0 - verif_it.remaining()) * 0x3FFFC,
            decreases verif_it.remaining()
//@at after "else { break; };"
            proof {
                assert((n0 - verif_it.remaining()) * 0x3FFFC <= 0xFFFF * 0x3FFFC) by(nonlinear_arith) requires 0 <= n0 - verif_it.remaining() <= 0xFFFF;
                assert((n0 - verif_it.remaining() - 1) * 0x3FFFC + 0x3FFFC == (n0 - verif_it.remaining()) * 0x3FFFC) by(nonlinear_arith);
            }
//@end
}
}
fn main() {}
