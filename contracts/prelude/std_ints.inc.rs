// std integer helpers without a vstd specification in this Verus build (trusted, standard semantics; listed as assumptions)
pub assume_specification[i32::wrapping_abs](x: i32) -> (r: i32)
    ensures r == (if x == i32::MIN { i32::MIN } else if x < 0 { (-x) as i32 } else { x });
pub assume_specification[i32::unsigned_abs](x: i32) -> (r: u32)
    ensures r as int == (if x < 0 { -(x as int) } else { x as int });
pub assume_specification[i64::wrapping_abs](x: i64) -> (r: i64)
    ensures r == (if x == i64::MIN { i64::MIN } else if x < 0 { (-x) as i64 } else { x });
pub assume_specification[i64::unsigned_abs](x: i64) -> (r: u64)
    ensures r as int == (if x < 0 { -(x as int) } else { x as int });
pub assume_specification[i32::abs](x: i32) -> (r: i32)
    requires x != i32::MIN
    ensures r == (if x < 0 { (-x) as i32 } else { x });
