// ---- prelude std_combinators: Option / Result combinators that have no vstd specification in this Verus build.
// Trusted, standard semantics (each is a one-line match in core). They are present so that an edit of an extracted
// function that starts using one of them stays DECIDABLE instead of ending as "unsupported construct".
pub assume_specification<T, P: FnOnce(&T) -> bool>[Option::<T>::filter](o: Option<T>, p: P) -> (r: Option<T>)
    requires o is Some ==> p.requires((&o->Some_0,))
    ensures o is None ==> r is None,
        o is Some ==> ((r is Some ==> r == o && p.ensures((&o->Some_0,), true)) && (r is None ==> p.ensures((&o->Some_0,), false)));
pub assume_specification<T, U, F: FnOnce(T) -> U>[Option::<T>::map_or](o: Option<T>, default: U, f: F) -> (r: U)
    requires o is Some ==> f.requires((o->Some_0,))
    ensures o is None ==> r == default, o is Some ==> f.ensures((o->Some_0,), r);
pub assume_specification<T, U, D: FnOnce() -> U, F: FnOnce(T) -> U>[Option::<T>::map_or_else](o: Option<T>, default: D, f: F) -> (r: U)
    requires o is Some ==> f.requires((o->Some_0,)), o is None ==> default.requires(())
    ensures o is None ==> default.ensures((), r), o is Some ==> f.ensures((o->Some_0,), r);
pub assume_specification<T, F: FnOnce(T) -> bool>[Option::<T>::is_some_and](o: Option<T>, f: F) -> (r: bool)
    requires o is Some ==> f.requires((o->Some_0,))
    ensures o is None ==> !r, o is Some ==> f.ensures((o->Some_0,), r);
pub assume_specification<T, F: FnOnce(T) -> bool>[Option::<T>::is_none_or](o: Option<T>, f: F) -> (r: bool)
    requires o is Some ==> f.requires((o->Some_0,))
    ensures o is None ==> r, o is Some ==> f.ensures((o->Some_0,), r);
pub assume_specification<T, U>[Option::<T>::and](o: Option<T>, b: Option<U>) -> (r: Option<U>)
    ensures r == (if o is Some { b } else { None::<U> });
pub assume_specification<T>[Option::<T>::or](o: Option<T>, b: Option<T>) -> (r: Option<T>)
    ensures r == (if o is Some { o } else { b });
pub assume_specification<T, F: FnOnce() -> Option<T>>[Option::<T>::or_else](o: Option<T>, f: F) -> (r: Option<T>)
    requires o is None ==> f.requires(())
    ensures o is Some ==> r == o, o is None ==> f.ensures((), r);
pub assume_specification<T>[Option::<T>::xor](o: Option<T>, b: Option<T>) -> (r: Option<T>)
    ensures r == (if o is Some && b is None { o } else if o is None && b is Some { b } else { None::<T> });
pub assume_specification<T, U>[Option::<T>::zip](o: Option<T>, b: Option<U>) -> (r: Option<(T, U)>)
    ensures r == (if o is Some && b is Some { Some((o->Some_0, b->Some_0)) } else { None::<(T, U)> });
pub assume_specification<T, E, U, F: FnOnce(T) -> Result<U, E>>[Result::<T, E>::and_then](o: Result<T, E>, f: F) -> (r: Result<U, E>)
    requires o is Ok ==> f.requires((o->Ok_0,))
    ensures o is Err ==> r is Err && r->Err_0 == o->Err_0, o is Ok ==> f.ensures((o->Ok_0,), r);
pub assume_specification<T, E, G, F: FnOnce(E) -> Result<T, G>>[Result::<T, E>::or_else](o: Result<T, E>, f: F) -> (r: Result<T, G>)
    requires o is Err ==> f.requires((o->Err_0,))
    ensures o is Ok ==> r is Ok && r->Ok_0 == o->Ok_0, o is Err ==> f.ensures((o->Err_0,), r);
pub assume_specification<T, E, F: FnOnce(T) -> bool>[Result::<T, E>::is_ok_and](o: Result<T, E>, f: F) -> (r: bool)
    requires o is Ok ==> f.requires((o->Ok_0,))
    ensures o is Err ==> !r, o is Ok ==> f.ensures((o->Ok_0,), r);
pub assume_specification<T, E, F: FnOnce(E) -> bool>[Result::<T, E>::is_err_and](o: Result<T, E>, f: F) -> (r: bool)
    requires o is Err ==> f.requires((o->Err_0,))
    ensures o is Ok ==> !r, o is Err ==> f.ensures((o->Err_0,), r);
pub assume_specification<T, E, U, F: FnOnce(T) -> U>[Result::<T, E>::map_or](o: Result<T, E>, default: U, f: F) -> (r: U)
    requires o is Ok ==> f.requires((o->Ok_0,))
    ensures o is Err ==> r == default, o is Ok ==> f.ensures((o->Ok_0,), r);
pub assume_specification<T, E>[Result::<T, E>::unwrap_or](o: Result<T, E>, default: T) -> (r: T)
    ensures r == (if o is Ok { o->Ok_0 } else { default });
pub assume_specification<T, E, F: FnOnce(E) -> T>[Result::<T, E>::unwrap_or_else](o: Result<T, E>, f: F) -> (r: T)
    requires o is Err ==> f.requires((o->Err_0,))
    ensures o is Ok ==> r == o->Ok_0, o is Err ==> f.ensures((o->Err_0,), r);
pub assume_specification<'a, T: Copy>[Option::<&'a T>::copied](o: Option<&'a T>) -> (r: Option<T>)
    ensures r == (match o { Some(x) => Some(*x), None => None::<T> });
// ---- end prelude std_combinators
