//@unit U15.7 props=C15,C11,C10,C20 tier=quick
//@source name=fixed kind=expanded crate=font-types
//@source name=fvar kind=file path=read-fonts/src/tables/fvar.rs
// Fixed::div and Fixed::mul_div (and the F26Dot6 instances of the same macro body): the result is the
// exactly computed quotient rounded to nearest, ties away from zero, whenever it is representable;
// division by zero saturates to +-0x7FFFFFFF. Bodies are copied from rustc's expansion of font-types.
use vstd::prelude::*;
use vstd::std_specs::cmp::*;
use core::cmp::Ordering;
verus! {
//@prelude std_combinators
//@prelude std_ints

// q is n/d rounded to nearest, ties away from zero (n >= 0, d > 0), stated without division
pub open spec fn is_rha_nonneg(n: int, d: int, q: int) -> bool {
    2 * q * d <= 2 * n + d && 2 * n + d < 2 * (q + 1) * d
}
pub open spec fn abs(x: int) -> int { if x < 0 { -x } else { x } }
// the rounded quotient |n|/|d| fits an i32 magnitude
pub open spec fn representable(n: int, d: int) -> bool { 2 * n + d < 2 * 0x80000000 * d }
// std: i32::wrapping_neg has no vstd specification in this Verus build (trusted, standard two's-complement semantics)
pub open spec fn wneg(x: i32) -> i32 { if x == i32::MIN { i32::MIN } else { (-(x as int)) as i32 } }
pub assume_specification [i32::wrapping_neg] (x: i32) -> (r: i32)
    ensures r == wneg(x);



// (n + d/2) / d is n/d rounded half away from zero (n >= 0, d > 0)
pub proof fn lemma_round_div(n: int, d: int)
    requires n >= 0, d > 0
    ensures
        is_rha_nonneg(n, d, (n + d / 2) / d),
        (n + d / 2) / d >= 0,
        representable(n, d) ==> (n + d / 2) / d < 0x80000000,
{
    let x = n + d / 2;
    let q = x / d;
    assert(x == d * q + x % d && 0 <= x % d < d) by(nonlinear_arith) requires d > 0, q == x / d;
    assert(2 * q * d <= 2 * n + d && 2 * n + d < 2 * (q + 1) * d) by(nonlinear_arith)
        requires x == d * q + x % d, 0 <= x % d < d, x == n + d / 2, d > 0;
    assert(representable(n, d) ==> q < 0x80000000) by(nonlinear_arith)
        requires 2 * q * d <= 2 * n + d, d > 0;
    assert(q >= 0) by(nonlinear_arith) requires 2 * n + d < 2 * (q + 1) * d, n >= 0, d > 0;
}
pub proof fn lemma_div_corollaries(a: int, d: int)
    requires a >= 0, d > 0
    ensures
        a <= d ==> (a * 65536 + d / 2) / d <= 65536 && representable(a * 65536, d),
        a == d ==> (a * 65536 + d / 2) / d == 65536,
        a == 0 ==> (a * 65536 + d / 2) / d == 0,
{
    let n = a * 65536;
    let q = (n + d / 2) / d;
    lemma_round_div(n, d);
    assert(a <= d ==> q <= 65536 && representable(n, d)) by(nonlinear_arith)
        requires 2 * q * d <= 2 * n + d, n == a * 65536, d > 0, a >= 0;
    assert(a == d ==> q == 65536) by(nonlinear_arith)
        requires 2 * q * d <= 2 * n + d, 2 * n + d < 2 * (q + 1) * d, n == a * 65536, d > 0;
    assert(a == 0 ==> q == 0) by(nonlinear_arith)
        requires 2 * q * d <= 2 * n + d, 2 * n + d < 2 * (q + 1) * d, n == a * 65536, d > 0, q >= 0;
}

//@require source=fixed seq="pub struct Fixed(i32);"
#[derive(Copy, Clone)]
pub struct Fixed(pub i32);
//@require source=fixed seq="pub struct F26Dot6(i32);"
#[derive(Copy, Clone)]
pub struct F26Dot6(pub i32);

impl vstd::std_specs::ops::DivSpecImpl<Fixed> for Fixed {
    open spec fn obeys_div_spec() -> bool { false }
    open spec fn div_req(self, rhs: Fixed) -> bool { true } // no precondition
    uninterp spec fn div_spec(self, rhs: Fixed) -> Fixed;
}
impl core::ops::Div for Fixed {
    type Output = Self;
//@extract source=fixed container="mod fixed||impl Div for Fixed" fn=div ret=r
//@spec
        // no precondition: total and overflow-free for every pair of operands (incl. i32::MIN)
        ensures
            other.0 == 0 ==> r.0 == (if self.0 < 0 { -0x7FFFFFFFi32 } else { 0x7FFFFFFFi32 }),
            // whenever the exact quotient rounded half away from zero is representable, that is the result
            other.0 != 0 && representable(abs(self.0 as int) * 65536, abs(other.0 as int))
                ==> is_rha_nonneg(abs(self.0 as int) * 65536, abs(other.0 as int),
                    if (self.0 < 0) != (other.0 < 0) { -(r.0 as int) } else { r.0 as int }),
            // corollaries used by callers (fvar normalisation)
            other.0 != 0 && abs(self.0 as int) <= abs(other.0 as int) ==> -65536 <= r.0 <= 65536,
            other.0 != 0 && self.0 == other.0 ==> r.0 == 65536,
            other.0 != 0 && self.0 != i32::MIN && self.0 == -other.0 ==> r.0 == -65536,
            other.0 != 0 && self.0 == 0 ==> r.0 == 0,
            other.0 != 0 && abs(self.0 as int) <= abs(other.0 as int) && ((self.0 < 0) == (other.0 < 0)) ==> r.0 >= 0,
            other.0 != 0 && abs(self.0 as int) <= abs(other.0 as int) && ((self.0 < 0) != (other.0 < 0)) ==> r.0 <= 0,
//@at before "let q ="
        proof {
            let x = self.0; let y = other.0;
            assert(x < 0 && x != i32::MIN ==> ((-x) as u32) as int == -(x as int)) by(bit_vector);
            assert(y < 0 && y != i32::MIN ==> ((-y) as u32) as int == -(y as int)) by(bit_vector);
            assert(x >= 0 ==> (x as u32) as int == x as int) by(bit_vector);
            assert(y >= 0 ==> (y as u32) as int == y as int) by(bit_vector);
            assert((i32::MIN as u32) as int == 0x80000000) by(bit_vector);
            assert((a as u32) as int == abs(self.0 as int));
            assert((b as u32) as int == abs(other.0 as int));
        }
//@at after "let (a, b) = (a as u32 as u64, b as u32 as u64);"
                proof {
                    assert(a << 16 == a * 65536) by(bit_vector) requires a <= 0x80000000u64;
                    assert(b >> 1 == b / 2) by(bit_vector);
                    lemma_round_div(a as int * 65536, b as int);
                    lemma_div_corollaries(a as int, b as int);
                }
//@end
}
impl Fixed {
//@extract source=fixed container="mod fixed||impl Fixed" fn=mul_div ret=r
//@spec
        // no precondition: total and overflow-free for every triple of operands
        ensures
            b.0 == 0 ==> r.0 == (if (self.0 < 0) != (a.0 < 0) { -0x7FFFFFFFi32 } else { 0x7FFFFFFFi32 }),
            b.0 != 0 && representable(abs(self.0 as int) * abs(a.0 as int), abs(b.0 as int))
                ==> is_rha_nonneg(abs(self.0 as int) * abs(a.0 as int), abs(b.0 as int),
                    if ((self.0 < 0) != (a.0 < 0)) != (b.0 < 0) { -(r.0 as int) } else { r.0 as int }),
//@at body-start
        proof {
            let x = self.0; let y = a.0; let z = b.0;
            assert(x >= 0 ==> x as u64 == x as u32 as u64 && (x as u64) < 0x8000_0000u64) by(bit_vector);
            assert(y >= 0 ==> (y as u64) < 0x8000_0000u64) by(bit_vector);
            assert(z >= 0 ==> (z as u64) < 0x8000_0000u64) by(bit_vector);
            assert(x < 0 ==> 0u64.wrapping_sub(x as u64) == (-(x as i64)) as u64 && 0u64.wrapping_sub(x as u64) <= 0x8000_0000u64) by(bit_vector);
            assert(y < 0 ==> 0u64.wrapping_sub(y as u64) == (-(y as i64)) as u64 && 0u64.wrapping_sub(y as u64) <= 0x8000_0000u64) by(bit_vector);
            assert(z < 0 ==> 0u64.wrapping_sub(z as u64) == (-(z as i64)) as u64 && 0u64.wrapping_sub(z as u64) <= 0x8000_0000u64) by(bit_vector);
            // facts about the operands only (they hold whatever the body does): keep sign-by-xor / widen-then-abs variants provable
            assert(((x ^ y ^ z) < 0) == (((x < 0) != (y < 0)) != (z < 0))) by(bit_vector);
            assert(((x ^ y) < 0) == ((x < 0) != (y < 0))) by(bit_vector);
            assert((x as i64) as int == x as int && (y as i64) as int == y as int && (z as i64) as int == z as int);
        }
//@at before "let result ="
        assert(su as int == abs(self.0 as int));
        assert(au as int == abs(a.0 as int));
        assert(bu as int == abs(b.0 as int));
//@at before "su.wrapping_mul(au)"
            proof {
                let n = su as int * au as int;
                assert(0 <= n <= 0x4000_0000_0000_0000) by(nonlinear_arith)
                    requires n == su as int * au as int, 0 <= su as int <= 0x8000_0000, 0 <= au as int <= 0x8000_0000;
                assert(bu >> 1 == bu / 2) by(bit_vector);
                lemma_round_div(n, bu as int);
            }
//@end
}

// same macro body instantiated for F26Dot6 (FT_DivFix / FT_MulDiv semantics: the factor is 2^16)
impl vstd::std_specs::ops::DivSpecImpl<F26Dot6> for F26Dot6 {
    open spec fn obeys_div_spec() -> bool { false }
    open spec fn div_req(self, rhs: F26Dot6) -> bool { true } // no precondition
    uninterp spec fn div_spec(self, rhs: F26Dot6) -> F26Dot6;
}
impl core::ops::Div for F26Dot6 {
    type Output = Self;
//@extract source=fixed container="mod fixed||impl Div for F26Dot6" fn=div ret=r
//@spec
        // no precondition: total and overflow-free for every pair of operands (incl. i32::MIN)
        ensures
            other.0 == 0 ==> r.0 == (if self.0 < 0 { -0x7FFFFFFFi32 } else { 0x7FFFFFFFi32 }),
            // whenever the exact quotient rounded half away from zero is representable, that is the result
            other.0 != 0 && representable(abs(self.0 as int) * 65536, abs(other.0 as int))
                ==> is_rha_nonneg(abs(self.0 as int) * 65536, abs(other.0 as int),
                    if (self.0 < 0) != (other.0 < 0) { -(r.0 as int) } else { r.0 as int }),
            // corollaries used by callers (fvar normalisation)
            other.0 != 0 && abs(self.0 as int) <= abs(other.0 as int) ==> -65536 <= r.0 <= 65536,
            other.0 != 0 && self.0 == other.0 ==> r.0 == 65536,
            other.0 != 0 && self.0 != i32::MIN && self.0 == -other.0 ==> r.0 == -65536,
            other.0 != 0 && self.0 == 0 ==> r.0 == 0,
            other.0 != 0 && abs(self.0 as int) <= abs(other.0 as int) && ((self.0 < 0) == (other.0 < 0)) ==> r.0 >= 0,
            other.0 != 0 && abs(self.0 as int) <= abs(other.0 as int) && ((self.0 < 0) != (other.0 < 0)) ==> r.0 <= 0,
//@at before "let q ="
        proof {
            let x = self.0; let y = other.0;
            assert(x < 0 && x != i32::MIN ==> ((-x) as u32) as int == -(x as int)) by(bit_vector);
            assert(y < 0 && y != i32::MIN ==> ((-y) as u32) as int == -(y as int)) by(bit_vector);
            assert(x >= 0 ==> (x as u32) as int == x as int) by(bit_vector);
            assert(y >= 0 ==> (y as u32) as int == y as int) by(bit_vector);
            assert((i32::MIN as u32) as int == 0x80000000) by(bit_vector);
            assert((a as u32) as int == abs(self.0 as int));
            assert((b as u32) as int == abs(other.0 as int));
        }
//@at after "let (a, b) = (a as u32 as u64, b as u32 as u64);"
                proof {
                    assert(a << 16 == a * 65536) by(bit_vector) requires a <= 0x80000000u64;
                    assert(b >> 1 == b / 2) by(bit_vector);
                    lemma_round_div(a as int * 65536, b as int);
                    lemma_div_corollaries(a as int, b as int);
                }
//@end
}
impl F26Dot6 {
//@extract source=fixed container="mod fixed||impl F26Dot6" fn=mul_div ret=r
//@spec
        // no precondition: total and overflow-free for every triple of operands
        ensures
            b.0 == 0 ==> r.0 == (if (self.0 < 0) != (a.0 < 0) { -0x7FFFFFFFi32 } else { 0x7FFFFFFFi32 }),
            b.0 != 0 && representable(abs(self.0 as int) * abs(a.0 as int), abs(b.0 as int))
                ==> is_rha_nonneg(abs(self.0 as int) * abs(a.0 as int), abs(b.0 as int),
                    if ((self.0 < 0) != (a.0 < 0)) != (b.0 < 0) { -(r.0 as int) } else { r.0 as int }),
//@at body-start
        proof {
            let x = self.0; let y = a.0; let z = b.0;
            assert(x >= 0 ==> x as u64 == x as u32 as u64 && (x as u64) < 0x8000_0000u64) by(bit_vector);
            assert(y >= 0 ==> (y as u64) < 0x8000_0000u64) by(bit_vector);
            assert(z >= 0 ==> (z as u64) < 0x8000_0000u64) by(bit_vector);
            assert(x < 0 ==> 0u64.wrapping_sub(x as u64) == (-(x as i64)) as u64 && 0u64.wrapping_sub(x as u64) <= 0x8000_0000u64) by(bit_vector);
            assert(y < 0 ==> 0u64.wrapping_sub(y as u64) == (-(y as i64)) as u64 && 0u64.wrapping_sub(y as u64) <= 0x8000_0000u64) by(bit_vector);
            assert(z < 0 ==> 0u64.wrapping_sub(z as u64) == (-(z as i64)) as u64 && 0u64.wrapping_sub(z as u64) <= 0x8000_0000u64) by(bit_vector);
            // facts about the operands only (they hold whatever the body does): keep sign-by-xor / widen-then-abs variants provable
            assert(((x ^ y ^ z) < 0) == (((x < 0) != (y < 0)) != (z < 0))) by(bit_vector);
            assert(((x ^ y) < 0) == ((x < 0) != (y < 0))) by(bit_vector);
            assert((x as i64) as int == x as int && (y as i64) as int == y as int && (z as i64) as int == z as int);
        }
//@at before "let result ="
        assert(su as int == abs(self.0 as int));
        assert(au as int == abs(a.0 as int));
        assert(bu as int == abs(b.0 as int));
//@at before "su.wrapping_mul(au)"
            proof {
                let n = su as int * au as int;
                assert(0 <= n <= 0x4000_0000_0000_0000) by(nonlinear_arith)
                    requires n == su as int * au as int, 0 <= su as int <= 0x8000_0000, 0 <= au as int <= 0x8000_0000;
                assert(bu >> 1 == bu / 2) by(bit_vector);
                lemma_round_div(n, bu as int);
            }
//@end
}

// ---------------------------------------------------------------------------------------------
// C11: VariationAxisRecord::normalize on top of the contracts above (real text of read-fonts/src/tables/fvar.rs).
// Needs the derived ordering of Fixed (rustc's expansion of the derive), saturating_sub and Neg.
pub assume_specification[ i32::saturating_sub ](a: i32, b: i32) -> (r: i32)
    ensures r as int == (if a - b > 0x7FFF_FFFF { 0x7FFF_FFFFint } else if a - b < -0x8000_0000 { -0x8000_0000int } else { a - b });

impl ::core::cmp::PartialEq for Fixed {
//@extract source=fixed container="mod fixed||impl ::core::cmp::PartialEq for Fixed" fn=eq
//@end
}
impl ::core::cmp::Eq for Fixed {}
impl ::core::cmp::PartialOrd for Fixed {
//@extract source=fixed container="mod fixed||impl ::core::cmp::PartialOrd for Fixed" fn=partial_cmp
//@end
}
impl ::core::cmp::Ord for Fixed {
//@extract source=fixed container="mod fixed||impl ::core::cmp::Ord for Fixed" fn=cmp
//@end
}
// ordering of Fixed == ordering of the raw bits (these SpecImpls are checked against the derived bodies above)
impl PartialEqSpecImpl for Fixed {
    open spec fn obeys_eq_spec() -> bool { true }
    open spec fn eq_spec(&self, other: &Fixed) -> bool { self.0 == other.0 }
}
impl PartialOrdSpecImpl for Fixed {
    open spec fn obeys_partial_cmp_spec() -> bool { true }
    open spec fn partial_cmp_spec(&self, other: &Fixed) -> Option<Ordering> { if self.0 < other.0 { Some(Ordering::Less) } else if self.0 == other.0 { Some(Ordering::Equal) } else { Some(Ordering::Greater) } }
}
impl OrdSpecImpl for Fixed {
    open spec fn obeys_cmp_spec() -> bool { true }
    open spec fn cmp_spec(&self, other: &Fixed) -> Ordering { if self.0 < other.0 { Ordering::Less } else if self.0 == other.0 { Ordering::Equal } else { Ordering::Greater } }
}
impl vstd::std_specs::ops::NegSpecImpl for Fixed {
    open spec fn obeys_neg_spec() -> bool { false }
    open spec fn neg_req(self) -> bool { self.0 != i32::MIN } // Neg is a plain unary minus on the raw value
    uninterp spec fn neg_spec(self) -> Fixed;
}
impl core::ops::Neg for Fixed {
    type Output = Self;
//@extract source=fixed container="mod fixed||impl Neg for Fixed" fn=neg ret=r
//@spec
        ensures r.0 == -self.0
//@end
}
impl Fixed {
    pub const ZERO: Self = Self(0);
    pub const ONE: Self = Self(1 << 16);
//@extract source=fixed container="mod fixed||impl Fixed" fn=saturating_sub ret=r
//@spec
        ensures r.0 as int == (if self.0 - other.0 > 0x7FFF_FFFF { 0x7FFF_FFFFint } else if self.0 - other.0 < -0x8000_0000 { -0x8000_0000int } else { self.0 - other.0 })
//@end
}

pub open spec fn ssub(a: int, b: int) -> int { if a - b > 0x7FFF_FFFF { 0x7FFF_FFFF } else if a - b < -0x8000_0000 { -0x8000_0000 } else { a - b } }
pub open spec fn clampi(v: int, lo: int, hi: int) -> int { if v < lo { lo } else if v > hi { hi } else { v } }
// the functional content of normalize for a consistent axis record (min <= default <= max)
pub open spec fn norm_post(min: int, def: int, max: int, value: int, r: int) -> bool {
    min <= def <= max ==> ({
        let v = clampi(value, min, max);
        &&& (v < def ==> -65536 <= r <= 0 && is_rha_nonneg(ssub(def, v) * 65536, ssub(def, min), -r))
        &&& (v > def ==> 0 <= r <= 65536 && is_rha_nonneg(ssub(v, def) * 65536, ssub(max, def), r))
        &&& (v == def ==> r == 0)
    })
}
pub proof fn lemma_rha_monotone(n1: int, n2: int, d: int, q1: int, q2: int)
    requires d > 0, n1 <= n2, is_rha_nonneg(n1, d, q1), is_rha_nonneg(n2, d, q2)
    ensures q1 <= q2
{
    assert(q1 < q2 + 1) by(nonlinear_arith)
        requires d > 0, 2 * q1 * d <= 2 * n1 + d, n1 <= n2, 2 * n2 + d < 2 * (q2 + 1) * d;
}
// C11: "the mapping is monotone"
pub proof fn lemma_normalize_monotone(min: int, def: int, max: int, x: int, y: int, rx: int, ry: int)
    requires min <= def <= max, x <= y, norm_post(min, def, max, x, rx), norm_post(min, def, max, y, ry),
        -0x8000_0000 <= min, max <= 0x7FFF_FFFF,
    ensures rx <= ry
{
    let vx = clampi(x, min, max);
    let vy = clampi(y, min, max);
    assert(vx <= vy);
    if vx < def && vy < def {
        let d = ssub(def, min);
        assert(d > 0);
        assert(ssub(def, vy) <= ssub(def, vx));
        assert(ssub(def, vy) * 65536 <= ssub(def, vx) * 65536);
        lemma_rha_monotone(ssub(def, vy) * 65536, ssub(def, vx) * 65536, d, -ry, -rx);
    } else if vx > def && vy > def {
        let d = ssub(max, def);
        assert(d > 0);
        assert(ssub(vx, def) * 65536 <= ssub(vy, def) * 65536);
        lemma_rha_monotone(ssub(vx, def) * 65536, ssub(vy, def) * 65536, d, rx, ry);
    }
}

// the three fixed-point fields of an fvar axis record (the generated big-endian getters are replaced by plain fields)
//@require source=fvar seq="impl VariationAxisRecord {"
pub struct VariationAxisRecord { pub min: Fixed, pub def: Fixed, pub max: Fixed }
impl VariationAxisRecord {
    fn min_value(&self) -> (r: Fixed) ensures r == self.min { self.min }
    fn default_value(&self) -> (r: Fixed) ensures r == self.def { self.def }
    fn max_value(&self) -> (r: Fixed) ensures r == self.max { self.max }

//@extract source=fvar container="impl VariationAxisRecord" fn=normalize ret=r
//@spec
        // total for EVERY record (also inconsistent ones) and every user value
        ensures
            -65536 <= r.0 <= 65536,
            (self.min.0 <= self.def.0 <= self.max.0 && value.0 == self.def.0) ==> r.0 == 0,
            (self.min.0 < self.def.0 <= self.max.0 && value.0 <= self.min.0) ==> r.0 == -65536,
            (self.min.0 <= self.def.0 < self.max.0 && value.0 >= self.max.0) ==> r.0 == 65536,
            // sign: below default is never positive, above default never negative
            (self.min.0 <= self.def.0 <= self.max.0 && value.0 <= self.def.0) ==> r.0 <= 0,
            (self.min.0 <= self.def.0 <= self.max.0 && value.0 >= self.def.0) ==> r.0 >= 0,
            // the full functional content for consistent records (used by lemma_normalize_monotone: the mapping is monotone)
            norm_post(self.min.0 as int, self.def.0 as int, self.max.0 as int, value.0 as int, r.0 as int),
//@at body-start
        proof { assert(1i32 << 16 == 65536i32) by(bit_vector); }
//@at before "-((default_value.saturating_sub(value))"
                proof {
                    let a = ssub(default_value.0 as int, value.0 as int); let b = ssub(default_value.0 as int, min_value.0 as int);
                    assert(0 < a <= b);
                    lemma_div_corollaries(a, b);
                }
//@at before "(value.saturating_sub(default_value)) / (max_value"
                proof {
                    let a = ssub(value.0 as int, default_value.0 as int); let b = ssub(max_value.0 as int, default_value.0 as int);
                    assert(0 < a <= b);
                    lemma_div_corollaries(a, b);
                }
//@end
}

}
fn main() {}
