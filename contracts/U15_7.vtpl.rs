//@unit U15.7 props=C15,C11,C10,C20 tier=quick
//@source name=fixed kind=expanded crate=font-types
// Fixed::div and Fixed::mul_div (and the F26Dot6 instances of the same macro body): the result is the
// exactly computed quotient rounded to nearest, ties away from zero, whenever it is representable;
// division by zero saturates to +-0x7FFFFFFF. Bodies are copied from rustc's expansion of font-types.
use vstd::prelude::*;
verus! {

// q is n/d rounded to nearest, ties away from zero (n >= 0, d > 0), stated without division
pub open spec fn is_rha_nonneg(n: int, d: int, q: int) -> bool {
    2 * q * d <= 2 * n + d && 2 * n + d < 2 * (q + 1) * d
}
pub open spec fn abs(x: int) -> int { if x < 0 { -x } else { x } }
// the rounded quotient |n|/|d| fits an i32 magnitude
pub open spec fn representable(n: int, d: int) -> bool { 2 * n + d < 2 * 0x80000000 * d }
// std: i32::wrapping_neg has no vstd specification in this Verus build (trusted, standard two's-complement semantics)
pub open spec fn wneg(x: i32) -> i32 { if x == i32::MIN { i32::MIN } else { (-(x as int)) as i32 } }
pub assume_specification [i32::wrapping_neg] (x: i32) -> (r: i32)
    ensures r == wneg(x);


//@require source=fixed seq="pub struct Fixed(i32);"
pub struct Fixed(pub i32);
//@require source=fixed seq="pub struct F26Dot6(i32);"
pub struct F26Dot6(pub i32);

impl Fixed {
//@extract source=fixed container="mod fixed||impl Div for Fixed" fn=div ret=r
//@rewrite "Self::Output" => "Self"
//@spec
        // no precondition: total and overflow-free for every pair of operands (incl. i32::MIN)
        ensures
            other.0 == 0 ==> r.0 == (if self.0 < 0 { -0x7FFFFFFFi32 } else { 0x7FFFFFFFi32 }),
            // whenever the exact quotient rounded half away from zero is representable, that is the result
            other.0 != 0 && representable(abs(self.0 as int) * 65536, abs(other.0 as int))
                ==> is_rha_nonneg(abs(self.0 as int) * 65536, abs(other.0 as int),
                    if (self.0 < 0) != (other.0 < 0) { -(r.0 as int) } else { r.0 as int }),
            // corollaries used by callers (fvar normalisation)
            other.0 != 0 && abs(self.0 as int) <= abs(other.0 as int) ==> -65536 <= r.0 <= 65536,
            other.0 != 0 && self.0 == other.0 ==> r.0 == 65536,
            other.0 != 0 && self.0 != i32::MIN && self.0 == -other.0 ==> r.0 == -65536,
            other.0 != 0 && self.0 == 0 ==> r.0 == 0,
            other.0 != 0 && abs(self.0 as int) <= abs(other.0 as int) && ((self.0 < 0) == (other.0 < 0)) ==> r.0 >= 0,
            other.0 != 0 && abs(self.0 as int) <= abs(other.0 as int) && ((self.0 < 0) != (other.0 < 0)) ==> r.0 <= 0,
//@at before "let q ="
        proof {
            let x = self.0; let y = other.0;
            assert(x < 0 && x != i32::MIN ==> ((-x) as u32) as int == -(x as int)) by(bit_vector);
            assert(y < 0 && y != i32::MIN ==> ((-y) as u32) as int == -(y as int)) by(bit_vector);
            assert(x >= 0 ==> (x as u32) as int == x as int) by(bit_vector);
            assert(y >= 0 ==> (y as u32) as int == y as int) by(bit_vector);
            assert((i32::MIN as u32) as int == 0x80000000) by(bit_vector);
            assert((a as u32) as int == abs(self.0 as int));
            assert((b as u32) as int == abs(other.0 as int));
        }
//@at after "let (a, b) = (a as u32 as u64, b as u32 as u64);"
                proof {
                    assert(a << 16 == a * 65536) by(bit_vector) requires a <= 0x80000000u64;
                    assert(b >> 1 == b / 2) by(bit_vector);
                    let n = a as int * 65536;
                    let bi = b as int;
                    let x = n + bi / 2;
                    let qi = x / bi;
                    assert(x == bi * qi + x % bi && 0 <= x % bi < bi) by(nonlinear_arith) requires bi > 0, qi == x / bi;
                    assert(2 * qi * bi <= 2 * n + bi && 2 * n + bi < 2 * (qi + 1) * bi) by(nonlinear_arith)
                        requires x == bi * qi + x % bi, 0 <= x % bi < bi, x == n + bi / 2, bi > 0;
                    assert(representable(n, bi) ==> qi < 0x80000000) by(nonlinear_arith)
                        requires 2 * qi * bi <= 2 * n + bi, bi > 0;
                    assert(qi >= 0) by(nonlinear_arith) requires 2 * n + bi < 2 * (qi + 1) * bi, n >= 0, bi > 0;
                    // corollaries
                    assert(a as int <= bi ==> qi <= 65536 && representable(n, bi)) by(nonlinear_arith)
                        requires 2 * qi * bi <= 2 * n + bi, n == a as int * 65536, bi > 0, a >= 0;
                    assert(a as int == bi ==> qi == 65536) by(nonlinear_arith)
                        requires 2 * qi * bi <= 2 * n + bi, 2 * n + bi < 2 * (qi + 1) * bi, n == a as int * 65536, bi > 0;
                    assert(a == 0 ==> qi == 0) by(nonlinear_arith)
                        requires 2 * qi * bi <= 2 * n + bi, 2 * n + bi < 2 * (qi + 1) * bi, n == a as int * 65536, bi > 0, qi >= 0;
                }
//@end
//@extract source=fixed container="mod fixed||impl Fixed" fn=mul_div ret=r
//@spec
        // no precondition: total and overflow-free for every triple of operands
        ensures
            b.0 == 0 ==> r.0 == (if (self.0 < 0) != (a.0 < 0) { -0x7FFFFFFFi32 } else { 0x7FFFFFFFi32 }),
            b.0 != 0 && representable(abs(self.0 as int) * abs(a.0 as int), abs(b.0 as int))
                ==> is_rha_nonneg(abs(self.0 as int) * abs(a.0 as int), abs(b.0 as int),
                    if ((self.0 < 0) != (a.0 < 0)) != (b.0 < 0) { -(r.0 as int) } else { r.0 as int }),
//@at before "if self.0 < 0"
        proof {
            let x = self.0; let y = a.0; let z = b.0;
            assert(x >= 0 ==> x as u64 == x as u32 as u64 && (x as u64) < 0x8000_0000u64) by(bit_vector);
            assert(y >= 0 ==> (y as u64) < 0x8000_0000u64) by(bit_vector);
            assert(z >= 0 ==> (z as u64) < 0x8000_0000u64) by(bit_vector);
            assert(x < 0 ==> 0u64.wrapping_sub(x as u64) == (-(x as i64)) as u64 && 0u64.wrapping_sub(x as u64) <= 0x8000_0000u64) by(bit_vector);
            assert(y < 0 ==> 0u64.wrapping_sub(y as u64) == (-(y as i64)) as u64 && 0u64.wrapping_sub(y as u64) <= 0x8000_0000u64) by(bit_vector);
            assert(z < 0 ==> 0u64.wrapping_sub(z as u64) == (-(z as i64)) as u64 && 0u64.wrapping_sub(z as u64) <= 0x8000_0000u64) by(bit_vector);
        }
//@at before "let result ="
        assert(su as int == abs(self.0 as int));
        assert(au as int == abs(a.0 as int));
        assert(bu as int == abs(b.0 as int));
//@at before "su.wrapping_mul(au)"
            proof {
                let n = su as int * au as int;
                let bi = bu as int;
                assert(0 <= n <= 0x4000_0000_0000_0000) by(nonlinear_arith)
                    requires n == su as int * au as int, 0 <= su as int <= 0x8000_0000, 0 <= au as int <= 0x8000_0000;
                assert(bu >> 1 == bu / 2) by(bit_vector);
                let x = n + bi / 2;
                let qi = x / bi;
                assert(x == bi * qi + x % bi && 0 <= x % bi < bi) by(nonlinear_arith) requires bi > 0, qi == x / bi;
                assert(2 * qi * bi <= 2 * n + bi && 2 * n + bi < 2 * (qi + 1) * bi) by(nonlinear_arith)
                    requires x == bi * qi + x % bi, 0 <= x % bi < bi, x == n + bi / 2, bi > 0;
                assert(representable(n, bi) ==> qi < 0x80000000) by(nonlinear_arith)
                    requires 2 * qi * bi <= 2 * n + bi, bi > 0;
                assert(qi >= 0) by(nonlinear_arith) requires 2 * n + bi < 2 * (qi + 1) * bi, n >= 0, bi > 0;
            }
//@end
}

// same macro body instantiated for F26Dot6 (FT_DivFix / FT_MulDiv semantics: the factor is 2^16)
impl F26Dot6 {
//@extract source=fixed container="mod fixed||impl Div for F26Dot6" fn=div ret=r
//@rewrite "Self::Output" => "Self"
//@spec
        // no precondition: total and overflow-free for every pair of operands (incl. i32::MIN)
        ensures
            other.0 == 0 ==> r.0 == (if self.0 < 0 { -0x7FFFFFFFi32 } else { 0x7FFFFFFFi32 }),
            // whenever the exact quotient rounded half away from zero is representable, that is the result
            other.0 != 0 && representable(abs(self.0 as int) * 65536, abs(other.0 as int))
                ==> is_rha_nonneg(abs(self.0 as int) * 65536, abs(other.0 as int),
                    if (self.0 < 0) != (other.0 < 0) { -(r.0 as int) } else { r.0 as int }),
            // corollaries used by callers (fvar normalisation)
            other.0 != 0 && abs(self.0 as int) <= abs(other.0 as int) ==> -65536 <= r.0 <= 65536,
            other.0 != 0 && self.0 == other.0 ==> r.0 == 65536,
            other.0 != 0 && self.0 != i32::MIN && self.0 == -other.0 ==> r.0 == -65536,
            other.0 != 0 && self.0 == 0 ==> r.0 == 0,
            other.0 != 0 && abs(self.0 as int) <= abs(other.0 as int) && ((self.0 < 0) == (other.0 < 0)) ==> r.0 >= 0,
            other.0 != 0 && abs(self.0 as int) <= abs(other.0 as int) && ((self.0 < 0) != (other.0 < 0)) ==> r.0 <= 0,
//@at before "let q ="
        proof {
            let x = self.0; let y = other.0;
            assert(x < 0 && x != i32::MIN ==> ((-x) as u32) as int == -(x as int)) by(bit_vector);
            assert(y < 0 && y != i32::MIN ==> ((-y) as u32) as int == -(y as int)) by(bit_vector);
            assert(x >= 0 ==> (x as u32) as int == x as int) by(bit_vector);
            assert(y >= 0 ==> (y as u32) as int == y as int) by(bit_vector);
            assert((i32::MIN as u32) as int == 0x80000000) by(bit_vector);
            assert((a as u32) as int == abs(self.0 as int));
            assert((b as u32) as int == abs(other.0 as int));
        }
//@at after "let (a, b) = (a as u32 as u64, b as u32 as u64);"
                proof {
                    assert(a << 16 == a * 65536) by(bit_vector) requires a <= 0x80000000u64;
                    assert(b >> 1 == b / 2) by(bit_vector);
                    let n = a as int * 65536;
                    let bi = b as int;
                    let x = n + bi / 2;
                    let qi = x / bi;
                    assert(x == bi * qi + x % bi && 0 <= x % bi < bi) by(nonlinear_arith) requires bi > 0, qi == x / bi;
                    assert(2 * qi * bi <= 2 * n + bi && 2 * n + bi < 2 * (qi + 1) * bi) by(nonlinear_arith)
                        requires x == bi * qi + x % bi, 0 <= x % bi < bi, x == n + bi / 2, bi > 0;
                    assert(representable(n, bi) ==> qi < 0x80000000) by(nonlinear_arith)
                        requires 2 * qi * bi <= 2 * n + bi, bi > 0;
                    assert(qi >= 0) by(nonlinear_arith) requires 2 * n + bi < 2 * (qi + 1) * bi, n >= 0, bi > 0;
                    // corollaries
                    assert(a as int <= bi ==> qi <= 65536 && representable(n, bi)) by(nonlinear_arith)
                        requires 2 * qi * bi <= 2 * n + bi, n == a as int * 65536, bi > 0, a >= 0;
                    assert(a as int == bi ==> qi == 65536) by(nonlinear_arith)
                        requires 2 * qi * bi <= 2 * n + bi, 2 * n + bi < 2 * (qi + 1) * bi, n == a as int * 65536, bi > 0;
                    assert(a == 0 ==> qi == 0) by(nonlinear_arith)
                        requires 2 * qi * bi <= 2 * n + bi, 2 * n + bi < 2 * (qi + 1) * bi, n == a as int * 65536, bi > 0, qi >= 0;
                }
//@end
//@extract source=fixed container="mod fixed||impl F26Dot6" fn=mul_div ret=r
//@spec
        // no precondition: total and overflow-free for every triple of operands
        ensures
            b.0 == 0 ==> r.0 == (if (self.0 < 0) != (a.0 < 0) { -0x7FFFFFFFi32 } else { 0x7FFFFFFFi32 }),
            b.0 != 0 && representable(abs(self.0 as int) * abs(a.0 as int), abs(b.0 as int))
                ==> is_rha_nonneg(abs(self.0 as int) * abs(a.0 as int), abs(b.0 as int),
                    if ((self.0 < 0) != (a.0 < 0)) != (b.0 < 0) { -(r.0 as int) } else { r.0 as int }),
//@at before "if self.0 < 0"
        proof {
            let x = self.0; let y = a.0; let z = b.0;
            assert(x >= 0 ==> x as u64 == x as u32 as u64 && (x as u64) < 0x8000_0000u64) by(bit_vector);
            assert(y >= 0 ==> (y as u64) < 0x8000_0000u64) by(bit_vector);
            assert(z >= 0 ==> (z as u64) < 0x8000_0000u64) by(bit_vector);
            assert(x < 0 ==> 0u64.wrapping_sub(x as u64) == (-(x as i64)) as u64 && 0u64.wrapping_sub(x as u64) <= 0x8000_0000u64) by(bit_vector);
            assert(y < 0 ==> 0u64.wrapping_sub(y as u64) == (-(y as i64)) as u64 && 0u64.wrapping_sub(y as u64) <= 0x8000_0000u64) by(bit_vector);
            assert(z < 0 ==> 0u64.wrapping_sub(z as u64) == (-(z as i64)) as u64 && 0u64.wrapping_sub(z as u64) <= 0x8000_0000u64) by(bit_vector);
        }
//@at before "let result ="
        assert(su as int == abs(self.0 as int));
        assert(au as int == abs(a.0 as int));
        assert(bu as int == abs(b.0 as int));
//@at before "su.wrapping_mul(au)"
            proof {
                let n = su as int * au as int;
                let bi = bu as int;
                assert(0 <= n <= 0x4000_0000_0000_0000) by(nonlinear_arith)
                    requires n == su as int * au as int, 0 <= su as int <= 0x8000_0000, 0 <= au as int <= 0x8000_0000;
                assert(bu >> 1 == bu / 2) by(bit_vector);
                let x = n + bi / 2;
                let qi = x / bi;
                assert(x == bi * qi + x % bi && 0 <= x % bi < bi) by(nonlinear_arith) requires bi > 0, qi == x / bi;
                assert(2 * qi * bi <= 2 * n + bi && 2 * n + bi < 2 * (qi + 1) * bi) by(nonlinear_arith)
                    requires x == bi * qi + x % bi, 0 <= x % bi < bi, x == n + bi / 2, bi > 0;
                assert(representable(n, bi) ==> qi < 0x80000000) by(nonlinear_arith)
                    requires 2 * qi * bi <= 2 * n + bi, bi > 0;
                assert(qi >= 0) by(nonlinear_arith) requires 2 * n + bi < 2 * (qi + 1) * bi, n >= 0, bi > 0;
            }
//@end
}

}
fn main() {}
