//@unit U02.11 props=C02,C01 tier=quick
//@source name=st kind=file path=skrifa/src/string.rs
// C02 (metadata queries are total): Language::from_name_string copies a name-table language tag into its inline 30-byte buffer.
// For EVERY character sequence the name string may yield (the iterator is an opaque type here: nothing is assumed about what
// CharIter::next returns or when it stops) the function never writes outside the buffer, and a tag that is returned has a
// length <= 30 and only ASCII bytes were stored. Extraction: the `for ch in s.chars()` loop is desugared into the
// `loop { let Some(ch) = it.next() else { break }; .. }` form the Rust reference defines it as (Verus has no for-loop support
// for an unspecified iterator type).
use vstd::prelude::*;
verus! {
//@prelude std_combinators
#[verifier::external_body] pub struct CharIter { _p: u8 }
impl CharIter {
    // ASSUMED: nothing (any result)
    #[verifier::external_body]
    pub fn next(&mut self) -> (r: Option<char>) { unimplemented!() }
}
#[verifier::external_body] pub struct NameString { _p: u8 }
impl NameString {
    #[verifier::external_body]
    pub fn chars(&self) -> (r: CharIter) { unimplemented!() }
}
pub assume_specification[char::is_ascii](c: &char) -> (r: bool) ensures r == ((*c as u32) < 128);

//@require source=st seq="const MAX_INLINE_LANGUAGE_LEN: usize = 30;"
const MAX_INLINE_LANGUAGE_LEN: usize = 30;
//@require source=st seq="enum Language { Inline { buf: [u8; MAX_INLINE_LANGUAGE_LEN], len: u8, }, Static(&'static str), }"
pub enum Language {
    Inline { buf: [u8; MAX_INLINE_LANGUAGE_LEN], len: u8 },
    Static(&'static str),
}
impl Language {
    // termination is NOT claimed here: it depends on the iterator ending (C01's harness name_string_chars_count_bounded_by_length)
    #[verifier::exec_allows_no_decreases_clause]
//@extract source=st container="impl Language" fn=from_name_string ret=r
//@desugarfor nth=0 name=verif_it raw
//@spec
        ensures
            r is Some ==> r->Some_0 is Inline && r->Some_0->len <= 30
                && forall|i: int| 0 <= i < r->Some_0->len ==> (#[trigger] r->Some_0->buf[i]) < 128,
//@at loop "let mut verif_it ="
            invariant len <= MAX_INLINE_LANGUAGE_LEN, forall|i: int| 0 <= i < len ==> (#[trigger] buf[i]) < 128,
//@at before "buf[len] = ch as u8;"
            let ghost c32 = ch as u32;
            assert(c32 < 128 ==> (c32 as u8) < 128) by(bit_vector);
            assert(ch as u8 == c32 as u8);
//@end
}
}
fn main() {}
