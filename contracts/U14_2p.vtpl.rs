//@unit U14.2p props=C14 tier=quick rlimit=30
//@source name=bs kind=file path=read-fonts/src/collections/int_set/bitset.rs
//@source name=bp kind=file path=read-fonts/src/collections/int_set/bitpage.rs
// C14, middle layer, the page merge: BitSet::process - the in-place three-phase merge of two sorted page maps behind union,
// intersect, subtract and reversed_subtract - on the real text, for unboundedly many pages and ANY page operator:
//   * the result is a well-formed BitSet again (sorted page map, injective page indices, |page_map| = |pages|, cached length);
//   * for every major value the resulting page is op(left page, right page) where both sides have a page, the left / right page
//     itself where only one side has one and the operator passes that side through, and empty otherwise (the pass-through flags
//     are what passthrough_behavior computes from op on the pages {0} and {});
//   * hence (lemma_process_members) union / intersect / subtract / reversed_subtract are the set operations on members.
// Proof structure: Step 1 (forward merge) counts the result pages and moves the kept left entries to the front (inv1, kept());
// Step 2 compacts / resizes (live_ok); Steps 3-4 merge backwards in place (inv3: the output region is sorted, disjoint from
// the still-live input entries, holds the expected page for each of its majors, and accounts for every merged source entry).
// ASSUMED: BitPage operation contracts (proved by Kani unit U14.1), BitSet::{compact, resize, recompute_length,
// page_for_index_mut} (iterator adapters / a closure capturing a mutable reference, outside Verus' subset; compact_pages has a bounded Kani
// harness), members of a page are < 512.
use vstd::prelude::*;
use std::cmp::Ordering;
use vstd::std_specs::cmp::OrdSpec;
verus! {
//@prelude std_combinators


// ---- std: <[T]>::binary_search_by (ASSUMED; documented std behaviour for a slice partitioned by the comparator)
pub open spec fn ord_rank(o: Ordering) -> int { match o { Ordering::Less => 0, Ordering::Equal => 1, Ordering::Greater => 2 } }
pub assume_specification<'a, T, F: FnMut(&'a T) -> Ordering>[<[T]>::binary_search_by](s: &'a [T], f: F) -> (r: Result<usize, usize>)
    requires
        forall|i: int| 0 <= i < s@.len() ==> call_requires(f, (&s@[i],)),
    ensures
        match r {
            Ok(i) => i < s@.len() && call_ensures(f, (&s@[i as int],), Ordering::Equal),
            Err(i) => i <= s@.len(),
        },
        // comparator deterministic on the elements and monotone along the slice (i.e. the slice is partitioned by it)
        ((forall|j: int, o1: Ordering, o2: Ordering| 0 <= j < s@.len()
                && #[trigger] call_ensures(f, (&s@[j],), o1) && #[trigger] call_ensures(f, (&s@[j],), o2) ==> o1 == o2)
          && (forall|a: int, b: int, oa: Ordering, ob: Ordering| 0 <= a < b < s@.len()
                && #[trigger] call_ensures(f, (&s@[a],), oa) && #[trigger] call_ensures(f, (&s@[b],), ob) ==> ord_rank(oa) <= ord_rank(ob)))
        ==> match r {
            Ok(i) => true,
            Err(i) => (forall|j: int| 0 <= j < i ==> call_ensures(f, (&#[trigger] s@[j],), Ordering::Less))
                && (forall|j: int| i <= j < s@.len() ==> call_ensures(f, (&#[trigger] s@[j],), Ordering::Greater)),
        };




pub const PAGE_BITS: u32 = 512;
const PAGE_BITS_LOG_2: u32 = 9;

// ---- the page layer: opaque here; every contract below is PROVED on the real BitPage by Kani unit U14.1
#[verifier::external_body]
pub struct BitPage { _p: u8 }
impl BitPage {
    pub uninterp spec fn view(&self) -> Set<u32>;
    #[verifier::external_body]
    pub fn new_zeroes() -> (r: Self) ensures r@ == Set::<u32>::empty() { unimplemented!() }
    #[verifier::external_body]
    pub fn len(&self) -> (r: u32) ensures r == self@.len(), r <= 512 { unimplemented!() }
    #[verifier::external_body]
    pub fn is_empty(&self) -> (r: bool) ensures r == (self@.len() == 0) { unimplemented!() }
    #[verifier::external_body]
    pub fn insert(&mut self, val: u32) -> (r: bool)
        ensures final(self)@ == old(self)@.insert(val & 511), r == !old(self)@.contains(val & 511)
    { unimplemented!() }
    #[verifier::external_body]
    pub fn remove(&mut self, val: u32) -> (r: bool)
        ensures final(self)@ == old(self)@.remove(val & 511), r == old(self)@.contains(val & 511)
    { unimplemented!() }
    #[verifier::external_body]
    pub fn contains(&self, val: u32) -> (r: bool) ensures r == self@.contains(val & 511) { unimplemented!() }
    #[verifier::external_body]
    pub fn clear(&mut self) ensures final(self)@ == Set::<u32>::empty() { unimplemented!() }
    #[verifier::external_body]
    pub fn clone(&self) -> (r: Self) ensures r@ == self@ { unimplemented!() }
    #[verifier::external_body]
    pub fn union(a: &BitPage, b: &BitPage) -> (r: BitPage) ensures r@ == a@.union(b@) { unimplemented!() }
    #[verifier::external_body]
    pub fn intersect(a: &BitPage, b: &BitPage) -> (r: BitPage) ensures r@ == a@.intersect(b@) { unimplemented!() }
    #[verifier::external_body]
    pub fn subtract(a: &BitPage, b: &BitPage) -> (r: BitPage) ensures r@ == a@.difference(b@) { unimplemented!() }
}
// members of a page are 0..=511 (type invariant of BitPage; part of U14.1's view)
pub broadcast axiom fn axiom_page_range(p: BitPage, x: u32)
    ensures #[trigger] p@.contains(x) ==> x < 512;

#[derive(Clone, Copy)]
pub struct PageInfo {
    index: u32,
    major_value: u32,
}

pub struct BitSet {
    pages: Vec<BitPage>,
    page_map: Vec<PageInfo>,
    length: u64,
}

proof fn lemma_sorted_bound(m: Seq<PageInfo>, i: int)
    requires forall|a: int, b: int| 0 <= a < b < m.len() ==> m[a].major_value < m[b].major_value, 0 <= i < m.len()
    ensures m[i].major_value >= i
    decreases i
{
    if i > 0 { lemma_sorted_bound(m, i - 1); }
}
spec fn sum_len(s: Seq<BitPage>) -> nat
    decreases s.len()
{
    if s.len() == 0 { 0 } else { sum_len(s.drop_last()) + s.last()@.len() }
}

// ---- representation: page_map (sorted by major value) points into pages (creation order)
spec fn map_wf_s(m: Seq<PageInfo>, p: Seq<BitPage>) -> bool {
    &&& m.len() == p.len()
    &&& forall|i: int| 0 <= i < m.len() ==> (#[trigger] m[i]).index < p.len() && m[i].major_value < 0x80_0000
    &&& forall|i: int, j: int| 0 <= i < j < m.len() ==> (#[trigger] m[i]).major_value < (#[trigger] m[j]).major_value
    &&& forall|i: int, j: int| 0 <= i < j < m.len() ==> (#[trigger] m[i]).index != (#[trigger] m[j]).index
}
spec fn mem_at_s(m: Seq<PageInfo>, p: Seq<BitPage>, i: int, x: u32) -> bool {
    0 <= i < m.len() && m[i].major_value == (x >> 9) && p[m[i].index as int]@.contains(x & 511)
}
spec fn mem_s(m: Seq<PageInfo>, p: Seq<BitPage>, x: u32) -> bool {
    exists|i: int| mem_at_s(m, p, i, x)
}
proof fn lemma_len_bound(m: Seq<PageInfo>, p: Seq<BitPage>)
    requires map_wf_s(m, p)
    ensures p.len() <= 0x80_0000
{
    if m.len() > 0 { lemma_sorted_bound(m, m.len() - 1); }
}
proof fn lemma_new_page(m: Seq<PageInfo>, p: Seq<BitPage>, k: int, major: u32, z: BitPage)
    requires map_wf_s(m, p), 0 <= k <= m.len(), major < 0x80_0000, z@ == Set::<u32>::empty(),
        forall|j: int| 0 <= j < k ==> (#[trigger] m[j]).major_value < major,
        forall|j: int| k <= j < m.len() ==> (#[trigger] m[j]).major_value > major,
    ensures ({
        let m2 = m.insert(k, PageInfo { index: p.len() as u32, major_value: major });
        let p2 = p.push(z);
        &&& p.len() <= 0x80_0000
        &&& map_wf_s(m2, p2)
        &&& sum_len(p2) == sum_len(p)
        &&& forall|x: u32| mem_s(m2, p2, x) == mem_s(m, p, x)
    })
{
    lemma_len_bound(m, p);
    let ni = PageInfo { index: p.len() as u32, major_value: major };
    let m2 = m.insert(k, ni);
    let p2 = p.push(z);
    assert(p2.drop_last() =~= p);
    assert forall|i: int, j: int| 0 <= i < j < m2.len() implies (#[trigger] m2[i]).major_value < (#[trigger] m2[j]).major_value && m2[i].index != m2[j].index by {
        let oi = if i < k { i } else { i - 1 };
        let oj = if j < k { j } else { j - 1 };
        if i != k && j != k { assert(m2[i] == m[oi] && m2[j] == m[oj]); }
        else if i == k { assert(m2[j] == m[oj]); }
        else { assert(m2[i] == m[oi]); }
    }
    assert forall|i: int| 0 <= i < m2.len() implies (#[trigger] m2[i]).index < p2.len() && m2[i].major_value < 0x80_0000 by {
        if i != k { let oi = if i < k { i } else { i - 1 }; assert(m2[i] == m[oi]); }
    }
    assert forall|x: u32| mem_s(m2, p2, x) == mem_s(m, p, x) by {
        if mem_s(m, p, x) {
            let i = choose|i: int| mem_at_s(m, p, i, x);
            let i2 = if i < k { i } else { i + 1 };
            assert(m2[i2] == m[i]);
            assert(mem_at_s(m2, p2, i2, x));
        }
        if mem_s(m2, p2, x) {
            let i2 = choose|i: int| mem_at_s(m2, p2, i, x);
            if i2 == k { assert(p2[m2[k].index as int] == z); assert(false); }
            let i = if i2 < k { i2 } else { i2 - 1 };
            assert(m2[i2] == m[i]);
            assert(mem_at_s(m, p, i, x));
        }
    }
}

proof fn lemma_sum_bound(p: Seq<BitPage>)
    ensures sum_len(p) <= 512 * p.len()
    decreases p.len()
{
    if p.len() > 0 {
        lemma_sum_bound(p.drop_last());
        lemma_page_len(p.last());
    }
}
// a page holds at most 512 members (all below 512)
proof fn lemma_page_len(pg: BitPage)
    ensures pg@.len() <= 512
{
    let full = Set::<u32>::range(0, 512);
    assert forall|x: u32| pg@.contains(x) implies full.contains(x) by { axiom_page_range(pg, x); }
    vstd::set_lib::lemma_len_subset(pg@, full);
}
proof fn lemma_sum_update(p: Seq<BitPage>, idx: int, np: BitPage)
    requires 0 <= idx < p.len()
    ensures sum_len(p.update(idx, np)) + p[idx]@.len() == sum_len(p) + np@.len()
    decreases p.len()
{
    let q = p.update(idx, np);
    if idx == p.len() - 1 {
        assert(q.drop_last() =~= p.drop_last());
    } else {
        assert(q.drop_last() =~= p.drop_last().update(idx, np));
        lemma_sum_update(p.drop_last(), idx, np);
    }
}
proof fn lemma_update_page(m: Seq<PageInfo>, p: Seq<BitPage>, i: int, np: BitPage)
    requires map_wf_s(m, p), 0 <= i < m.len()
    ensures ({
        let idx = m[i].index as int;
        let p2 = p.update(idx, np);
        &&& map_wf_s(m, p2)
        &&& sum_len(p2) + p[idx]@.len() == sum_len(p) + np@.len()
        &&& forall|x: u32| (x >> 9) != m[i].major_value ==> mem_s(m, p2, x) == mem_s(m, p, x)
        &&& forall|x: u32| (x >> 9) == m[i].major_value ==> mem_s(m, p2, x) == np@.contains(x & 511)
        &&& forall|x: u32| (x >> 9) == m[i].major_value ==> mem_s(m, p, x) == p[idx]@.contains(x & 511)
    })
{
    let idx = m[i].index as int;
    let p2 = p.update(idx, np);
    lemma_sum_update(p, idx, np);
    assert forall|x: u32| (x >> 9) != m[i].major_value implies mem_s(m, p2, x) == mem_s(m, p, x) by {
        if mem_s(m, p, x) { let j = choose|j: int| mem_at_s(m, p, j, x); assert(j != i); assert(m[j].index != m[i].index); assert(mem_at_s(m, p2, j, x)); }
        if mem_s(m, p2, x) { let j = choose|j: int| mem_at_s(m, p2, j, x); assert(j != i); assert(m[j].index != m[i].index); assert(mem_at_s(m, p, j, x)); }
    }
    assert forall|x: u32| (x >> 9) == m[i].major_value implies mem_s(m, p2, x) == np@.contains(x & 511) && mem_s(m, p, x) == p[idx]@.contains(x & 511) by {
        if np@.contains(x & 511) { assert(mem_at_s(m, p2, i, x)); }
        if p[idx]@.contains(x & 511) { assert(mem_at_s(m, p, i, x)); }
        if mem_s(m, p2, x) { let j = choose|j: int| mem_at_s(m, p2, j, x); assert(j == i); }
        if mem_s(m, p, x) { let j = choose|j: int| mem_at_s(m, p, j, x); assert(j == i); }
    }
}

// ======================= page merge (BitSet::process) =======================
spec fn in_maj(m: Seq<PageInfo>, major: u32) -> bool {
    exists|i: int| 0 <= i < m.len() && #[trigger] m[i].major_value == major
}
spec fn sorted_m(m: Seq<PageInfo>) -> bool {
    forall|i: int, j: int| 0 <= i < j < m.len() ==> (#[trigger] m[i]).major_value < (#[trigger] m[j]).major_value
}
// number of result pages contributed by the first k left entries / the first k right-only entries
spec fn cnt_a(a: Seq<PageInfo>, b: Seq<PageInfo>, pl: bool, k: int) -> int
    decreases k
{
    if k <= 0 { 0 } else { cnt_a(a, b, pl, k - 1) + if pl || in_maj(b, a[k - 1].major_value) { 1int } else { 0int } }
}
spec fn cnt_b(a: Seq<PageInfo>, b: Seq<PageInfo>, pr: bool, k: int) -> int
    decreases k
{
    if k <= 0 { 0 } else { cnt_b(a, b, pr, k - 1) + if pr && !in_maj(a, b[k - 1].major_value) { 1int } else { 0int } }
}
proof fn lemma_cnt_bounds(a: Seq<PageInfo>, b: Seq<PageInfo>, pl: bool, pr: bool, k: int)
    requires k >= 0
    ensures 0 <= cnt_a(a, b, pl, k) <= k, 0 <= cnt_b(a, b, pr, k) <= k
    decreases k
{
    if k > 0 { lemma_cnt_bounds(a, b, pl, pr, k - 1); }
}
// a run of left entries none of which has a partner on the right contributes pl each
proof fn lemma_cnt_a_tail(a: Seq<PageInfo>, b: Seq<PageInfo>, pl: bool, k0: int, k1: int)
    requires 0 <= k0 <= k1 <= a.len(), forall|i: int| k0 <= i < k1 ==> !in_maj(b, (#[trigger] a[i]).major_value)
    ensures cnt_a(a, b, pl, k1) == cnt_a(a, b, pl, k0) + if pl { k1 - k0 } else { 0 }
    decreases k1 - k0
{
    if k0 < k1 { lemma_cnt_a_tail(a, b, pl, k0, k1 - 1); }
}
proof fn lemma_cnt_b_tail(a: Seq<PageInfo>, b: Seq<PageInfo>, pr: bool, k0: int, k1: int)
    requires 0 <= k0 <= k1 <= b.len(), forall|j: int| k0 <= j < k1 ==> !in_maj(a, (#[trigger] b[j]).major_value)
    ensures cnt_b(a, b, pr, k1) == cnt_b(a, b, pr, k0) + if pr { k1 - k0 } else { 0 }
    decreases k1 - k0
{
    if k0 < k1 { lemma_cnt_b_tail(a, b, pr, k0, k1 - 1); }
}
// an operator on pages, seen through the views: rv is a possible result of op on pages with views av and bv
spec fn op_rel<Op: Fn(&BitPage, &BitPage) -> BitPage>(op: Op, av: Set<u32>, bv: Set<u32>, rv: Set<u32>) -> bool {
    exists|a: BitPage, b: BitPage, r: BitPage| #[trigger] call_ensures(op, (&a, &b), r) && a@ == av && b@ == bv && r@ == rv
}
spec fn flags_of<Op: Fn(&BitPage, &BitPage) -> BitPage>(op: Op, pl: bool, pr: bool) -> bool {
    &&& exists|a: BitPage, b: BitPage, r: BitPage| #[trigger] call_ensures(op, (&a, &b), r)
            && a@ == Set::<u32>::empty().insert(0) && b@ == Set::<u32>::empty() && pl == r@.contains(0)
    &&& exists|a: BitPage, b: BitPage, r: BitPage| #[trigger] call_ensures(op, (&a, &b), r)
            && a@ == Set::<u32>::empty() && b@ == Set::<u32>::empty().insert(0) && pr == r@.contains(0)
}

proof fn lemma_not_in(m: Seq<PageInfo>, major: u32, k: int)
    requires sorted_m(m), 0 <= k <= m.len(),
        forall|i: int| 0 <= i < k ==> (#[trigger] m[i]).major_value < major,
        k < m.len() ==> m[k].major_value > major,
    ensures !in_maj(m, major)
{
    if in_maj(m, major) {
        let i = choose|i: int| 0 <= i < m.len() && #[trigger] m[i].major_value == major;
        if i >= k { if i > k { assert(m[k].major_value < m[i].major_value); } }
    }
}
spec fn page_at(m: Seq<PageInfo>, p: Seq<BitPage>, major: u32) -> Set<u32> {
    if in_maj(m, major) {
        let i = choose|i: int| 0 <= i < m.len() && #[trigger] m[i].major_value == major;
        p[m[i].index as int]@
    } else { Set::<u32>::empty() }
}
spec fn exp_rel<Op: Fn(&BitPage, &BitPage) -> BitPage>(op: Op, pl: bool, pr: bool, ah: bool, av: Set<u32>, bh: bool, bv: Set<u32>, rv: Set<u32>) -> bool {
    if ah && bh { op_rel(op, av, bv, rv) }
    else if ah { rv == if pl { av } else { Set::<u32>::empty() } }
    else if bh { rv == if pr { bv } else { Set::<u32>::empty() } }
    else { rv == Set::<u32>::empty() }
}

// ---- Step 1 of process (forward merge: count the result pages, move the kept left entries to the front)
spec fn merge_ok(a0: Seq<PageInfo>, b0: Seq<PageInfo>, ia: int, ib: int) -> bool {
    &&& forall|j: int, i: int| 0 <= j < ib && ia <= i < a0.len() ==> (#[trigger] b0[j]).major_value < (#[trigger] a0[i]).major_value
    &&& forall|i: int, j: int| 0 <= i < ia && ib <= j < b0.len() ==> (#[trigger] a0[i]).major_value < (#[trigger] b0[j]).major_value
}
// the left entries a0[0..ia] that have a partner on the right, in order
spec fn kept(a0: Seq<PageInfo>, b0: Seq<PageInfo>, ia: int) -> Seq<PageInfo>
    decreases ia
{
    if ia <= 0 { Seq::<PageInfo>::empty() }
    else if in_maj(b0, a0[ia - 1].major_value) { kept(a0, b0, ia - 1).push(a0[ia - 1]) }
    else { kept(a0, b0, ia - 1) }
}
proof fn lemma_kept_len(a0: Seq<PageInfo>, b0: Seq<PageInfo>, ia: int)
    requires 0 <= ia <= a0.len()
    ensures kept(a0, b0, ia).len() == cnt_a(a0, b0, false, ia), 0 <= kept(a0, b0, ia).len() <= ia
    decreases ia
{
    if ia > 0 { lemma_kept_len(a0, b0, ia - 1); }
}
// every kept entry is a left entry with a partner; src gives its index
proof fn lemma_kept_sound(a0: Seq<PageInfo>, b0: Seq<PageInfo>, ia: int, k: int) -> (i: int)
    requires 0 <= ia <= a0.len(), 0 <= k < kept(a0, b0, ia).len()
    ensures 0 <= i < ia, kept(a0, b0, ia)[k] == a0[i], in_maj(b0, a0[i].major_value)
    decreases ia
{
    lemma_kept_len(a0, b0, ia - 1);
    if in_maj(b0, a0[ia - 1].major_value) && k == kept(a0, b0, ia - 1).len() { ia - 1 }
    else { lemma_kept_sound(a0, b0, ia - 1, k) }
}
proof fn lemma_kept_complete(a0: Seq<PageInfo>, b0: Seq<PageInfo>, ia: int, i: int) -> (k: int)
    requires 0 <= i < ia <= a0.len(), in_maj(b0, a0[i].major_value)
    ensures 0 <= k < kept(a0, b0, ia).len(), kept(a0, b0, ia)[k] == a0[i]
    decreases ia
{
    lemma_kept_len(a0, b0, ia - 1);
    if i == ia - 1 { kept(a0, b0, ia - 1).len() as int }
    else { lemma_kept_complete(a0, b0, ia - 1, i) }
}
proof fn lemma_kept_sorted(a0: Seq<PageInfo>, b0: Seq<PageInfo>, ia: int)
    requires 0 <= ia <= a0.len(), sorted_m(a0)
    ensures sorted_m(kept(a0, b0, ia))
    decreases ia
{
    if ia > 0 {
        lemma_kept_sorted(a0, b0, ia - 1);
        lemma_kept_len(a0, b0, ia - 1);
        if in_maj(b0, a0[ia - 1].major_value) {
            let kp = kept(a0, b0, ia - 1);
            let kn = kept(a0, b0, ia);
            assert forall|x: int, y: int| 0 <= x < y < kn.len() implies (#[trigger] kn[x]).major_value < (#[trigger] kn[y]).major_value by {
                if y == kp.len() {
                    let i = lemma_kept_sound(a0, b0, ia - 1, x);
                    assert(a0[i].major_value < a0[ia - 1].major_value);
                    assert(kn[x] == kp[x]);
                } else { assert(kn[x] == kp[x] && kn[y] == kp[y]); }
            }
        }
    }
}
spec fn kept_ok(a0: Seq<PageInfo>, b0: Seq<PageInfo>, pm: Seq<PageInfo>, ia: int, w: int) -> bool {
    0 <= w <= pm.len() && pm.take(w) == kept(a0, b0, ia)
}
spec fn suffix_same(a0: Seq<PageInfo>, pm: Seq<PageInfo>, ia: int) -> bool {
    pm.len() == a0.len() && forall|k: int| ia <= k < a0.len() ==> #[trigger] pm[k] == a0[k]
}
#[verifier::opaque]
spec fn inv1(a0: Seq<PageInfo>, b0: Seq<PageInfo>, pm: Seq<PageInfo>, pl: bool, pr: bool, ia: int, ib: int, w: int, c: int) -> bool {
    &&& sorted_m(a0) && sorted_m(b0)
    &&& 0 <= ia <= a0.len() && 0 <= ib <= b0.len()
    &&& suffix_same(a0, pm, ia)
    &&& pl ==> pm == a0 && w == 0
    &&& !pl ==> kept_ok(a0, b0, pm, ia, w)
    &&& c == cnt_a(a0, b0, pl, ia) + cnt_b(a0, b0, pr, ib)
    &&& merge_ok(a0, b0, ia, ib)
}
proof fn lemma_inv1_init(a0: Seq<PageInfo>, b0: Seq<PageInfo>, pl: bool, pr: bool)
    requires sorted_m(a0), sorted_m(b0)
    ensures inv1(a0, b0, a0, pl, pr, 0, 0, 0, 0)
{ reveal(inv1); assert(a0.take(0) =~= Seq::<PageInfo>::empty()); }
proof fn lemma_inv1_facts(a0: Seq<PageInfo>, b0: Seq<PageInfo>, pm: Seq<PageInfo>, pl: bool, pr: bool, ia: int, ib: int, w: int, c: int)
    requires inv1(a0, b0, pm, pl, pr, ia, ib, w, c)
    ensures pm.len() == a0.len(), 0 <= ia <= a0.len(), 0 <= ib <= b0.len(), 0 <= w <= ia, 0 <= c <= ia + ib,
        ia < a0.len() ==> pm[ia] == a0[ia],
{
    reveal(inv1);
    lemma_cnt_bounds(a0, b0, pl, pr, ia); lemma_cnt_bounds(a0, b0, pl, pr, ib);
    if !pl { lemma_kept_len(a0, b0, ia); assert(pm.take(w).len() == w); }
}
proof fn lemma_merge_equal(a0: Seq<PageInfo>, b0: Seq<PageInfo>, ia: int, ib: int)
    requires merge_ok(a0, b0, ia, ib), sorted_m(a0), sorted_m(b0), 0 <= ia < a0.len(), 0 <= ib < b0.len(), a0[ia].major_value == b0[ib].major_value
    ensures merge_ok(a0, b0, ia + 1, ib + 1), in_maj(b0, a0[ia].major_value), in_maj(a0, b0[ib].major_value)
{
    assert forall|j: int, i: int| 0 <= j < ib + 1 && ia + 1 <= i < a0.len() implies (#[trigger] b0[j]).major_value < (#[trigger] a0[i]).major_value by {
        if j == ib { assert(a0[ia].major_value < a0[i].major_value); }
    }
    assert forall|i: int, j: int| 0 <= i < ia + 1 && ib + 1 <= j < b0.len() implies (#[trigger] a0[i]).major_value < (#[trigger] b0[j]).major_value by {
        if i == ia { assert(b0[ib].major_value < b0[j].major_value); }
    }
}
proof fn lemma_merge_less(a0: Seq<PageInfo>, b0: Seq<PageInfo>, ia: int, ib: int)
    requires merge_ok(a0, b0, ia, ib), sorted_m(a0), sorted_m(b0), 0 <= ia < a0.len(), 0 <= ib < b0.len(), a0[ia].major_value < b0[ib].major_value
    ensures merge_ok(a0, b0, ia + 1, ib), !in_maj(b0, a0[ia].major_value)
{
    assert forall|j: int| 0 <= j < ib implies (#[trigger] b0[j]).major_value < a0[ia].major_value by { assert(a0[ia] == a0[ia]); }
    lemma_not_in(b0, a0[ia].major_value, ib);
    assert forall|i: int, j: int| 0 <= i < ia + 1 && ib <= j < b0.len() implies (#[trigger] a0[i]).major_value < (#[trigger] b0[j]).major_value by {
        if i == ia && j > ib { assert(b0[ib].major_value < b0[j].major_value); }
    }
}
proof fn lemma_merge_greater(a0: Seq<PageInfo>, b0: Seq<PageInfo>, ia: int, ib: int)
    requires merge_ok(a0, b0, ia, ib), sorted_m(a0), sorted_m(b0), 0 <= ia < a0.len(), 0 <= ib < b0.len(), a0[ia].major_value > b0[ib].major_value
    ensures merge_ok(a0, b0, ia, ib + 1), !in_maj(a0, b0[ib].major_value)
{
    assert forall|i: int| 0 <= i < ia implies (#[trigger] a0[i]).major_value < b0[ib].major_value by { assert(b0[ib] == b0[ib]); }
    lemma_not_in(a0, b0[ib].major_value, ia);
    assert forall|j: int, i: int| 0 <= j < ib + 1 && ia <= i < a0.len() implies (#[trigger] b0[j]).major_value < (#[trigger] a0[i]).major_value by {
        if j == ib && i > ia { assert(a0[ia].major_value < a0[i].major_value); }
    }
}
proof fn lemma_kept_push(a0: Seq<PageInfo>, b0: Seq<PageInfo>, pm: Seq<PageInfo>, pm2: Seq<PageInfo>, ia: int, w: int)
    requires kept_ok(a0, b0, pm, ia, w), suffix_same(a0, pm, ia), 0 <= ia < a0.len(), in_maj(b0, a0[ia].major_value),
        pm2 == (if w < ia { pm.update(w, pm[ia]) } else { pm }),
    ensures kept_ok(a0, b0, pm2, ia + 1, w + 1), suffix_same(a0, pm2, ia + 1), w <= ia
{
    lemma_kept_len(a0, b0, ia);
    assert(pm.take(w).len() == w);
    assert(pm[ia] == a0[ia]);
    assert(pm2[w] == a0[ia]);
    assert(pm2.take(w + 1) =~= pm.take(w).push(a0[ia]));
    assert forall|k: int| ia + 1 <= k < a0.len() implies #[trigger] pm2[k] == a0[k] by { assert(pm2[k] == pm[k]); }
}
proof fn lemma_kept_skip(a0: Seq<PageInfo>, b0: Seq<PageInfo>, pm: Seq<PageInfo>, ia: int, w: int)
    requires kept_ok(a0, b0, pm, ia, w), 0 <= ia < a0.len(), !in_maj(b0, a0[ia].major_value)
    ensures kept_ok(a0, b0, pm, ia + 1, w)
{
}
proof fn lemma_inv1_equal(a0: Seq<PageInfo>, b0: Seq<PageInfo>, pm: Seq<PageInfo>, pm2: Seq<PageInfo>, pl: bool, pr: bool, ia: int, ib: int, w: int, c: int)
    requires inv1(a0, b0, pm, pl, pr, ia, ib, w, c), 0 <= ia < a0.len(), 0 <= ib < b0.len(), a0[ia].major_value == b0[ib].major_value,
        pm2 == (if !pl && w < ia { pm.update(w, pm[ia]) } else { pm }),
    ensures inv1(a0, b0, pm2, pl, pr, ia + 1, ib + 1, if pl { w } else { w + 1 }, c + 1)
{
    reveal(inv1);
    lemma_merge_equal(a0, b0, ia, ib);
    if !pl { lemma_kept_push(a0, b0, pm, pm2, ia, w); }
}
proof fn lemma_inv1_less(a0: Seq<PageInfo>, b0: Seq<PageInfo>, pm: Seq<PageInfo>, pl: bool, pr: bool, ia: int, ib: int, w: int, c: int)
    requires inv1(a0, b0, pm, pl, pr, ia, ib, w, c), 0 <= ia < a0.len(), 0 <= ib < b0.len(), a0[ia].major_value < b0[ib].major_value,
    ensures inv1(a0, b0, pm, pl, pr, ia + 1, ib, w, if pl { c + 1 } else { c })
{
    reveal(inv1);
    lemma_merge_less(a0, b0, ia, ib);
    if !pl { lemma_kept_skip(a0, b0, pm, ia, w); }
}
proof fn lemma_inv1_greater(a0: Seq<PageInfo>, b0: Seq<PageInfo>, pm: Seq<PageInfo>, pl: bool, pr: bool, ia: int, ib: int, w: int, c: int)
    requires inv1(a0, b0, pm, pl, pr, ia, ib, w, c), 0 <= ia < a0.len(), 0 <= ib < b0.len(), a0[ia].major_value > b0[ib].major_value,
    ensures inv1(a0, b0, pm, pl, pr, ia, ib + 1, w, if pr { c + 1 } else { c })
{
    reveal(inv1);
    lemma_merge_greater(a0, b0, ia, ib);
}

proof fn lemma_cnt_a_pl(a: Seq<PageInfo>, b: Seq<PageInfo>, k: int)
    requires k >= 0
    ensures cnt_a(a, b, true, k) == k
    decreases k
{ if k > 0 { lemma_cnt_a_pl(a, b, k - 1); } }
proof fn lemma_kept_tail(a0: Seq<PageInfo>, b0: Seq<PageInfo>, k0: int, k1: int)
    requires 0 <= k0 <= k1 <= a0.len(), forall|i: int| k0 <= i < k1 ==> !in_maj(b0, (#[trigger] a0[i]).major_value)
    ensures kept(a0, b0, k1) == kept(a0, b0, k0)
    decreases k1 - k0
{ if k0 < k1 { lemma_kept_tail(a0, b0, k0, k1 - 1); } }
// after the loop one side is exhausted: the remaining entries of the other side have no partner
proof fn lemma_inv1_finish(a0: Seq<PageInfo>, b0: Seq<PageInfo>, pm: Seq<PageInfo>, pl: bool, pr: bool, ia: int, ib: int, w: int, c: int)
    requires inv1(a0, b0, pm, pl, pr, ia, ib, w, c), ia == a0.len() || ib == b0.len()
    ensures
        c + (if pl { a0.len() - ia } else { 0 }) + (if pr { b0.len() - ib } else { 0 })
            == cnt_a(a0, b0, pl, a0.len() as int) + cnt_b(a0, b0, pr, b0.len() as int),
        pl ==> pm == a0,
        !pl ==> 0 <= w <= pm.len() && pm.take(w) == kept(a0, b0, a0.len() as int),
        pm.len() == a0.len(),
{
    reveal(inv1);
    assert forall|i: int| ia <= i < a0.len() implies !in_maj(b0, (#[trigger] a0[i]).major_value) by {
        // ib == b0.len(): every right major is below a0[i]
        assert forall|j: int| 0 <= j < b0.len() implies (#[trigger] b0[j]).major_value < a0[i].major_value by { assert(a0[i] == a0[i]); }
        lemma_not_in(b0, a0[i].major_value, b0.len() as int);
    }
    assert forall|j: int| ib <= j < b0.len() implies !in_maj(a0, (#[trigger] b0[j]).major_value) by {
        assert forall|i: int| 0 <= i < a0.len() implies (#[trigger] a0[i]).major_value < b0[j].major_value by { assert(b0[j] == b0[j]); }
        lemma_not_in(a0, b0[j].major_value, a0.len() as int);
    }
    lemma_cnt_a_tail(a0, b0, pl, ia, a0.len() as int);
    lemma_cnt_b_tail(a0, b0, pr, ib, b0.len() as int);
    if !pl { lemma_kept_tail(a0, b0, ia, a0.len() as int); }
}

proof fn lemma_page_at(m: Seq<PageInfo>, p: Seq<BitPage>, i: int)
    requires sorted_m(m), 0 <= i < m.len()
    ensures in_maj(m, m[i].major_value), page_at(m, p, m[i].major_value) == p[m[i].index as int]@
{
    let major = m[i].major_value;
    assert(in_maj(m, major));
    let c = choose|c: int| 0 <= c < m.len() && #[trigger] m[c].major_value == major;
    if c < i { assert(m[c].major_value < m[i].major_value); }
    if i < c { assert(m[i].major_value < m[c].major_value); }
}
// ---- Step 2: the live left entries lm (all of a0 when the left side passes through, otherwise the kept ones, compacted)
spec fn live_ok(lm: Seq<PageInfo>, lp: Seq<BitPage>, a0: Seq<PageInfo>, p0: Seq<BitPage>, b0: Seq<PageInfo>, pl: bool) -> bool {
    &&& sorted_m(lm) && lm.len() <= lp.len()
    &&& forall|i: int| 0 <= i < lm.len() ==> (#[trigger] lm[i]).index < lm.len() && lm[i].major_value < 0x80_0000
    &&& forall|i: int, j: int| 0 <= i < j < lm.len() ==> (#[trigger] lm[i]).index != (#[trigger] lm[j]).index
    &&& forall|i: int| 0 <= i < lm.len() ==> in_maj(a0, (#[trigger] lm[i]).major_value) && (pl || in_maj(b0, lm[i].major_value))
            && lp[lm[i].index as int]@ == page_at(a0, p0, lm[i].major_value)
    &&& forall|major: u32| in_maj(a0, major) && (pl || in_maj(b0, major)) ==> #[trigger] in_maj(lm, major)
}
proof fn lemma_live_pl(a0: Seq<PageInfo>, p0: Seq<BitPage>, b0: Seq<PageInfo>, lp: Seq<BitPage>)
    requires map_wf_s(a0, p0), lp.len() >= p0.len(), forall|k: int| 0 <= k < p0.len() ==> #[trigger] lp[k] == p0[k]
    ensures live_ok(a0, lp, a0, p0, b0, true)
{
    assert forall|i: int| 0 <= i < a0.len() implies in_maj(a0, (#[trigger] a0[i]).major_value)
            && lp[a0[i].index as int]@ == page_at(a0, p0, a0[i].major_value) by {
        lemma_page_at(a0, p0, i);
    }
}
proof fn lemma_live_kept(a0: Seq<PageInfo>, p0: Seq<BitPage>, b0: Seq<PageInfo>, lm: Seq<PageInfo>, lp: Seq<BitPage>)
    requires map_wf_s(a0, p0),
        lm.len() == kept(a0, b0, a0.len() as int).len(), lm.len() <= lp.len(),
        forall|i: int| 0 <= i < lm.len() ==> (#[trigger] lm[i]).major_value == kept(a0, b0, a0.len() as int)[i].major_value
            && lm[i].index < lm.len()
            && lp[lm[i].index as int]@ == p0[kept(a0, b0, a0.len() as int)[i].index as int]@,
        forall|i: int, j: int| 0 <= i < j < lm.len() ==> (#[trigger] lm[i]).index != (#[trigger] lm[j]).index,
    ensures live_ok(lm, lp, a0, p0, b0, false)
{
    let n = a0.len() as int;
    let kp = kept(a0, b0, n);
    lemma_kept_sorted(a0, b0, n);
    assert forall|i: int, j: int| 0 <= i < j < lm.len() implies (#[trigger] lm[i]).major_value < (#[trigger] lm[j]).major_value by {
        assert(kp[i].major_value < kp[j].major_value);
    }
    assert forall|i: int| 0 <= i < lm.len() implies in_maj(a0, (#[trigger] lm[i]).major_value) && in_maj(b0, lm[i].major_value)
            && lp[lm[i].index as int]@ == page_at(a0, p0, lm[i].major_value) && lm[i].major_value < 0x80_0000 by {
        let src = lemma_kept_sound(a0, b0, n, i);
        lemma_page_at(a0, p0, src);
    }
    assert forall|major: u32| in_maj(a0, major) && in_maj(b0, major) implies #[trigger] in_maj(lm, major) by {
        let i = choose|i: int| 0 <= i < a0.len() && #[trigger] a0[i].major_value == major;
        let k = lemma_kept_complete(a0, b0, n, i);
        assert(lm[k].major_value == major);
    }
}

// ---- Steps 3 and 4 of process (backward in-place merge). lm/lp: the live left entries and the pages when the merge starts
spec fn out_has(pm: Seq<PageInfo>, c: int, major: u32) -> bool {
    exists|k: int| c <= k < pm.len() && #[trigger] pm[k].major_value == major
}
spec fn static3(lm: Seq<PageInfo>, b0: Seq<PageInfo>, bp: Seq<BitPage>, pl: bool) -> bool {
    &&& sorted_m(lm) && map_wf_s(b0, bp)
    &&& forall|i: int| 0 <= i < lm.len() ==> (#[trigger] lm[i]).index < lm.len() && lm[i].major_value < 0x80_0000 && (pl || in_maj(b0, lm[i].major_value))
    &&& forall|i: int, j: int| 0 <= i < j < lm.len() ==> (#[trigger] lm[i]).index != (#[trigger] lm[j]).index
}
spec fn merge_back_ok(lm: Seq<PageInfo>, b0: Seq<PageInfo>, ia: int, ib: int) -> bool {
    &&& forall|i: int, j: int| 0 <= i < ia && ib <= j < b0.len() ==> (#[trigger] lm[i]).major_value < (#[trigger] b0[j]).major_value
    &&& forall|j: int, i: int| 0 <= j < ib && ia <= i < lm.len() ==> (#[trigger] b0[j]).major_value < (#[trigger] lm[i]).major_value
}
spec fn out_ok<Op: Fn(&BitPage, &BitPage) -> BitPage>(op: Op, pl: bool, pr: bool, lm: Seq<PageInfo>, lp: Seq<BitPage>, b0: Seq<PageInfo>, bp: Seq<BitPage>,
    pm: Seq<PageInfo>, pg: Seq<BitPage>, ia: int, ib: int, c: int, np: int) -> bool {
    // sorted, above everything still to be merged, page slots distinct from each other and from the live ones
    &&& forall|k: int, l: int| c <= k < l < pm.len() ==> (#[trigger] pm[k]).major_value < (#[trigger] pm[l]).major_value && pm[k].index != pm[l].index
    &&& forall|k: int, i: int| c <= k < pm.len() && 0 <= i < ia ==> (#[trigger] lm[i]).major_value < (#[trigger] pm[k]).major_value && pm[k].index != lm[i].index
    &&& forall|k: int, j: int| c <= k < pm.len() && 0 <= j < ib ==> (#[trigger] b0[j]).major_value < (#[trigger] pm[k]).major_value
    &&& forall|k: int| c <= k < pm.len() ==> (#[trigger] pm[k]).index < np && pm[k].major_value < 0x80_0000
            && (in_maj(lm, pm[k].major_value) || in_maj(b0, pm[k].major_value))
            && exp_rel(op, pl, pr, in_maj(lm, pm[k].major_value), page_at(lm, lp, pm[k].major_value),
                in_maj(b0, pm[k].major_value), page_at(b0, bp, pm[k].major_value), pg[pm[k].index as int]@)
    // every merged source entry is accounted for
    &&& forall|i: int| ia <= i < lm.len() ==> out_has(pm, c, (#[trigger] lm[i]).major_value)
    &&& forall|j: int| ib <= j < b0.len() ==> out_has(pm, c, (#[trigger] b0[j]).major_value) || (!pr && !in_maj(lm, b0[j].major_value))
}
#[verifier::opaque]
spec fn inv3<Op: Fn(&BitPage, &BitPage) -> BitPage>(op: Op, pl: bool, pr: bool, lm: Seq<PageInfo>, lp: Seq<BitPage>, b0: Seq<PageInfo>, bp: Seq<BitPage>,
    pm: Seq<PageInfo>, pg: Seq<BitPage>, ia: int, ib: int, c: int, np: int) -> bool {
    &&& static3(lm, b0, bp, pl)
    &&& 0 <= ia <= lm.len() && 0 <= ib <= b0.len() && ia <= c <= pm.len() && pm.len() == pg.len() && lm.len() <= pm.len()
    &&& np == pm.len() - c + ia && lm.len() <= np <= pm.len()
    &&& forall|i: int| 0 <= i < ia ==> #[trigger] pm[i] == lm[i] && pg[lm[i].index as int] == lp[lm[i].index as int]
    &&& c == ia + cnt_b(lm, b0, pr, ib)
    &&& merge_back_ok(lm, b0, ia, ib)
    &&& out_ok(op, pl, pr, lm, lp, b0, bp, pm, pg, ia, ib, c, np)
}
proof fn lemma_inv3_facts<Op: Fn(&BitPage, &BitPage) -> BitPage>(op: Op, pl: bool, pr: bool, lm: Seq<PageInfo>, lp: Seq<BitPage>, b0: Seq<PageInfo>, bp: Seq<BitPage>,
    pm: Seq<PageInfo>, pg: Seq<BitPage>, ia: int, ib: int, c: int, np: int)
    requires inv3(op, pl, pr, lm, lp, b0, bp, pm, pg, ia, ib, c, np)
    ensures 0 <= ia <= lm.len() <= pm.len(), 0 <= ib <= b0.len(), ia <= c <= pm.len(), pm.len() == pg.len(), lm.len() <= np <= pm.len(),
        np == pm.len() - c + ia,
        forall|i: int| 0 <= i < ia ==> #[trigger] pm[i] == lm[i] && lm[i].index < lm.len(),
        forall|j: int| 0 <= j < b0.len() ==> (#[trigger] b0[j]).index < bp.len(),
        ib > 0 && pr && (ia == 0 || lm[ia - 1].major_value < b0[ib - 1].major_value) ==> c > ia,
{
    reveal(inv3);
    lemma_cnt_bounds(lm, b0, pl, pr, ib);
    if ib > 0 && (ia == 0 || lm[ia - 1].major_value < b0[ib - 1].major_value) {
        assert forall|i: int| 0 <= i < ia implies (#[trigger] lm[i]).major_value < b0[ib - 1].major_value by {
            if i < ia - 1 { assert(lm[i].major_value < lm[ia - 1].major_value); }
        }
        lemma_not_in(lm, b0[ib - 1].major_value, ia);
        lemma_cnt_bounds(lm, b0, pl, pr, ib - 1);
        assert(cnt_b(lm, b0, pr, ib) == cnt_b(lm, b0, pr, ib - 1) + if pr && !in_maj(lm, b0[ib - 1].major_value) { 1int } else { 0int });
    }
}
proof fn lemma_cnt_b_step(lm: Seq<PageInfo>, b0: Seq<PageInfo>, pr: bool, ib: int)
    requires ib > 0
    ensures cnt_b(lm, b0, pr, ib) == cnt_b(lm, b0, pr, ib - 1) + if pr && !in_maj(lm, b0[ib - 1].major_value) { 1int } else { 0int }
{ }
proof fn lemma_inv3_init<Op: Fn(&BitPage, &BitPage) -> BitPage>(op: Op, pl: bool, pr: bool, lm: Seq<PageInfo>, lp: Seq<BitPage>, b0: Seq<PageInfo>, bp: Seq<BitPage>, pm: Seq<PageInfo>)
    requires static3(lm, b0, bp, pl), pm.len() == lp.len(), lm.len() <= pm.len(), pm.take(lm.len() as int) == lm,
        pm.len() == lm.len() + cnt_b(lm, b0, pr, b0.len() as int),
    ensures inv3(op, pl, pr, lm, lp, b0, bp, pm, lp, lm.len() as int, b0.len() as int, pm.len() as int, lm.len() as int)
{
    reveal(inv3);
    assert forall|i: int| 0 <= i < lm.len() implies #[trigger] pm[i] == lm[i] by { assert(pm.take(lm.len() as int)[i] == pm[i]); }
}
// out_ok after one more entry `e` (with page `rp` in slot e.index) has been put in front of the output region; the caller
// shows what the step-specific facts are
proof fn lemma_out_extend<Op: Fn(&BitPage, &BitPage) -> BitPage>(op: Op, pl: bool, pr: bool, lm: Seq<PageInfo>, lp: Seq<BitPage>, b0: Seq<PageInfo>, bp: Seq<BitPage>,
    pm: Seq<PageInfo>, pg: Seq<BitPage>, ia: int, ib: int, c: int, np: int,
    e: PageInfo, rp: BitPage, pm2: Seq<PageInfo>, pg2: Seq<BitPage>, ia2: int, ib2: int, np2: int)
    requires
        out_ok(op, pl, pr, lm, lp, b0, bp, pm, pg, ia, ib, c, np),
        0 < c <= pm.len(), pm.len() == pg.len(), 0 <= ia2 <= ia <= lm.len(), 0 <= ib2 <= ib <= b0.len(), np <= np2,
        pm2 == pm.update(c - 1, e), 0 <= e.index < pg.len(), pg2 == pg.update(e.index as int, rp),
        // the new entry: below the old output region, above everything still to be merged, fresh slot, right contents
        forall|k: int| c <= k < pm.len() ==> e.major_value < (#[trigger] pm[k]).major_value && pm[k].index != e.index,
        forall|i: int| 0 <= i < ia2 ==> (#[trigger] lm[i]).major_value < e.major_value && lm[i].index != e.index,
        forall|j: int| 0 <= j < ib2 ==> (#[trigger] b0[j]).major_value < e.major_value,
        e.index < np2, e.major_value < 0x80_0000, in_maj(lm, e.major_value) || in_maj(b0, e.major_value),
        exp_rel(op, pl, pr, in_maj(lm, e.major_value), page_at(lm, lp, e.major_value), in_maj(b0, e.major_value), page_at(b0, bp, e.major_value), rp@),
        // the source entries consumed by this step carry the major value of the new entry
        forall|i: int| ia2 <= i < ia ==> (#[trigger] lm[i]).major_value == e.major_value,
        forall|j: int| ib2 <= j < ib ==> (#[trigger] b0[j]).major_value == e.major_value,
    ensures out_ok(op, pl, pr, lm, lp, b0, bp, pm2, pg2, ia2, ib2, c - 1, np2)
{
    let c2 = c - 1;
    assert(pm2[c2] == e && pg2[e.index as int] == rp);
    assert forall|k: int, l: int| c2 <= k < l < pm2.len() implies (#[trigger] pm2[k]).major_value < (#[trigger] pm2[l]).major_value && pm2[k].index != pm2[l].index by {
        assert(pm2[l] == pm[l]);
        if k != c2 { assert(pm2[k] == pm[k]); }
    }
    assert forall|k: int, i: int| c2 <= k < pm2.len() && 0 <= i < ia2 implies (#[trigger] lm[i]).major_value < (#[trigger] pm2[k]).major_value && pm2[k].index != lm[i].index by {
        if k != c2 { assert(pm2[k] == pm[k]); }
    }
    assert forall|k: int, j: int| c2 <= k < pm2.len() && 0 <= j < ib2 implies (#[trigger] b0[j]).major_value < (#[trigger] pm2[k]).major_value by {
        if k != c2 { assert(pm2[k] == pm[k]); }
    }
    assert forall|k: int| c2 <= k < pm2.len() implies (#[trigger] pm2[k]).index < np2 && pm2[k].major_value < 0x80_0000
            && (in_maj(lm, pm2[k].major_value) || in_maj(b0, pm2[k].major_value))
            && exp_rel(op, pl, pr, in_maj(lm, pm2[k].major_value), page_at(lm, lp, pm2[k].major_value),
                in_maj(b0, pm2[k].major_value), page_at(b0, bp, pm2[k].major_value), pg2[pm2[k].index as int]@) by {
        if k != c2 { assert(pm2[k] == pm[k]); assert(pg2[pm[k].index as int] == pg[pm[k].index as int]); }
    }
    assert forall|i: int| ia2 <= i < lm.len() implies out_has(pm2, c2, (#[trigger] lm[i]).major_value) by {
        if i < ia { assert(pm2[c2].major_value == lm[i].major_value); }
        else { let k = choose|k: int| c <= k < pm.len() && #[trigger] pm[k].major_value == lm[i].major_value; assert(pm2[k] == pm[k]); }
    }
    assert forall|j: int| ib2 <= j < b0.len() implies out_has(pm2, c2, (#[trigger] b0[j]).major_value) || (!pr && !in_maj(lm, b0[j].major_value)) by {
        if j < ib { assert(pm2[c2].major_value == b0[j].major_value); }
        else if out_has(pm, c, b0[j].major_value) { let k = choose|k: int| c <= k < pm.len() && #[trigger] pm[k].major_value == b0[j].major_value; assert(pm2[k] == pm[k]); }
    }
}
// the two sides agree on the next (largest remaining) major value: the operator is applied in place
proof fn lemma_step_equal<Op: Fn(&BitPage, &BitPage) -> BitPage>(op: Op, pl: bool, pr: bool, lm: Seq<PageInfo>, lp: Seq<BitPage>, b0: Seq<PageInfo>, bp: Seq<BitPage>,
    pm: Seq<PageInfo>, pg: Seq<BitPage>, ia: int, ib: int, c: int, np: int, r: BitPage, pm2: Seq<PageInfo>, pg2: Seq<BitPage>)
    requires inv3(op, pl, pr, lm, lp, b0, bp, pm, pg, ia, ib, c, np), ia > 0, ib > 0, lm[ia - 1].major_value == b0[ib - 1].major_value,
        call_ensures(op, (&pg[lm[ia - 1].index as int], &bp[b0[ib - 1].index as int]), r),
        pm2 == pm.update(c - 1, lm[ia - 1]), pg2 == pg.update(lm[ia - 1].index as int, r),
    ensures inv3(op, pl, pr, lm, lp, b0, bp, pm2, pg2, ia - 1, ib - 1, c - 1, np)
{
    reveal(inv3);
    let i0 = ia - 1; let j0 = ib - 1;
    let major = lm[i0].major_value;
    let slot = lm[i0].index as int;
    lemma_cnt_bounds(lm, b0, pl, pr, ib);
    lemma_page_at(lm, lp, i0);
    lemma_page_at(b0, bp, j0);
    assert(in_maj(lm, b0[j0].major_value));
    lemma_cnt_b_step(lm, b0, pr, ib);
    assert(pm[i0] == lm[i0]);
    assert(pg[slot] == lp[slot]);
    assert(op_rel(op, page_at(lm, lp, major), page_at(b0, bp, major), r@));
    assert forall|i: int| 0 <= i < i0 implies (#[trigger] lm[i]).major_value < major && lm[i].index != lm[i0].index by { }
    assert forall|j: int| 0 <= j < j0 implies (#[trigger] b0[j]).major_value < major by { assert(b0[j].major_value < b0[j0].major_value); }
    assert forall|k: int| c <= k < pm.len() implies major < (#[trigger] pm[k]).major_value && pm[k].index != lm[i0].index by { assert(lm[i0] == lm[i0]); }
    lemma_out_extend(op, pl, pr, lm, lp, b0, bp, pm, pg, ia, ib, c, np, lm[i0], r, pm2, pg2, i0, j0, np);
    assert forall|i: int| 0 <= i < i0 implies #[trigger] pm2[i] == lm[i] && pg2[lm[i].index as int] == lp[lm[i].index as int] by {
        assert(pm[i] == lm[i]);
        assert(lm[i].index != lm[i0].index);
    }
    assert forall|i: int, j: int| 0 <= i < i0 && j0 <= j < b0.len() implies (#[trigger] lm[i]).major_value < (#[trigger] b0[j]).major_value by {
        if j == j0 { assert(lm[i].major_value < lm[i0].major_value); }
    }
    assert forall|j: int, i: int| 0 <= j < j0 && i0 <= i < lm.len() implies (#[trigger] b0[j]).major_value < (#[trigger] lm[i]).major_value by {
        if i == i0 { assert(b0[j].major_value < b0[j0].major_value); }
    }
}
// the largest remaining left entry has no partner: it passes through (the left side must then be a pass-through side)
proof fn lemma_step_left<Op: Fn(&BitPage, &BitPage) -> BitPage>(op: Op, pl: bool, pr: bool, lm: Seq<PageInfo>, lp: Seq<BitPage>, b0: Seq<PageInfo>, bp: Seq<BitPage>,
    pm: Seq<PageInfo>, pg: Seq<BitPage>, ia: int, ib: int, c: int, np: int, pm2: Seq<PageInfo>)
    requires inv3(op, pl, pr, lm, lp, b0, bp, pm, pg, ia, ib, c, np), ia > 0, 0 <= ib <= b0.len(), ib == 0 || lm[ia - 1].major_value > b0[ib - 1].major_value,
        pm2 == pm.update(c - 1, lm[ia - 1]),
    ensures pl, inv3(op, pl, pr, lm, lp, b0, bp, pm2, pg, ia - 1, ib, c - 1, np)
{
    reveal(inv3);
    let i0 = ia - 1;
    let major = lm[i0].major_value;
    let slot = lm[i0].index as int;
    lemma_cnt_bounds(lm, b0, pl, pr, ib);
    lemma_page_at(lm, lp, i0);
    assert forall|j: int| 0 <= j < ib implies (#[trigger] b0[j]).major_value < major by {
        if j < ib - 1 { assert(b0[j].major_value < b0[ib - 1].major_value); }
    }
    assert(ib < b0.len() ==> b0[ib].major_value > major) by { if ib < b0.len() { assert(lm[i0].major_value < b0[ib].major_value); } }
    lemma_not_in(b0, major, ib);
    assert(pl);
    assert(pm[i0] == lm[i0]);
    assert(pg[slot] == lp[slot]);
    assert(pg.update(slot, pg[slot]) =~= pg);
    assert forall|i: int| 0 <= i < i0 implies (#[trigger] lm[i]).major_value < major && lm[i].index != lm[i0].index by { }
    assert forall|k: int| c <= k < pm.len() implies major < (#[trigger] pm[k]).major_value && pm[k].index != lm[i0].index by { assert(lm[i0] == lm[i0]); }
    lemma_out_extend(op, pl, pr, lm, lp, b0, bp, pm, pg, ia, ib, c, np, lm[i0], pg[slot], pm2, pg, i0, ib, np);
    assert forall|i: int| 0 <= i < i0 implies #[trigger] pm2[i] == lm[i] && pg[lm[i].index as int] == lp[lm[i].index as int] by {
        assert(pm[i] == lm[i]);
    }
    assert forall|j: int, i: int| 0 <= j < ib && i0 <= i < lm.len() implies (#[trigger] b0[j]).major_value < (#[trigger] lm[i]).major_value by { }
}
// the largest remaining right entry has no partner on the left
proof fn lemma_right_no_partner(lm: Seq<PageInfo>, b0: Seq<PageInfo>, ia: int, ib: int)
    requires sorted_m(lm), sorted_m(b0), merge_back_ok(lm, b0, ia, ib), 0 <= ia <= lm.len(), 0 < ib <= b0.len(),
        ia == 0 || lm[ia - 1].major_value < b0[ib - 1].major_value
    ensures !in_maj(lm, b0[ib - 1].major_value), merge_back_ok(lm, b0, ia, ib - 1),
        forall|i: int| 0 <= i < ia ==> (#[trigger] lm[i]).major_value < b0[ib - 1].major_value,
{
    let major = b0[ib - 1].major_value;
    assert forall|i: int| 0 <= i < ia implies (#[trigger] lm[i]).major_value < major by {
        if i < ia - 1 { assert(lm[i].major_value < lm[ia - 1].major_value); }
    }
    assert(ia < lm.len() ==> lm[ia].major_value > major) by { if ia < lm.len() { assert(b0[ib - 1].major_value < lm[ia].major_value); } }
    lemma_not_in(lm, major, ia);
    assert forall|i: int, j: int| 0 <= i < ia && ib - 1 <= j < b0.len() implies (#[trigger] lm[i]).major_value < (#[trigger] b0[j]).major_value by { }
}
proof fn lemma_step_right<Op: Fn(&BitPage, &BitPage) -> BitPage>(op: Op, pl: bool, pr: bool, lm: Seq<PageInfo>, lp: Seq<BitPage>, b0: Seq<PageInfo>, bp: Seq<BitPage>,
    pm: Seq<PageInfo>, pg: Seq<BitPage>, ia: int, ib: int, c: int, np: int, rp: BitPage, pm2: Seq<PageInfo>, pg2: Seq<BitPage>)
    requires inv3(op, pl, pr, lm, lp, b0, bp, pm, pg, ia, ib, c, np), ib > 0, 0 <= ia <= lm.len(), pr,
        ia == 0 || lm[ia - 1].major_value < b0[ib - 1].major_value,
        rp@ == bp[b0[ib - 1].index as int]@, np < 0x1_0000_0000,
        pm2 == pm.update(c - 1, PageInfo { index: np as u32, major_value: b0[ib - 1].major_value }), pg2 == pg.update(np, rp),
    ensures inv3(op, pl, pr, lm, lp, b0, bp, pm2, pg2, ia, ib - 1, c - 1, np + 1)
{
    reveal(inv3);
    let j0 = ib - 1;
    let major = b0[j0].major_value;
    let e = PageInfo { index: np as u32, major_value: major };
    lemma_cnt_bounds(lm, b0, pl, pr, j0);
    lemma_page_at(b0, bp, j0);
    lemma_right_no_partner(lm, b0, ia, ib);
    lemma_cnt_b_step(lm, b0, pr, ib);
    assert(c > ia && np < pm.len());
    assert forall|j: int| 0 <= j < j0 implies (#[trigger] b0[j]).major_value < major by { assert(b0[j].major_value < b0[j0].major_value); }
    assert forall|k: int| c <= k < pm.len() implies major < (#[trigger] pm[k]).major_value && pm[k].index != e.index by { assert(b0[j0] == b0[j0]); }
    assert forall|i: int| 0 <= i < ia implies (#[trigger] lm[i]).major_value < major && lm[i].index != e.index by { }
    lemma_out_extend(op, pl, pr, lm, lp, b0, bp, pm, pg, ia, ib, c, np, e, rp, pm2, pg2, ia, j0, np + 1);
    assert forall|i: int| 0 <= i < ia implies #[trigger] pm2[i] == lm[i] && pg2[lm[i].index as int] == lp[lm[i].index as int] by {
        assert(pm[i] == lm[i]);
    }
}
proof fn lemma_step_right_skip<Op: Fn(&BitPage, &BitPage) -> BitPage>(op: Op, pl: bool, pr: bool, lm: Seq<PageInfo>, lp: Seq<BitPage>, b0: Seq<PageInfo>, bp: Seq<BitPage>,
    pm: Seq<PageInfo>, pg: Seq<BitPage>, ia: int, ib: int, c: int, np: int)
    requires inv3(op, pl, pr, lm, lp, b0, bp, pm, pg, ia, ib, c, np), ib > 0, 0 <= ia <= lm.len(), !pr,
        ia == 0 || lm[ia - 1].major_value < b0[ib - 1].major_value,
    ensures inv3(op, pl, pr, lm, lp, b0, bp, pm, pg, ia, ib - 1, c, np)
{
    reveal(inv3);
    lemma_right_no_partner(lm, b0, ia, ib);
    lemma_cnt_b_step(lm, b0, pr, ib);
    assert forall|k: int, j: int| c <= k < pm.len() && 0 <= j < ib - 1 implies (#[trigger] b0[j]).major_value < (#[trigger] pm[k]).major_value by { }
}

// right entries have a live partner exactly when they have a left partner at all
proof fn lemma_cnt_b_same(a0: Seq<PageInfo>, b0: Seq<PageInfo>, lm: Seq<PageInfo>, pl: bool, pr: bool, k: int)
    requires 0 <= k <= b0.len(),
        forall|major: u32| in_maj(a0, major) && (pl || in_maj(b0, major)) ==> #[trigger] in_maj(lm, major),
        forall|i: int| 0 <= i < lm.len() ==> in_maj(a0, (#[trigger] lm[i]).major_value),
    ensures cnt_b(lm, b0, pr, k) == cnt_b(a0, b0, pr, k)
    decreases k
{
    if k > 0 {
        lemma_cnt_b_same(a0, b0, lm, pl, pr, k - 1);
        let major = b0[k - 1].major_value;
        assert(in_maj(b0, major));
        if in_maj(lm, major) { let i = choose|i: int| 0 <= i < lm.len() && #[trigger] lm[i].major_value == major; assert(in_maj(a0, lm[i].major_value)); }
    }
}
proof fn lemma_cnt_b_no_pr(lm: Seq<PageInfo>, b0: Seq<PageInfo>, k: int)
    requires k >= 0
    ensures cnt_b(lm, b0, false, k) == 0
    decreases k
{ if k > 0 { lemma_cnt_b_no_pr(lm, b0, k - 1); } }
// without a pass-through left side every live entry has a partner, so none can be left once the right side is exhausted
proof fn lemma_no_left_remaining<Op: Fn(&BitPage, &BitPage) -> BitPage>(op: Op, pl: bool, pr: bool, lm: Seq<PageInfo>, lp: Seq<BitPage>, b0: Seq<PageInfo>, bp: Seq<BitPage>,
    pm: Seq<PageInfo>, pg: Seq<BitPage>, ia: int, ib: int, c: int, np: int)
    requires inv3(op, pl, pr, lm, lp, b0, bp, pm, pg, ia, ib, c, np), !pl, ib == 0
    ensures ia == 0
{
    reveal(inv3);
    if ia > 0 {
        let major = lm[ia - 1].major_value;
        assert forall|j: int| 0 <= j < b0.len() implies major < (#[trigger] b0[j]).major_value by { assert(lm[ia - 1].major_value < b0[j].major_value); }
        assert(!in_maj(b0, major)) by {
            if in_maj(b0, major) { let j = choose|j: int| 0 <= j < b0.len() && #[trigger] b0[j].major_value == major; assert(major < b0[j].major_value); }
        }
    }
}
// the merge is finished: the map is well formed again and every major value has the expected page
proof fn lemma_inv3_final<Op: Fn(&BitPage, &BitPage) -> BitPage>(op: Op, pl: bool, pr: bool, lm: Seq<PageInfo>, lp: Seq<BitPage>, b0: Seq<PageInfo>, bp: Seq<BitPage>,
    pm: Seq<PageInfo>, pg: Seq<BitPage>, ib: int, c: int, np: int)
    requires inv3(op, pl, pr, lm, lp, b0, bp, pm, pg, 0, ib, c, np), pr ==> ib == 0
    ensures c == 0, map_wf_s(pm, pg),
        forall|major: u32| exp_rel(op, pl, pr, in_maj(lm, major), page_at(lm, lp, major), in_maj(b0, major), page_at(b0, bp, major), #[trigger] page_at(pm, pg, major)),
{
    reveal(inv3);
    if !pr { lemma_cnt_b_no_pr(lm, b0, ib); }
    assert(c == 0 && np == pm.len());
    assert(sorted_m(pm));
    assert forall|i: int| 0 <= i < pm.len() implies (#[trigger] pm[i]).index < pg.len() && pm[i].major_value < 0x80_0000 by { }
    assert(map_wf_s(pm, pg));
    assert forall|major: u32| exp_rel(op, pl, pr, in_maj(lm, major), page_at(lm, lp, major), in_maj(b0, major), page_at(b0, bp, major), #[trigger] page_at(pm, pg, major)) by {
        if in_maj(pm, major) {
            let k = choose|k: int| 0 <= k < pm.len() && #[trigger] pm[k].major_value == major;
            lemma_page_at(pm, pg, k);
        } else {
            // no entry: the expected page is empty
            if in_maj(lm, major) {
                let i = choose|i: int| 0 <= i < lm.len() && #[trigger] lm[i].major_value == major;
                assert(out_has(pm, 0, lm[i].major_value));
                let k = choose|k: int| 0 <= k < pm.len() && #[trigger] pm[k].major_value == lm[i].major_value;
                assert(in_maj(pm, major));
            }
            if in_maj(b0, major) {
                let j = choose|j: int| 0 <= j < b0.len() && #[trigger] b0[j].major_value == major;
                if j >= ib {
                    if out_has(pm, 0, b0[j].major_value) {
                        let k = choose|k: int| 0 <= k < pm.len() && #[trigger] pm[k].major_value == b0[j].major_value;
                        assert(in_maj(pm, major));
                    }
                } else {
                    // not merged: only possible when the right side does not pass through
                    assert(!pr);
                }
            }
        }
    }
}
// from the live entries back to the original left operand
proof fn lemma_live_bridge<Op: Fn(&BitPage, &BitPage) -> BitPage>(op: Op, pl: bool, pr: bool, lm: Seq<PageInfo>, lp: Seq<BitPage>, a0: Seq<PageInfo>, p0: Seq<BitPage>,
    b0: Seq<PageInfo>, bp: Seq<BitPage>, major: u32, rv: Set<u32>)
    requires live_ok(lm, lp, a0, p0, b0, pl),
        exp_rel(op, pl, pr, in_maj(lm, major), page_at(lm, lp, major), in_maj(b0, major), page_at(b0, bp, major), rv)
    ensures exp_rel(op, pl, pr, in_maj(a0, major), page_at(a0, p0, major), in_maj(b0, major), page_at(b0, bp, major), rv)
{
    if in_maj(lm, major) {
        let i = choose|i: int| 0 <= i < lm.len() && #[trigger] lm[i].major_value == major;
        lemma_page_at(lm, lp, i);
        assert(in_maj(a0, lm[i].major_value));
    } else if in_maj(a0, major) {
        // dropped: the left side does not pass through and there is no partner
        assert(!pl && !in_maj(b0, major));
    }
}

// the kept entries point at distinct, valid page slots (precondition of the compaction)
proof fn lemma_kept_slots(a0: Seq<PageInfo>, p0: Seq<BitPage>, b0: Seq<PageInfo>, pm: Seq<PageInfo>, w: int)
    requires map_wf_s(a0, p0), 0 <= w <= pm.len(), pm.take(w) == kept(a0, b0, a0.len() as int)
    ensures
        forall|i: int| 0 <= i < w ==> (#[trigger] pm[i]).index < p0.len(),
        forall|i: int, j: int| 0 <= i < j < w ==> (#[trigger] pm[i]).index != (#[trigger] pm[j]).index,
{
    let n = a0.len() as int;
    let kp = kept(a0, b0, n);
    lemma_kept_sorted(a0, b0, n);
    assert forall|i: int| 0 <= i < w implies (#[trigger] pm[i]).index < p0.len() by {
        assert(pm[i] == pm.take(w)[i]);
        let src = lemma_kept_sound(a0, b0, n, i);
    }
    assert forall|i: int, j: int| 0 <= i < j < w implies (#[trigger] pm[i]).index != (#[trigger] pm[j]).index by {
        assert(pm[i] == pm.take(w)[i]);
        assert(pm[j] == pm.take(w)[j]);
        let si = lemma_kept_sound(a0, b0, n, i);
        let sj = lemma_kept_sound(a0, b0, n, j);
        assert(kp[i].major_value < kp[j].major_value);
        assert(si != sj);
        if si < sj { assert(a0[si].index != a0[sj].index); } else { assert(a0[sj].index != a0[si].index); }
    }
}

proof fn lemma_mem_page_at(m: Seq<PageInfo>, p: Seq<BitPage>, x: u32)
    requires sorted_m(m)
    ensures mem_s(m, p, x) == page_at(m, p, x >> 9).contains(x & 511)
{
    if mem_s(m, p, x) {
        let i = choose|i: int| mem_at_s(m, p, i, x);
        lemma_page_at(m, p, i);
    }
    if in_maj(m, x >> 9) {
        let i = choose|i: int| 0 <= i < m.len() && #[trigger] m[i].major_value == (x >> 9);
        lemma_page_at(m, p, i);
        if p[m[i].index as int]@.contains(x & 511) { assert(mem_at_s(m, p, i, x)); }
    }
}
// what the page-level result relation means for members, for an operator that acts on page views as the boolean function g
proof fn lemma_process_members<Op: Fn(&BitPage, &BitPage) -> BitPage>(op: Op, g: spec_fn(bool, bool) -> bool,
    a0: Seq<PageInfo>, p0: Seq<BitPage>, b0: Seq<PageInfo>, bp: Seq<BitPage>, rm: Seq<PageInfo>, rp: Seq<BitPage>)
    requires sorted_m(a0), sorted_m(b0), sorted_m(rm), !g(false, false),
        forall|a: BitPage, b: BitPage, r: BitPage| #[trigger] call_ensures(op, (&a, &b), r) ==> forall|y: u32| r@.contains(y) == g(a@.contains(y), b@.contains(y)),
        exists|pl: bool, pr: bool| flags_of(op, pl, pr) && forall|major: u32| exp_rel(op, pl, pr,
            in_maj(a0, major), page_at(a0, p0, major), in_maj(b0, major), page_at(b0, bp, major), #[trigger] page_at(rm, rp, major)),
    ensures forall|x: u32| mem_s(rm, rp, x) == g(mem_s(a0, p0, x), mem_s(b0, bp, x))
{
    let (pl, pr) = choose|pl: bool, pr: bool| flags_of(op, pl, pr) && forall|major: u32| exp_rel(op, pl, pr,
            in_maj(a0, major), page_at(a0, p0, major), in_maj(b0, major), page_at(b0, bp, major), #[trigger] page_at(rm, rp, major));
    // the flags are g(true, false) and g(false, true)
    let (fa, fb, fr) = choose|a: BitPage, b: BitPage, r: BitPage| #[trigger] call_ensures(op, (&a, &b), r)
            && a@ == Set::<u32>::empty().insert(0) && b@ == Set::<u32>::empty() && pl == r@.contains(0);
    assert(fr@.contains(0) == g(fa@.contains(0), fb@.contains(0)));
    assert(pl == g(true, false));
    let (ga, gb, gr) = choose|a: BitPage, b: BitPage, r: BitPage| #[trigger] call_ensures(op, (&a, &b), r)
            && a@ == Set::<u32>::empty() && b@ == Set::<u32>::empty().insert(0) && pr == r@.contains(0);
    assert(gr@.contains(0) == g(ga@.contains(0), gb@.contains(0)));
    assert(pr == g(false, true));
    assert forall|x: u32| mem_s(rm, rp, x) == g(mem_s(a0, p0, x), mem_s(b0, bp, x)) by {
        let major = x >> 9; let y = x & 511;
        lemma_mem_page_at(rm, rp, x); lemma_mem_page_at(a0, p0, x); lemma_mem_page_at(b0, bp, x);
        let rv = page_at(rm, rp, major);
        assert(exp_rel(op, pl, pr, in_maj(a0, major), page_at(a0, p0, major), in_maj(b0, major), page_at(b0, bp, major), rv));
        if in_maj(a0, major) && in_maj(b0, major) {
            let (a, b, r) = choose|a: BitPage, b: BitPage, r: BitPage| #[trigger] call_ensures(op, (&a, &b), r)
                && a@ == page_at(a0, p0, major) && b@ == page_at(b0, bp, major) && r@ == rv;
            assert(r@.contains(y) == g(a@.contains(y), b@.contains(y)));
        }
    }
}

impl BitSet {
    pub closed spec fn wf(&self) -> bool {
        &&& map_wf_s(self.page_map@, self.pages@)
        &&& self.length == sum_len(self.pages@)
    }
    // membership: x is in the set iff the page registered for its major value has bit (x mod 512)
    pub closed spec fn mem(&self, x: u32) -> bool { mem_s(self.page_map@, self.pages@, x) }

//@extract source=bs container="impl BitSet" fn=passthrough_behavior ret=r
//@spec
        requires forall|a: BitPage, b: BitPage| call_requires(*op, (&a, &b))
        ensures flags_of(*op, r.0, r.1)
//@at after "let zero: BitPage = BitPage::new_zeroes();"
        proof { assert(0u32 & 511 == 0) by(bit_vector); }
//@end
    // PROVED in unit U14.2c against exactly this contract (there the enumerate().take() iterator is a stub with std semantics); assumed here: compaction moves the pages
    // of the first new_len map entries to the indices 0..new_len, keeping each entry's major value and page contents
    #[verifier::external_body]
    fn compact(&mut self, new_len: usize)
        requires new_len <= old(self).page_map@.len(), old(self).pages@.len() <= 0x8000_0000, new_len <= 0x8000_0000,
            forall|i: int| 0 <= i < new_len ==> (#[trigger] old(self).page_map@[i]).index < old(self).pages@.len(),
            forall|i: int, j: int| 0 <= i < j < new_len ==> (#[trigger] old(self).page_map@[i]).index != (#[trigger] old(self).page_map@[j]).index,
        ensures final(self).page_map@.len() == old(self).page_map@.len(), final(self).pages@.len() == old(self).pages@.len(),
            final(self).length == old(self).length,
            forall|i: int| 0 <= i < new_len ==> (#[trigger] final(self).page_map@[i]).major_value == old(self).page_map@[i].major_value
                && final(self).page_map@[i].index < new_len
                && final(self).pages@[final(self).page_map@[i].index as int]@ == old(self).pages@[old(self).page_map@[i].index as int]@,
            forall|i: int, j: int| 0 <= i < j < new_len ==> (#[trigger] final(self).page_map@[i]).index != (#[trigger] final(self).page_map@[j]).index,
    { unimplemented!() }
    // PROVED in unit U14.2c against exactly this contract (over vstd's Vec::resize specification); assumed here: truncate or extend with empty pages / zero entries
    #[verifier::external_body]
    fn resize(&mut self, new_len: usize)
        ensures final(self).page_map@.len() == new_len, final(self).pages@.len() == new_len, final(self).length == old(self).length,
            forall|k: int| 0 <= k < new_len && k < old(self).page_map@.len() ==> #[trigger] final(self).page_map@[k] == old(self).page_map@[k],
            forall|k: int| 0 <= k < new_len && k < old(self).pages@.len() ==> #[trigger] final(self).pages@[k] == old(self).pages@[k],
            forall|k: int| old(self).pages@.len() <= k < new_len ==> (#[trigger] final(self).pages@[k])@ == Set::<u32>::empty(),
    { unimplemented!() }
    // ASSUMED (iterator sum outside Verus' subset): the cached length is recomputed as the sum of the page lengths
    #[verifier::external_body]
    fn recompute_length(&mut self)
        ensures final(self).page_map@ == old(self).page_map@, final(self).pages@ == old(self).pages@, final(self).length == sum_len(final(self).pages@)
    { unimplemented!() }
    // ASSUMED (Option::and_then with a closure borrowing self.pages): the page the index-th map entry points to
    #[verifier::external_body]
    fn page_for_index_mut(&mut self, index: usize) -> (r: Option<&mut BitPage>)
        ensures
            (index < old(self).page_map@.len() && old(self).page_map@[index as int].index < old(self).pages@.len()) ==> r is Some,
            r is None ==> *final(self) == *old(self),
            r is Some ==> {
                &&& index < old(self).page_map@.len() && old(self).page_map@[index as int].index < old(self).pages@.len()
                &&& *r->Some_0 == old(self).pages@[old(self).page_map@[index as int].index as int]
                &&& final(self).pages@ == old(self).pages@.update(old(self).page_map@[index as int].index as int, *final(r->Some_0))
                &&& final(self).page_map@ == old(self).page_map@ && final(self).length == old(self).length
            },
    { unimplemented!() }
//@extract source=bs container="impl BitSet" fn=page_for_index ret=r
//@spec
        ensures
            r is Some == (index < self.page_map@.len() && self.page_map@[index as int].index < self.pages@.len()),
            r is Some ==> *r->Some_0 == self.pages@[self.page_map@[index as int].index as int],
//@closure nth=0
-> (o: Option<&BitPage>) ensures o is Some == (info.index < self.pages@.len()), o is Some ==> *o->Some_0 == self.pages@[info.index as int]
//@end


//@extract source=bs container="impl BitSet" fn=process
//@spec
        requires old(self).wf(), other.wf(), forall|a: BitPage, b: BitPage| call_requires(op, (&a, &b))
        ensures final(self).wf(),
            exists|pl: bool, pr: bool| flags_of(op, pl, pr) && forall|major: u32| exp_rel(op, pl, pr,
                in_maj(old(self).page_map@, major), page_at(old(self).page_map@, old(self).pages@, major),
                in_maj(other.page_map@, major), page_at(other.page_map@, other.pages@, major),
                #[trigger] page_at(final(self).page_map@, final(self).pages@, major)),
//@at after "let (passthrough_left, passthrough_right) = BitSet::passthrough_behavior(&op);"
        let ghost a0 = self.page_map@;
        let ghost b0 = other.page_map@;
        let ghost p0 = self.pages@;
        let ghost (pl, pr) = (passthrough_left, passthrough_right);
//@at before "while idx_a < len_a && idx_b < len_b"
        proof { lemma_inv1_init(a0, b0, pl, pr); lemma_len_bound(a0, p0); lemma_len_bound(b0, other.pages@); }
//@at loop "while idx_a < len_a && idx_b < len_b"
            invariant
                other.page_map@ == b0, pl == passthrough_left, pr == passthrough_right,
                len_a == a0.len(), len_b == b0.len(), self.pages@ == p0, self.length == old(self).length,
                a0.len() <= 0x80_0000, b0.len() <= 0x80_0000,
                inv1(a0, b0, self.page_map@, pl, pr, idx_a as int, idx_b as int, write_idx as int, count as int),
            decreases (len_a - idx_a) + (len_b - idx_b)
//@at loop-body "while idx_a < len_a && idx_b < len_b"
            proof { lemma_inv1_facts(a0, b0, self.page_map@, pl, pr, idx_a as int, idx_b as int, write_idx as int, count as int); }
//@at arm-start "Ordering::Equal" nth=0
                    let ghost pm_before = self.page_map@;
                    let ghost (ia0, ib0, w0, c0) = (idx_a as int, idx_b as int, write_idx as int, count as int);
//@at arm-end "Ordering::Equal" nth=0
                    proof { lemma_inv1_equal(a0, b0, pm_before, self.page_map@, pl, pr, ia0, ib0, w0, c0); }
//@at arm-start "Ordering::Less" nth=0
                    proof { lemma_inv1_less(a0, b0, self.page_map@, pl, pr, idx_a as int, idx_b as int, write_idx as int, count as int); }
//@at arm-start "Ordering::Greater" nth=0
                    proof { lemma_inv1_greater(a0, b0, self.page_map@, pl, pr, idx_a as int, idx_b as int, write_idx as int, count as int); }
//@at loop-after "while idx_a < len_a && idx_b < len_b"
        proof {
            lemma_inv1_facts(a0, b0, self.page_map@, pl, pr, idx_a as int, idx_b as int, write_idx as int, count as int);
            lemma_inv1_finish(a0, b0, self.page_map@, pl, pr, idx_a as int, idx_b as int, write_idx as int, count as int);
        }
//@at before "let mut next_page = len_a;"
        proof {
            assert(count == cnt_a(a0, b0, pl, a0.len() as int) + cnt_b(a0, b0, pr, b0.len() as int));
            lemma_cnt_bounds(a0, b0, pl, pr, a0.len() as int); lemma_cnt_bounds(a0, b0, pl, pr, b0.len() as int);
            lemma_kept_len(a0, b0, a0.len() as int);
            if pl { lemma_cnt_a_pl(a0, b0, a0.len() as int); }
        }
        let ghost pm1 = self.page_map@;
//@at before "self.compact(write_idx);"
            proof { lemma_kept_slots(a0, p0, b0, self.page_map@, write_idx as int); }
//@at after "let new_count = count;"
        let ghost lm = self.page_map@.take(len_a as int);
        let ghost lp = self.pages@;
        proof {
            if pl {
                assert(lm =~= a0);
                lemma_live_pl(a0, p0, b0, lp);
            } else {
                let kp = kept(a0, b0, a0.len() as int);
                assert forall|i: int| 0 <= i < lm.len() implies (#[trigger] lm[i]).major_value == kp[i].major_value
                    && lm[i].index < lm.len() && lp[lm[i].index as int]@ == p0[kp[i].index as int]@ by {
                    assert(pm1[i] == pm1.take(write_idx as int)[i]);
                }
                lemma_live_kept(a0, p0, b0, lm, lp);
            }
            assert(live_ok(lm, lp, a0, p0, b0, pl));
            // the number of result pages is the number of live left entries plus the right entries without a live partner
            lemma_cnt_b_same(a0, b0, lm, pl, pr, b0.len() as int);
            assert(static3(lm, b0, other.pages@, pl));
            lemma_inv3_init(op, pl, pr, lm, lp, b0, other.pages@, self.page_map@);
        }
        let ghost bp = other.pages@;
//@at loop "while idx_a > 0 && idx_b > 0"
            invariant
                other.page_map@ == b0, other.pages@ == bp, pl == passthrough_left, pr == passthrough_right,
                forall|a: BitPage, b: BitPage| call_requires(op, (&a, &b)),
                self.page_map@.len() == new_count, new_count <= 0x100_0000, len_b == b0.len(),
                inv3(op, pl, pr, lm, lp, b0, bp, self.page_map@, self.pages@, idx_a as int, idx_b as int, count as int, next_page as int),
            decreases idx_a + idx_b
//@at loop-body "while idx_a > 0 && idx_b > 0"
            proof { lemma_inv3_facts(op, pl, pr, lm, lp, b0, bp, self.page_map@, self.pages@, idx_a as int, idx_b as int, count as int, next_page as int); }
            let ghost pm = self.page_map@;
            let ghost pg = self.pages@;
            let ghost (ia3, ib3, c3, np3) = (idx_a as int, idx_b as int, count as int, next_page as int);
//@at arm-end "Ordering::Equal" nth=1
                    proof {
                        lemma_step_equal(op, pl, pr, lm, lp, b0, bp, pm, pg, ia3, ib3, c3, np3,
                            self.pages@[lm[ia3 - 1].index as int], self.page_map@, self.pages@);
                    }
//@at arm-start "Ordering::Greater" nth=1
                    proof {
                        lemma_step_left(op, pl, pr, lm, lp, b0, bp, pm, pg, ia3, ib3, c3, np3, pm.update(c3 - 1, lm[ia3 - 1]));
                    }
//@at arm-start "Ordering::Less" nth=1
                    proof { if !pr { lemma_step_right_skip(op, pl, pr, lm, lp, b0, bp, pm, pg, ia3, ib3, c3, np3); } }
//@at arm-end "Ordering::Less" nth=1
                    proof {
                        if pr {
                            assert(self.page_map@ =~= pm.update(c3 - 1, PageInfo { index: np3 as u32, major_value: b0[ib3 - 1].major_value }));
                            lemma_step_right(op, pl, pr, lm, lp, b0, bp, pm, pg, ia3, ib3, c3, np3, self.pages@[np3], self.page_map@, self.pages@);
                        }
                    }
//@at loop "while idx_a > 0" nth=1
                invariant
                    other.page_map@ == b0, other.pages@ == bp, pl == passthrough_left, pr == passthrough_right, pl,
                    self.page_map@.len() == new_count, new_count <= 0x100_0000, len_b == b0.len(),
                    idx_a == 0 || idx_b == 0,
                    inv3(op, pl, pr, lm, lp, b0, bp, self.page_map@, self.pages@, idx_a as int, idx_b as int, count as int, next_page as int),
                decreases idx_a
//@at loop-body "while idx_a > 0" nth=1
                proof {
                    lemma_inv3_facts(op, pl, pr, lm, lp, b0, bp, self.page_map@, self.pages@, idx_a as int, idx_b as int, count as int, next_page as int);
                    lemma_step_left(op, pl, pr, lm, lp, b0, bp, self.page_map@, self.pages@, idx_a as int, idx_b as int, count as int, next_page as int,
                        self.page_map@.update(count - 1, lm[idx_a - 1]));
                }
//@at before "if passthrough_right { while idx_b > 0"
        proof {
            if !pl && idx_b == 0 {
                lemma_no_left_remaining(op, pl, pr, lm, lp, b0, bp, self.page_map@, self.pages@, idx_a as int, idx_b as int, count as int, next_page as int);
            }
            assert(idx_a == 0);
        }
//@at loop "while idx_b > 0"
                invariant
                    other.page_map@ == b0, other.pages@ == bp, pl == passthrough_left, pr == passthrough_right, pr,
                    self.page_map@.len() == new_count, new_count <= 0x100_0000, len_b == b0.len(), idx_a == 0,
                    inv3(op, pl, pr, lm, lp, b0, bp, self.page_map@, self.pages@, idx_a as int, idx_b as int, count as int, next_page as int),
                decreases idx_b
//@at loop-body "while idx_b > 0"
                proof { lemma_inv3_facts(op, pl, pr, lm, lp, b0, bp, self.page_map@, self.pages@, idx_a as int, idx_b as int, count as int, next_page as int); }
                let ghost pm = self.page_map@;
                let ghost pg = self.pages@;
                let ghost (ib4, c4, np4) = (idx_b as int, count as int, next_page as int);
//@at loop-end "while idx_b > 0"
                proof {
                    assert(self.page_map@ =~= pm.update(c4 - 1, PageInfo { index: np4 as u32, major_value: b0[ib4 - 1].major_value }));
                    lemma_step_right(op, pl, pr, lm, lp, b0, bp, pm, pg, idx_a as int, ib4, c4, np4, self.pages@[np4], self.page_map@, self.pages@);
                }
//@at before "self.resize(new_count);"
        proof {
            lemma_inv3_final(op, pl, pr, lm, lp, b0, bp, self.page_map@, self.pages@, idx_b as int, count as int, next_page as int);
        }
        let ghost pm_end = self.page_map@;
        let ghost pg_end = self.pages@;
//@at after "self.recompute_length();"
        proof {
            assert(self.page_map@ =~= pm_end);
            assert(self.pages@ =~= pg_end);
            assert forall|major: u32| exp_rel(op, pl, pr,
                in_maj(a0, major), page_at(a0, p0, major), in_maj(b0, major), page_at(b0, bp, major),
                #[trigger] page_at(self.page_map@, self.pages@, major)) by {
                lemma_live_bridge(op, pl, pr, lm, lp, a0, p0, b0, bp, major, page_at(pm_end, pg_end, major));
            }
        }
//@end

//@extract source=bs container="impl BitSet" fn=union
//@spec
        requires old(self).wf(), other.wf()
        ensures final(self).wf(), forall|x: u32| final(self).mem(x) == (old(self).mem(x) || other.mem(x))
//@at body-end
        proof {
            lemma_process_members(BitPage::union, |a: bool, b: bool| a || b, old(self).page_map@, old(self).pages@, other.page_map@, other.pages@, self.page_map@, self.pages@);
        }
//@end

//@extract source=bs container="impl BitSet" fn=intersect
//@spec
        requires old(self).wf(), other.wf()
        ensures final(self).wf(), forall|x: u32| final(self).mem(x) == (old(self).mem(x) && other.mem(x))
//@at body-end
        proof {
            lemma_process_members(BitPage::intersect, |a: bool, b: bool| a && b, old(self).page_map@, old(self).pages@, other.page_map@, other.pages@, self.page_map@, self.pages@);
        }
//@end

//@extract source=bs container="impl BitSet" fn=subtract
//@spec
        requires old(self).wf(), other.wf()
        ensures final(self).wf(), forall|x: u32| final(self).mem(x) == (old(self).mem(x) && !other.mem(x))
//@at body-end
        proof {
            lemma_process_members(BitPage::subtract, |a: bool, b: bool| a && !b, old(self).page_map@, old(self).pages@, other.page_map@, other.pages@, self.page_map@, self.pages@);
        }
//@end

//@extract source=bs container="impl BitSet" fn=reversed_subtract
//@spec
        requires old(self).wf(), other.wf()
        ensures final(self).wf(), forall|x: u32| final(self).mem(x) == (other.mem(x) && !old(self).mem(x))
//@rewrite "|a, b|" => "|a: &BitPage, b: &BitPage|"
//@bindclosure nth=0 name=op
//@closure nth=0
-> (r: BitPage) ensures r@ == b@.difference(a@)
//@at body-end
        proof {
            lemma_process_members(op, |a: bool, b: bool| !a && b, old(self).page_map@, old(self).pages@, other.page_map@, other.pages@, self.page_map@, self.pages@);
        }
//@end
}

proof fn lemma_split(x: u32, y: u32)
    ensures (x == y) == ((x >> 9) == (y >> 9) && (x & 511) == (y & 511))
{ assert((x == y) == ((x >> 9) == (y >> 9) && (x & 511) == (y & 511))) by(bit_vector); }
}
fn main() {}
