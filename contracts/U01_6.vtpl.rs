//@unit U01.6 props=C01,C20 tier=quick
//@source name=fd kind=file path=read-fonts/src/font_data.rs
//@source name=raw kind=file path=font-types/src/raw.rs
//@source name=tr kind=file path=read-fonts/src/table_ref.rs
//@source name=arr kind=file path=read-fonts/src/array.rs
// C01: the byte-access primitives every parsed table goes through - FontData::{len, is_empty, split_off, take_up_to,
// read_at, read_be_at, check_in_bounds, read_array, cursor, as_bytes, new} and Cursor::{advance, advance_by, read, read_be,
// read_array, position, remaining_bytes, remaining, is_empty, finish} - on the real text, for buffers of EVERY length and
// every offset/count: a read succeeds iff the accessed range lies inside the buffer (no wrap-around), returns the bytes at
// that range, never panics (no overflow: every exec arithmetic operation is an obligation), and a cursor's position is
// monotone and saturating, so `finish`/`position` succeed iff everything read so far was in bounds. This lifts the
// buffer-length bound of the Kani units U01.1/U01.2.
// Assumed: Scalar::read / BigEndian::from_slice succeed iff the slice has RAW_BYTE_LEN bytes (proved per type over all
// byte patterns by Kani unit U15.3); bytemuck::cast_slice's divisibility precondition is the panic condition of the real
// function for alignment-1 element types (every read_array element type in read-fonts is a BigEndian record).
// Extraction rewrites: closure parameter `_` -> `_x` (Verus rejects `_` closure parameters); closure bodies whose value the
// proof needs are wrapped as `-> (o: T) ensures .. { body }` (ghost result naming only).
use vstd::prelude::*;
verus! {
//@prelude std_combinators

pub assume_specification<Idx: Clone>[<core::ops::Range<Idx> as Clone>::clone](r: &core::ops::Range<Idx>) -> (o: core::ops::Range<Idx>)
    ensures vstd::pervasive::cloned(r.start, o.start), vstd::pervasive::cloned(r.end, o.end);

//@require source=fd seq="pub struct FontData<'a> { bytes: &'a [u8], }"
//@require source=fd seq="pub struct Cursor<'a> { pos: usize, data: FontData<'a>, }"
//@require source=tr seq="pub struct TableRef<'a, T> { pub(crate) shape: T, pub(crate) data: FontData<'a>, }"
//@require source=raw seq="fn read(slice: &[u8]) -> Option<Self>"
//@require source=raw seq="pub trait FixedSize: Sized"
pub enum ReadError { OutOfBounds, InvalidArrayLen, Other }

pub trait FixedSize: Sized {
    const RAW_BYTE_LEN: usize;
}
pub trait AnyBitPattern {}
pub trait Scalar: FixedSize {
    spec fn decode(bytes: Seq<u8>) -> Self;
    fn read(slice: &[u8]) -> (r: Option<Self>)
        ensures r.is_some() == (slice@.len() == Self::RAW_BYTE_LEN), r.is_some() ==> r->Some_0 == Self::decode(slice@);
}

#[verifier::external_body] #[verifier::accept_recursive_types(T)]
pub struct BigEndian<T> { _p: core::marker::PhantomData<T> }
impl<T: Scalar> BigEndian<T> {
    pub uninterp spec fn raw(&self) -> Seq<u8>;
    #[verifier::external_body]
    pub fn from_slice(slice: &[u8]) -> (r: Option<Self>)
        ensures r.is_some() == (slice@.len() == T::RAW_BYTE_LEN), r.is_some() ==> r->Some_0.raw() == slice@
    { unimplemented!() }
}

pub mod bytemuck {
    use super::*;
    #[verifier::external_body]
    pub fn cast_slice<A, B>(a: &[A]) -> (r: &[B])
        requires vstd::layout::size_of::<B>() != 0, (a@.len() * vstd::layout::size_of::<A>()) % vstd::layout::size_of::<B>() == 0
        ensures r@.len() * vstd::layout::size_of::<B>() == a@.len() * vstd::layout::size_of::<A>()
    { unimplemented!() }
    #[verifier::external_body]
    pub fn from_bytes<T>(s: &[u8]) -> (r: &T)
        requires s@.len() == vstd::layout::size_of::<T>()
    { unimplemented!() }
}

#[derive(Clone, Copy)]
pub struct FontData<'a> { bytes: &'a [u8] }

#[derive(Clone, Copy)]
pub struct Cursor<'a> { pos: usize, data: FontData<'a> }

pub struct TableRef<'a, T> { shape: T, data: FontData<'a> }

impl<'a> FontData<'a> {
//@extract source=fd container="impl<'a> FontData<'a>" fn=new ret=r
//@spec
        ensures r.bytes == bytes
//@end

//@extract source=fd container="impl<'a> FontData<'a>" fn=len ret=r
//@spec
        ensures r == self.bytes@.len()
//@end

//@extract source=fd container="impl<'a> FontData<'a>" fn=is_empty ret=r
//@spec
        ensures r == (self.bytes@.len() == 0)
//@end

//@extract source=fd container="impl<'a> FontData<'a>" fn=split_off ret=r
//@spec
        ensures r.is_some() == (pos <= self.bytes@.len()),
            r.is_some() ==> r->Some_0.bytes@ == self.bytes@.subrange(pos as int, self.bytes@.len() as int)
//@at before "FontData { bytes }"
-> (o: FontData<'a>) ensures o.bytes == bytes {
//@at after "FontData { bytes }"
}
//@end

//@extract source=fd container="impl<'a> FontData<'a>" fn=take_up_to ret=r
//@spec
        ensures r.is_some() == (pos <= old(self).bytes@.len()),
            r.is_some() ==> r->Some_0.bytes@ == old(self).bytes@.subrange(0, pos as int)
                && final(self).bytes@ == old(self).bytes@.subrange(pos as int, old(self).bytes@.len() as int),
            r.is_none() ==> final(self).bytes@ == old(self).bytes@,
//@end

//@extract source=fd container="impl<'a> FontData<'a>" fn=read_at ret=r
//@spec
        ensures
            r.is_ok() == (offset as int + T::RAW_BYTE_LEN <= self.bytes@.len()),
            r.is_ok() ==> r->Ok_0 == T::decode(self.bytes@.subrange(offset as int, offset + T::RAW_BYTE_LEN)),
            r.is_err() ==> r->Err_0 is OutOfBounds,
//@at body-start
        proof { let n = self.bytes.len(); }
//@end

//@extract source=fd container="impl<'a> FontData<'a>" fn=read_be_at ret=r
//@spec
        ensures
            r.is_ok() == (offset as int + T::RAW_BYTE_LEN <= self.bytes@.len()),
            r.is_ok() ==> r->Ok_0.raw() == self.bytes@.subrange(offset as int, offset + T::RAW_BYTE_LEN),
            r.is_err() ==> r->Err_0 is OutOfBounds,
//@at body-start
        proof { let n = self.bytes.len(); }
//@end

//@extract source=fd container="impl<'a> FontData<'a>" fn=check_in_bounds ret=r
//@rewrite "|_|" => "|_x|"
//@spec
        ensures r.is_ok() == (offset <= self.bytes@.len())
//@end

//@extract source=fd container="impl<'a> FontData<'a>" fn=read_array ret=r
//@rewrite "Range<usize>" => "core::ops::Range<usize>"
//@spec
        ensures
            r.is_ok() == (range.start <= range.end <= self.bytes@.len() && vstd::layout::size_of::<T>() != 0
                && ((range.end - range.start) as nat) % vstd::layout::size_of::<T>() == 0),
            r.is_ok() ==> r->Ok_0@.len() * vstd::layout::size_of::<T>() == range.end - range.start,
//@at after ".ok_or(ReadError::OutOfBounds)?;"
        proof {
            assert(range.start <= range.end <= self.bytes@.len());
            assert(bytes@.len() == range.end - range.start);
            assert(vstd::layout::size_of::<u8>() == 1);
        }
//@end

//@extract source=fd container="impl<'a> FontData<'a>" fn=cursor ret=r
//@spec
        ensures r.pos == 0, r.data == *self
//@end

//@extract source=fd container="impl<'a> FontData<'a>" fn=as_bytes ret=r
//@spec
        ensures r == self.bytes
//@end
}

impl<'a> Cursor<'a> {
    pub open spec fn sat_add(a: usize, b: int) -> int { if a + b > usize::MAX { usize::MAX as int } else { a + b } }

//@extract source=fd container="impl<'a> Cursor<'a>" fn=advance
//@spec
        ensures final(self).data == old(self).data, final(self).pos as int == Self::sat_add(old(self).pos, T::RAW_BYTE_LEN as int),
//@end

//@extract source=fd container="impl<'a> Cursor<'a>" fn=advance_by
//@spec
        ensures final(self).data == old(self).data, final(self).pos as int == Self::sat_add(old(self).pos, n_bytes as int),
//@end

//@extract source=fd container="impl<'a> Cursor<'a>" fn=read ret=r
//@spec
        ensures final(self).data == old(self).data, final(self).pos >= old(self).pos,
            r.is_ok() == (old(self).pos as int + T::RAW_BYTE_LEN <= old(self).data.bytes@.len()),
            r.is_ok() ==> final(self).pos == old(self).pos + T::RAW_BYTE_LEN
                && r->Ok_0 == T::decode(old(self).data.bytes@.subrange(old(self).pos as int, old(self).pos + T::RAW_BYTE_LEN)),
//@at body-start
        proof { let n = self.data.bytes.len(); }
//@end

//@extract source=fd container="impl<'a> Cursor<'a>" fn=read_be ret=r
//@spec
        ensures final(self).data == old(self).data, final(self).pos >= old(self).pos,
            r.is_ok() == (old(self).pos as int + T::RAW_BYTE_LEN <= old(self).data.bytes@.len()),
            r.is_ok() ==> final(self).pos == old(self).pos + T::RAW_BYTE_LEN
                && r->Ok_0.raw() == old(self).data.bytes@.subrange(old(self).pos as int, old(self).pos + T::RAW_BYTE_LEN),
//@at body-start
        proof { let n = self.data.bytes.len(); }
//@end

//@extract source=fd container="impl<'a> Cursor<'a>" fn=read_array ret=r
//@spec
        ensures final(self).data == old(self).data, final(self).pos >= old(self).pos,
            r.is_ok() == (old(self).pos + n_elem * T::RAW_BYTE_LEN <= old(self).data.bytes@.len() && vstd::layout::size_of::<T>() != 0
                && ((n_elem * T::RAW_BYTE_LEN) as nat) % vstd::layout::size_of::<T>() == 0),
            r.is_ok() ==> final(self).pos == old(self).pos + n_elem * T::RAW_BYTE_LEN
                && r->Ok_0@.len() * vstd::layout::size_of::<T>() == n_elem * T::RAW_BYTE_LEN,
//@at body-start
        proof { let n = self.data.bytes.len(); }
//@end

//@extract source=fd container="impl<'a> Cursor<'a>" fn=position ret=r
//@rewrite "|_|" => "|_x|"
//@spec
        ensures r.is_ok() == (self.pos <= self.data.bytes@.len()), r.is_ok() ==> r->Ok_0 == self.pos
//@at after "|_x|"
-> (o: usize) ensures o == self.pos {
//@at after "|_x| self.pos"
}
//@end

//@extract source=fd container="impl<'a> Cursor<'a>" fn=remaining_bytes ret=r
//@spec
        ensures r as int == (if self.pos <= self.data.bytes@.len() { self.data.bytes@.len() - self.pos } else { 0 })
//@end

//@extract source=fd container="impl<'a> Cursor<'a>" fn=remaining ret=r
//@spec
        ensures r.is_some() == (self.pos <= self.data.bytes@.len()),
            r.is_some() ==> r->Some_0.bytes@ == self.data.bytes@.subrange(self.pos as int, self.data.bytes@.len() as int)
//@end

//@extract source=fd container="impl<'a> Cursor<'a>" fn=is_empty ret=r
//@spec
        ensures r == (self.pos >= self.data.bytes@.len())
//@end

//@extract source=fd container="impl<'a> Cursor<'a>" fn=finish ret=r
//@spec
        ensures r.is_ok() == (self.pos <= self.data.bytes@.len()),
            r.is_ok() ==> r->Ok_0.data == self.data && r->Ok_0.shape == shape
//@end
}

// ---- array.rs: ComputedArray / VarLenArray (item readers are abstract trait methods: no panic is their own obligation)
pub trait ReadArgs { type Args; }
pub trait ComputeSize: ReadArgs {
    fn compute_size(args: &Self::Args) -> Result<usize, ReadError>;
}
pub trait FontReadWithArgs<'a>: Sized + ReadArgs {
    fn read_with_args(data: FontData<'a>, args: &Self::Args) -> Result<Self, ReadError>;
}
pub trait FontRead<'a>: Sized {
    fn read(data: FontData<'a>) -> Result<Self, ReadError>;
}
pub trait VarSize {
    fn read_len_at(data: FontData, pos: usize) -> Option<usize>;
}

//@require source=arr seq="pub struct ComputedArray<'a, T: ReadArgs> { item_len: usize, len: usize, data: FontData<'a>, args: T::Args, }"
pub struct ComputedArray<'a, T: ReadArgs> {
    item_len: usize,
    len: usize,
    data: FontData<'a>,
    args: T::Args,
}

impl<'a, T: ComputeSize> ComputedArray<'a, T> {
//@extract source=arr container="impl<'a, T: ComputeSize> ComputedArray<'a, T>" fn=new ret=r
//@spec
        ensures r.is_ok() ==> r->Ok_0.data == data && r->Ok_0.len * r->Ok_0.item_len <= data.bytes@.len()
            && (r->Ok_0.item_len == 0 ==> r->Ok_0.len == 0) && (r->Ok_0.item_len > 0 ==> r->Ok_0.len == (data.bytes@.len() as int) / (r->Ok_0.item_len as int))
//@at before "Ok(ComputedArray {"
        proof {
            if item_len > 0 {
                let n = data.bytes@.len() as int; let d = item_len as int;
                assert((n / d) * d <= n) by(nonlinear_arith) requires d > 0, n >= 0;
            }
        }
//@end

//@extract source=arr container="impl<'a, T: ComputeSize> ComputedArray<'a, T>" fn=len ret=r
//@spec
        ensures r == self.len
//@end

//@extract source=arr container="impl<'a, T: ComputeSize> ComputedArray<'a, T>" fn=is_empty ret=r
//@spec
        ensures r == (self.len == 0)
//@end
}

impl<'a, T> ComputedArray<'a, T>
where
    T: FontReadWithArgs<'a>,
    T::Args: Copy + 'static,
{
//@extract source=arr container="impl<'a, T> ComputedArray<'a, T>" fn=get ret=r
//@spec
        ensures idx * self.item_len > self.data.bytes@.len() ==> r.is_err()
//@end
}

//@require source=arr seq="pub struct VarLenArray<'a, T> { data: FontData<'a>, phantom: std::marker::PhantomData<*const T>, }"
pub struct VarLenArray<'a, T> {
    data: FontData<'a>,
    phantom: std::marker::PhantomData<*const T>,
}

impl<'a, T: FontRead<'a> + VarSize> VarLenArray<'a, T> {
//@extract source=arr container="impl<'a, T: FontRead<'a> + VarSize> VarLenArray<'a, T>" fn=get ret=r
//@spec
        // total (no overflow: the running position is advanced with checked_add) and terminating for every index
//@end
}

}
fn main() {}
