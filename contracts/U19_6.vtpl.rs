//@unit U19.6 props=C19 tier=quick
//@source name=pm kind=file path=incremental-font-transfer/src/patchmap.rs
// C19 ("prefers among invalidating candidates the one with the largest intersection, earliest entry first"): the ordering that
// select_invalidating_candidate maximises. IntersectionInfo::cmp on the real text equals the specification's ordering: more
// intersecting code points first, then more layout tags, then the larger design-space intersection, and among equals the EARLIER
// entry is the greater one. Extraction: the method of `impl Ord for IntersectionInfo` is re-homed as an inherent method.
// ASSUMED: BTreeMap<Tag, Fixed>::cmp is some fixed total order `ord` (std), Ordering::reverse.
use vstd::prelude::*;
use std::cmp::Ordering;
use vstd::std_specs::cmp::OrdSpec;
verus! {
//@prelude std_combinators
#[verifier::external_body] #[verifier::accept_recursive_types(K)] #[verifier::accept_recursive_types(V)] pub struct BTreeMap<K, V> { _p: core::marker::PhantomData<(K, V)> }
#[verifier::external_body] pub struct Tag { _p: u8 }
#[verifier::external_body] pub struct Fixed { _p: u8 }
impl<K, V> BTreeMap<K, V> {
    pub uninterp spec fn ord(&self, other: &Self) -> Ordering;
    #[verifier::external_body]
    pub fn cmp(&self, other: &Self) -> (r: Ordering) ensures r == self.ord(other) { unimplemented!() }
}
//@require source=pm seq="pub(crate) struct IntersectionInfo { intersecting_codepoints: u64, intersecting_layout_tags: usize, intersecting_design_space: BTreeMap<Tag, Fixed>, entry_order: usize, }"
pub struct IntersectionInfo {
    intersecting_codepoints: u64,
    intersecting_layout_tags: usize,
    intersecting_design_space: BTreeMap<Tag, Fixed>,
    entry_order: usize,
}
pub open spec fn rev(o: Ordering) -> Ordering { match o { Ordering::Less => Ordering::Greater, Ordering::Equal => Ordering::Equal, Ordering::Greater => Ordering::Less } }
pub assume_specification[Ordering::reverse](o: Ordering) -> (r: Ordering) ensures r == rev(o);
impl IntersectionInfo {
    // IFT "invalidating patch selection": larger code point intersection first, then more layout tags, then the larger design
    // space; among equals the EARLIER entry is the greater one (so that max() picks it)
    spec fn spec_cmp(&self, other: &Self) -> Ordering {
        if self.intersecting_codepoints != other.intersecting_codepoints { if self.intersecting_codepoints < other.intersecting_codepoints { Ordering::Less } else { Ordering::Greater } }
        else if self.intersecting_layout_tags != other.intersecting_layout_tags { if self.intersecting_layout_tags < other.intersecting_layout_tags { Ordering::Less } else { Ordering::Greater } }
        else if self.intersecting_design_space.ord(&other.intersecting_design_space) != Ordering::Equal { self.intersecting_design_space.ord(&other.intersecting_design_space) }
        else if self.entry_order < other.entry_order { Ordering::Greater } else if self.entry_order > other.entry_order { Ordering::Less } else { Ordering::Equal }
    }
//@extract source=pm container="impl Ord for IntersectionInfo" fn=cmp ret=r
//@spec
        ensures r == self.spec_cmp(other)
//@end
}
}
fn main() {}
