//@unit U14.5 props=C14 tier=quick
//@source name=rs kind=file path=read-fonts/src/collections/range_set.rs
// RangeSet::insert (C14): the representation invariant (every range well formed, ranges pairwise disjoint AND
// non-adjacent) is preserved, and membership afterwards is exactly old membership united with [start, end] -
// for an unbounded number of stored ranges. Element type instantiated at u32 (documented rewrite); BTreeMap::range
// has no vstd specification, so next_range/prev_range enter as stubs with "least key >= / greatest key <" contracts.
use vstd::prelude::*;
use std::collections::BTreeMap;
use core::cmp::{max, min};
use core::ops::RangeInclusive;
use vstd::std_specs::cmp::OrdSpec;
verus! {
//@prelude std_combinators

pub assume_specification<Idx>[ RangeInclusive::<Idx>::start ](r: &RangeInclusive<Idx>) -> (s: &Idx)
    ensures *s == r@.start;
pub assume_specification<Idx>[ RangeInclusive::<Idx>::end ](r: &RangeInclusive<Idx>) -> (s: &Idx)
    ensures *s == r@.end;
pub assume_specification<T>[ core::cmp::min ](a: T, b: T) -> (r: T)
    where T: core::cmp::Ord + core::marker::Destruct
    ensures T::obeys_cmp_spec() ==> r == (if b.cmp_spec(&a) == core::cmp::Ordering::Less { b } else { a });
pub assume_specification<T>[ core::cmp::max ](a: T, b: T) -> (r: T)
    where T: core::cmp::Ord + core::marker::Destruct
    ensures T::obeys_cmp_spec() ==> r == (if b.cmp_spec(&a) == core::cmp::Ordering::Less { a } else { b });

//@require source=rs seq="pub struct RangeSet<T> { ranges: BTreeMap<T, T>, }"
pub struct RangeSet {
    ranges: BTreeMap<u32, u32>,
}

// abstract membership of the range map
pub open spec fn covers(m: Map<u32, u32>, x: u32) -> bool {
    exists|s: u32| #[trigger] m.dom().contains(s) && s <= x <= m[s]
}

// representation invariant: each range well-formed, ranges pairwise disjoint and non-adjacent
pub open spec fn wf(m: Map<u32, u32>) -> bool {
    &&& forall|s: u32| #[trigger] m.dom().contains(s) ==> s <= m[s]
    &&& forall|s: u32, t: u32| #[trigger] m.dom().contains(s) && #[trigger] m.dom().contains(t) && s < t ==> (m[s] as int) + 1 < t as int
}

//@require source=rs seq="pub trait OrdAdjacency { fn are_adjacent(self, rhs: Self) -> bool; }"
pub trait OrdAdjacency: Sized {
    spec fn adj(self, rhs: Self) -> bool;
    fn are_adjacent(self, rhs: Self) -> (r: bool)
        ensures r == self.adj(rhs);
}
impl OrdAdjacency for u32 {
    open spec fn adj(self, rhs: u32) -> bool { self as int + 1 == rhs as int || rhs as int + 1 == self as int }
    // real body uses matches!/checked_add/map(closure): outside Verus' subset; proved for all (u32,u32) by Kani unit U14.5k
    #[verifier::external_body]
    fn are_adjacent(self, rhs: u32) -> (r: bool) { unimplemented!() }
}

//@extract source=rs fn=ranges_overlap_or_adjacent ret=r
//@rewrite "<T>(a_start: T, a_end: T, b_start: T, b_end: T)" => "(a_start: u32, a_end: u32, b_start: u32, b_end: u32)"
//@rewrite "where T: Ord + OrdAdjacency," => ""
//@spec
    ensures r == ((a_start <= b_end && b_start <= a_end) || a_end.adj(b_start) || b_end.adj(a_start))
//@end

//@extract source=rs fn=range_is_subset ret=r
//@rewrite "<T>(a_start: T, a_end: T, b_start: T, b_end: T)" => "(a_start: u32, a_end: u32, b_start: u32, b_end: u32)"
//@rewrite "where T: Ord," => ""
//@spec
    ensures r == (a_start >= b_start && a_end <= b_end)
//@end

impl RangeSet {
    #[verifier::external_body]
    fn next_range(&self, start: u32) -> (r: Option<(u32, u32)>)
        ensures
            match r {
                Some((s, e)) => self.ranges@.dom().contains(s) && self.ranges@[s] == e && s >= start
                    && forall|t: u32| #[trigger] self.ranges@.dom().contains(t) && t >= start ==> t >= s,
                None => forall|t: u32| #[trigger] self.ranges@.dom().contains(t) ==> t < start,
            }
    { unimplemented!() }

    #[verifier::external_body]
    fn prev_range(&self, start: u32) -> (r: Option<(u32, u32)>)
        ensures
            match r {
                Some((s, e)) => self.ranges@.dom().contains(s) && self.ranges@[s] == e && s < start
                    && forall|t: u32| #[trigger] self.ranges@.dom().contains(t) && t < start ==> t <= s,
                None => forall|t: u32| #[trigger] self.ranges@.dom().contains(t) ==> t >= start,
            }
    { unimplemented!() }

//@extract source=rs container="impl<T> RangeSet<T>" fn=insert
//@rewrite "RangeInclusive<T>" => "RangeInclusive<u32>"
//@spec
        requires wf(old(self).ranges@), old(self).ranges@.dom().finite()
        ensures
            wf(final(self).ranges@), final(self).ranges@.dom().finite(),
            forall|x: u32| #![trigger covers(final(self).ranges@, x)] #![trigger covers(old(self).ranges@, x)] covers(final(self).ranges@, x) == (covers(old(self).ranges@, x) || (range@.start <= x <= range@.end)),
//@at after "let mut end = *range.end();"
        let ghost m0 = self.ranges@;
//@at after "if range_is_subset(start, end, prev_start, prev_end) {"
                proof {
                    assert forall|x: u32| covers(m0, x) == (covers(m0, x) || (range@.start <= x <= range@.end)) by {
                        if range@.start <= x <= range@.end { assert(m0.dom().contains(prev_start) && prev_start <= x <= m0[prev_start]); }
                    }
                }
//@at after "self.ranges.remove(&prev_start);"
                proof {
                    let m1 = self.ranges@;
                    assert forall|x: u32| #![trigger covers(m0, x)] #![trigger covers(m1, x)] (covers(m0, x) || (range@.start <= x <= range@.end)) == (covers(m1, x) || (start <= x <= end)) by {
                        if covers(m0, x) {
                            let s = choose|s: u32| #[trigger] m0.dom().contains(s) && s <= x <= m0[s];
                            if s != prev_start { assert(m1.dom().contains(s) && s <= x <= m1[s]); }
                        }
                        if covers(m1, x) {
                            let s = choose|s: u32| #[trigger] m1.dom().contains(s) && s <= x <= m1[s];
                            assert(m0.dom().contains(s) && s <= x <= m0[s]);
                        }
                        if start <= x <= end && !(range@.start <= x <= range@.end) {
                            assert(m0.dom().contains(prev_start) && prev_start <= x <= m0[prev_start]);
                        }
                    }
                }
//@at loop "loop"
            invariant
                wf(self.ranges@), start <= end, m0 == old(self).ranges@,
                forall|x: u32| #![trigger covers(m0, x)] #![trigger covers(self.ranges@, x)] (covers(m0, x) || (range@.start <= x <= range@.end)) == (covers(self.ranges@, x) || (start <= x <= end)),
                forall|s: u32| #[trigger] self.ranges@.dom().contains(s) && s < start ==> (self.ranges@[s] as int) + 1 < start as int,
                self.ranges@.dom().finite(),
            decreases self.ranges@.dom().len()
//@at loop-body "loop"
            let ghost m1 = self.ranges@;
//@at after "self.ranges.insert(start, end);" nth=0
                proof {
                    let m2 = self.ranges@;
                    assert forall|x: u32| #![trigger covers(m1, x)] #![trigger covers(m2, x)] (covers(m1, x) || (start <= x <= end)) == covers(m2, x) by {
                        if covers(m1, x) {
                            let s = choose|s: u32| #[trigger] m1.dom().contains(s) && s <= x <= m1[s];
                            assert(s != start);
                            assert(m2.dom().contains(s) && s <= x <= m2[s]);
                        }
                        if start <= x <= end { assert(m2.dom().contains(start) && start <= x <= m2[start]); }
                        if covers(m2, x) {
                            let s = choose|s: u32| #[trigger] m2.dom().contains(s) && s <= x <= m2[s];
                            if s != start { assert(m1.dom().contains(s) && s <= x <= m1[s]); }
                        }
                    }
                }
//@at after "if range_is_subset(start, end, next_start, next_end) {"
                proof {
                    assert forall|x: u32| covers(m1, x) == (covers(m1, x) || (start <= x <= end)) by {
                        if start <= x <= end { assert(m1.dom().contains(next_start) && next_start <= x <= m1[next_start]); }
                    }
                }
//@at before "start = min(start, next_start);"
                let ghost (s0, e0) = (start, end);
//@at after "self.ranges.remove(&next_start);"
                proof {
                    let m2 = self.ranges@;
                    assert(start == s0);
                    assert forall|x: u32| #![trigger covers(m1, x)] #![trigger covers(m2, x)] (covers(m1, x) || (s0 <= x <= e0)) == (covers(m2, x) || (start <= x <= end)) by {
                        if covers(m1, x) {
                            let s = choose|s: u32| #[trigger] m1.dom().contains(s) && s <= x <= m1[s];
                            if s != next_start { assert(m2.dom().contains(s) && s <= x <= m2[s]); }
                        }
                        if covers(m2, x) {
                            let s = choose|s: u32| #[trigger] m2.dom().contains(s) && s <= x <= m2[s];
                            assert(m1.dom().contains(s) && s <= x <= m1[s]);
                        }
                        if start <= x <= end && !(s0 <= x <= e0) {
                            assert(m1.dom().contains(next_start) && next_start <= x <= m1[next_start]);
                        }
                    }
                    assert(m2.dom().len() < m1.dom().len());
                }
//@at after "self.ranges.insert(start, end);" nth=1
                proof {
                    let m2 = self.ranges@;
                    assert forall|x: u32| #![trigger covers(m1, x)] #![trigger covers(m2, x)] (covers(m1, x) || (start <= x <= end)) == covers(m2, x) by {
                        if covers(m1, x) {
                            let s = choose|s: u32| #[trigger] m1.dom().contains(s) && s <= x <= m1[s];
                            assert(s != start);
                            assert(m2.dom().contains(s) && s <= x <= m2[s]);
                        }
                        if start <= x <= end { assert(m2.dom().contains(start) && start <= x <= m2[start]); }
                        if covers(m2, x) {
                            let s = choose|s: u32| #[trigger] m2.dom().contains(s) && s <= x <= m2[s];
                            if s != start { assert(m1.dom().contains(s) && s <= x <= m1[s]); }
                        }
                    }
                }
//@end
}
}
fn main() {}
