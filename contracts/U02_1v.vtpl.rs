//@unit U02.1v props=C02,C20 tier=quick
//@source name=vs kind=file path=skrifa/src/outline/glyf/hint/value_stack.rs
// C02 (a runaway or malicious hinting program can only make the interpreter refuse, never index out of range): the TrueType
// interpreter's value stack on the real text, for a backing slice of EVERY length: the depth never exceeds the capacity, every
// operation returns Ok / ValueStackOverflow / ValueStackUnderflow (or 0 in non-pedantic mode) exactly as the stack discipline
// says, and the stack contents (a Seq<i32> view) change as the instruction set specifies: push, pop, peek, dup, swap, roll,
// copy_index (CINDEX), clear, pop_usize, pop_count_checked, apply_unary / apply_binary. This lifts the capacity bound (<= 4) of
// the Kani unit U02.1. Not in this unit: push_inline_operands (zip iterator) and move_index (slice::copy_within has no
// specification) - they stay bounded Kani harnesses.
use vstd::prelude::*;
verus! {
//@prelude std_combinators
pub enum HintErrorKind { ValueStackOverflow, ValueStackUnderflow, InvalidStackValue(i32), Other }
use HintErrorKind::{ValueStackOverflow, ValueStackUnderflow};

//@require source=vs seq="pub struct ValueStack<'a> { values: &'a mut [i32], len: usize, pub(super) is_pedantic: bool, }"
pub struct ValueStack<'a> {
    values: &'a mut [i32],
    len: usize,
    is_pedantic: bool,
}

impl<'a> ValueStack<'a> {
    pub closed spec fn inv(&self) -> bool { self.len <= self.values@.len() }
    pub closed spec fn view(&self) -> Seq<i32> { self.values@.take(self.len as int) }
    pub closed spec fn cap(&self) -> nat { self.values@.len() }


//@extract source=vs container="impl<'a> ValueStack<'a>" fn=push ret=r
//@spec
        requires old(self).inv()
        ensures final(self).inv(), final(self).cap() == old(self).cap(), final(self).is_pedantic == old(self).is_pedantic,
            r is Ok == (old(self)@.len() < old(self).cap()),
            r is Ok ==> final(self)@ == old(self)@.push(value),
            r is Err ==> final(self)@ == old(self)@ && r->Err_0 is ValueStackOverflow,
//@at body-start
        proof { let n = self.values.len(); }
//@end

//@extract source=vs container="impl<'a> ValueStack<'a>" fn=peek ret=r
//@spec
        requires old(self).inv()
        ensures *final(self) == *old(self), r is Some == (old(self)@.len() > 0), r is Some ==> r->Some_0 == old(self)@.last()
//@end

//@extract source=vs container="impl<'a> ValueStack<'a>" fn=pop ret=r
//@spec
        requires old(self).inv()
        ensures final(self).inv(), final(self).cap() == old(self).cap(), final(self).is_pedantic == old(self).is_pedantic,
            old(self)@.len() > 0 ==> r is Ok && r->Ok_0 == old(self)@.last() && final(self)@ == old(self)@.drop_last(),
            old(self)@.len() == 0 ==> final(self)@ == old(self)@ && (if old(self).is_pedantic { r is Err && r->Err_0 is ValueStackUnderflow } else { r is Ok && r->Ok_0 == 0 }),
//@end

//@extract source=vs container="impl<'a> ValueStack<'a>" fn=clear
//@spec
        requires old(self).inv()
        ensures final(self).inv(), final(self)@ == Seq::<i32>::empty(), final(self).cap() == old(self).cap()
//@end

//@extract source=vs container="impl<'a> ValueStack<'a>" fn=dup ret=r
//@spec
        requires old(self).inv()
        ensures final(self).inv(), final(self).cap() == old(self).cap(),
            r is Ok ==> final(self)@ == old(self)@.push(if old(self)@.len() > 0 { old(self)@.last() } else { 0 }),
            r is Err ==> final(self)@ == old(self)@,
//@end

//@extract source=vs container="impl<'a> ValueStack<'a>" fn=swap ret=r
//@spec
        requires old(self).inv()
        ensures final(self).inv(), final(self).cap() == old(self).cap(),
            old(self)@.len() >= 2 ==> r is Ok && final(self)@ == old(self)@.drop_last().drop_last().push(old(self)@.last()).push(old(self)@[old(self)@.len() - 2]),
//@end

//@extract source=vs container="impl<'a> ValueStack<'a>" fn=copy_index ret=r
//@spec
        requires old(self).inv()
        ensures final(self).inv(), final(self).cap() == old(self).cap(), final(self)@.len() == old(self)@.len(),
            r is Ok ==> {
                let top = old(self)@.len() - 1;
                let index = old(self)@.last() as usize;
                &&& old(self)@.len() > 0 && index <= top
                &&& final(self)@ == old(self)@.update(top, old(self)@[top - index])
            },
            r is Err ==> final(self)@ == old(self)@,
//@end

//@extract source=vs container="impl<'a> ValueStack<'a>" fn=new ret=r
//@spec
        ensures r.inv(), r@ == Seq::<i32>::empty(), r.cap() == old(values)@.len(), r.is_pedantic == is_pedantic
//@end

//@extract source=vs container="impl<'a> ValueStack<'a>" fn=len ret=r
//@spec
        requires self.inv()
        ensures r == self@.len()
//@end

//@extract source=vs container="impl<'a> ValueStack<'a>" fn=pop_usize ret=r
//@spec
        requires old(self).inv()
        ensures final(self).inv(), final(self).cap() == old(self).cap(),
            old(self)@.len() > 0 ==> r is Ok && r->Ok_0 == old(self)@.last() as usize && final(self)@ == old(self)@.drop_last(),
//@end

//@extract source=vs container="impl<'a> ValueStack<'a>" fn=pop_count_checked ret=r
//@spec
        requires old(self).inv()
        ensures final(self).inv(), final(self).cap() == old(self).cap(),
            old(self)@.len() > 0 ==> final(self)@ == old(self)@.drop_last()
                && (if old(self)@.last() < 0 && old(self).is_pedantic { r is Err } else { r is Ok && r->Ok_0 == (if old(self)@.last() < 0 { 0 } else { old(self)@.last() as int }) }),
//@end

//@extract source=vs container="impl<'a> ValueStack<'a>" fn=apply_unary ret=r
//@spec
        requires old(self).inv(), forall|x: i32| call_requires(op, (x,))
        ensures final(self).inv(), final(self).cap() == old(self).cap(),
            (r is Ok && old(self)@.len() > 0) ==> final(self)@.len() == old(self)@.len() && final(self)@.drop_last() == old(self)@.drop_last(),
//@end

//@extract source=vs container="impl<'a> ValueStack<'a>" fn=apply_binary ret=r
//@spec
        requires old(self).inv(), forall|x: i32, y: i32| call_requires(op, (x, y))
        ensures final(self).inv(), final(self).cap() == old(self).cap(),
            (r is Ok && old(self)@.len() >= 2) ==> final(self)@.len() == old(self)@.len() - 1,
//@end

//@extract source=vs container="impl<'a> ValueStack<'a>" fn=roll ret=r
//@spec
        requires old(self).inv()
        ensures final(self).inv(), final(self).cap() == old(self).cap(),
            old(self)@.len() >= 3 ==> r is Ok && ({
                let n = old(self)@.len() as int; let s = old(self)@;
                final(self)@ == s.take(n - 3).push(s[n - 2]).push(s[n - 1]).push(s[n - 3])
            }),
//@end
}
}
fn main() {}
