//@unit U13.1 props=C13,C02 tier=quick
//@source name=trav kind=file path=skrifa/src/color/traversal.rs
//@source name=colormod kind=file path=skrifa/src/color/mod.rs
// C13: colour glyph painting terminates with balanced, correctly nested callbacks.
// Real text: traverse_with_callbacks (all recursive arms), traverse_v0_range, ColorGlyph::paint, the default
// methods of ColorPainter (fill_glyph, pop_layer_with_mode, paint_cached_color_glyph) and every method of
// `impl ColorPainter for CollectFillGlyphPainter`. Ghost model (spec functions only): `root()` = nesting state
// as observed by the root client painter, `skel()` = the part of a painter no callback may change.
use vstd::prelude::*;
use std::ops::Range;
verus! {
//@prelude std_combinators

// ---- opaque foreign types (font data accessors; they never receive the painter) ----
#[verifier::external_body] pub struct Paint<'a> { _p: &'a u8 }
#[verifier::external_body] pub struct ColorStops<'a> { _p: &'a u8 }
#[verifier::external_body] pub struct ColrInstance<'a> { _p: &'a u8 }
#[verifier::external_body] pub struct ColorStopVec { _p: u8 }
#[verifier::external_body] #[derive(Clone, Copy)] pub struct Transform { _p: u8 }
#[derive(Clone, Copy)] pub struct BoundingBox<T> { pub x_min: T, pub y_min: T, pub x_max: T, pub y_max: T }
#[verifier::external_body] pub struct ReadError { _p: u8 }
#[verifier::external_body] pub struct LocationRef<'a> { _p: &'a u8 }
#[verifier::external_body] pub struct Colr<'a> { _p: &'a u8 }
#[derive(Clone, Copy)] pub struct GlyphId16(pub u16);
#[derive(Clone, Copy)] pub struct GlyphId(pub u32);
#[derive(Clone, Copy, PartialEq, Eq)] pub enum CompositeMode { SrcOver, Other }
#[derive(Clone, Copy)] pub enum Extend { Pad, Repeat, Reflect }
pub type PaintId = usize;
pub enum Brush<'a> {
    Solid { palette_index: u16, alpha: f32 },
    Gradient(&'a u8),
}

//@require source=colormod seq="pub enum PaintError { ParseError(ReadError), GlyphNotFound(GlyphId), PaintCycleDetected, DepthLimitExceeded, }"
pub enum PaintError {
    ParseError(ReadError),
    GlyphNotFound(GlyphId),
    PaintCycleDetected,
    DepthLimitExceeded,
}
pub enum PaintCachedColorGlyph { Ok, Unimplemented }

// the variants of instance.rs' ResolvedPaint with the fields the recursive arms bind
pub enum ResolvedPaint<'a> {
    ColrLayers { range: Range<usize> },
    Solid { palette_index: u16, alpha: f32 },
    LinearGradient { color_stops: ColorStops<'a>, extend: Extend },
    RadialGradient { color_stops: ColorStops<'a>, extend: Extend },
    SweepGradient { color_stops: ColorStops<'a>, extend: Extend },
    Glyph { glyph_id: GlyphId16, paint: Paint<'a> },
    ColrGlyph { glyph_id: GlyphId16 },
    Transform { xx: f32, paint: Paint<'a> },
    Translate { dx: f32, paint: Paint<'a> },
    Scale { scale_x: f32, paint: Paint<'a> },
    Rotate { angle: f32, paint: Paint<'a> },
    Skew { x_skew_angle: f32, paint: Paint<'a> },
    Composite { source_paint: Paint<'a>, mode: CompositeMode, backdrop_paint: Paint<'a> },
}

// ---- ghost nesting model ----
pub enum Scope { Transform, Clip, Layer }
pub struct Obs { pub stack: Seq<Scope>, pub mismatch: bool }
pub open spec fn pushed(o: Obs, k: Scope) -> Obs { Obs { stack: o.stack.push(k), mismatch: o.mismatch } }
// a pop is total (a client cannot refuse it): it drops the top and records a mismatch if the kind differs or nothing is open
pub open spec fn popped(o: Obs, k: Scope) -> Obs {
    if o.stack.len() == 0 { Obs { stack: o.stack, mismatch: true } }
    else { Obs { stack: o.stack.drop_last(), mismatch: o.mismatch || o.stack.last() != k } }
}
pub broadcast proof fn lemma_pop_push(o: Obs, k: Scope)
    ensures #[trigger] popped(pushed(o, k), k) == o
{
    assert(o.stack.push(k).drop_last() =~= o.stack);
}

pub struct Skel { pub code: int }
pub uninterp spec fn muted_of(s: Skel) -> bool;
pub uninterp spec fn wrap(cur: Skel, fut: Skel, fut_root: Obs) -> Skel;
pub uninterp spec fn unwrap_cur(s: Skel) -> Skel;
pub uninterp spec fn unwrap_fut(s: Skel) -> Skel;
pub uninterp spec fn unwrap_root(s: Skel) -> Obs;
// `wrap` is an injective constructor of muted skeletons (a model exists: finite trees)
#[verifier::external_body]
pub broadcast proof fn axiom_wrap(a: Skel, b: Skel, c: Obs)
    ensures
        muted_of(#[trigger] wrap(a, b, c)),
        unwrap_cur(wrap(a, b, c)) == a,
        unwrap_fut(wrap(a, b, c)) == b,
        unwrap_root(wrap(a, b, c)) == c,
{}

//@require source=colormod seq="pub trait ColorPainter {"
pub trait ColorPainter {
    // nesting state observed by the root client painter
    spec fn root(&self) -> Obs;
    #[verifier::prophetic]
    spec fn skel(&self) -> Skel;

    fn push_transform(&mut self, transform: Transform)
        ensures final(self).skel() == old(self).skel(),
            final(self).root() == (if !muted_of(old(self).skel()) { pushed(old(self).root(), Scope::Transform) } else { old(self).root() });
    fn pop_transform(&mut self)
        ensures final(self).skel() == old(self).skel(),
            final(self).root() == (if !muted_of(old(self).skel()) { popped(old(self).root(), Scope::Transform) } else { old(self).root() });
    fn push_clip_glyph(&mut self, glyph_id: GlyphId)
        ensures final(self).skel() == old(self).skel(),
            final(self).root() == (if !muted_of(old(self).skel()) { pushed(old(self).root(), Scope::Clip) } else { old(self).root() });
    fn push_clip_box(&mut self, clip_box: BoundingBox<f32>)
        ensures final(self).skel() == old(self).skel(),
            final(self).root() == (if !muted_of(old(self).skel()) { pushed(old(self).root(), Scope::Clip) } else { old(self).root() });
    fn pop_clip(&mut self)
        ensures final(self).skel() == old(self).skel(),
            final(self).root() == (if !muted_of(old(self).skel()) { popped(old(self).root(), Scope::Clip) } else { old(self).root() });
    fn fill(&mut self, brush: Brush<'_>)
        ensures final(self).skel() == old(self).skel(), final(self).root() == old(self).root();
    fn push_layer(&mut self, composite_mode: CompositeMode)
        ensures final(self).skel() == old(self).skel(),
            final(self).root() == (if !muted_of(old(self).skel()) { pushed(old(self).root(), Scope::Layer) } else { old(self).root() });
    // `pop_layer` is the layer-pop event for clients that implement it instead of pop_layer_with_mode; its empty
    // default body is NOT extracted (a client must implement one of the two; traversal only calls pop_layer_with_mode)
    fn pop_layer(&mut self)
        ensures final(self).skel() == old(self).skel(),
            final(self).root() == (if !muted_of(old(self).skel()) { popped(old(self).root(), Scope::Layer) } else { old(self).root() });

//@extract source=colormod container="pub trait ColorPainter" fn=fill_glyph
//@spec
        ensures final(self).skel() == old(self).skel(), final(self).root() == old(self).root()
//@at body-start
        broadcast use lemma_pop_push;
//@end

//@extract source=colormod container="pub trait ColorPainter" fn=paint_cached_color_glyph ret=r
//@spec
        ensures final(self).skel() == old(self).skel(), final(self).root() == old(self).root()
//@end

//@extract source=colormod container="pub trait ColorPainter" fn=pop_layer_with_mode
//@spec
        ensures final(self).skel() == old(self).skel(),
            final(self).root() == (if !muted_of(old(self).skel()) { popped(old(self).root(), Scope::Layer) } else { old(self).root() })
//@end
}

//@require source=trav seq="const MAX_TRAVERSAL_DEPTH: usize = 64;"
pub const MAX_TRAVERSAL_DEPTH: usize = 64;

// ---- decycler: contract only here; the real enter()/guard drop are proved by Kani unit U13.3 ----
#[verifier::external_body] pub struct PaintDecycler { _p: u8 }
#[verifier::external_body] pub struct DecyclerGuard<'a> { decycler: &'a mut PaintDecycler }
pub enum DecyclerError { DepthLimitExceeded, CycleDetected }
impl PaintDecycler {
    #[verifier::external_body]
    pub fn enter(&mut self, node_id: usize) -> Result<DecyclerGuard<'_>, DecyclerError> { unimplemented!() }
}
impl Default for PaintDecycler {
    #[verifier::external_body]
    fn default() -> Self { unimplemented!() }
}
impl Default for ColorStopVec {
    #[verifier::external_body]
    fn default() -> Self { unimplemented!() }
}
impl From<DecyclerError> for PaintError {
    #[verifier::external_body]
    fn from(value: DecyclerError) -> Self { unimplemented!() }
}
impl<'a> core::ops::Deref for DecyclerGuard<'a> {
    type Target = PaintDecycler;
    #[verifier::external_body]
    fn deref(&self) -> &Self::Target { self.decycler }
}
impl<'a> core::ops::DerefMut for DecyclerGuard<'a> {
    #[verifier::external_body]
    fn deref_mut(&mut self) -> &mut Self::Target { self.decycler }
}

// ---- font-data accessors: return Result/Option without touching the painter (their no-panic side belongs to C01) ----
#[verifier::external_body]
pub fn resolve_paint<'a>(instance: &ColrInstance<'a>, paint: &Paint<'a>) -> Result<ResolvedPaint<'a>, PaintError> { unimplemented!() }
#[verifier::external_body]
pub fn get_clipbox_font_units(instance: &ColrInstance, glyph_id: GlyphId) -> Option<BoundingBox<f32>> { unimplemented!() }
impl From<GlyphId16> for GlyphId {
    #[verifier::external_body]
    fn from(v: GlyphId16) -> Self { unimplemented!() }
}
impl<'a> ColrInstance<'a> {
    #[verifier::external_body]
    pub fn v1_base_glyph(&self, glyph_id: GlyphId) -> Result<Option<(Paint<'a>, PaintId)>, PaintError> { unimplemented!() }
    #[verifier::external_body]
    pub fn v1_layer(&self, index: usize) -> Result<(Paint<'a>, PaintId), PaintError> { unimplemented!() }
    #[verifier::external_body]
    pub fn v0_layer(&self, index: usize) -> Result<(GlyphId16, u16), PaintError> { unimplemented!() }
}
impl<'a> TryFrom<&ResolvedPaint<'a>> for Transform {
    type Error = PaintError;
    #[verifier::external_body]
    fn try_from(paint: &ResolvedPaint<'a>) -> Result<Self, Self::Error> { unimplemented!() }
}
impl core::ops::MulAssign for Transform {
    #[verifier::external_body]
    fn mul_assign(&mut self, rhs: Self) { unimplemented!() }
}
impl vstd::std_specs::ops::MulAssignSpecImpl<Transform> for Transform {
    open spec fn obeys_mul_assign_spec() -> bool { false }
    open spec fn mul_assign_req(&self, rhs: Transform) -> bool { true }
    uninterp spec fn mul_assign_spec(&self, rhs: Transform) -> &Transform;
}
// the four leaf arms (Solid and the three gradients: f32 closures, sqrt, SmallVec iteration - outside Verus' subset)
// are replaced by this stub; the extractor's token scan enforces that the dropped text mentions no push_*/pop_*/
// traverse_with_callbacks/decycler, so it can reach the painter only through `fill`
pub fn leaf_paint_stub<P: ColorPainter>(painter: &mut P) -> (r: Result<(), PaintError>)
    ensures final(painter).skel() == old(painter).skel(), final(painter).root() == old(painter).root(), r.is_ok()
{ Ok(()) }

//@extract source=trav fn=traverse_with_callbacks ret=res
//@droparm "ResolvedPaint::Solid {" => "ResolvedPaint::Solid { .. } => leaf_paint_stub(painter),"
//@droparm "ResolvedPaint::LinearGradient {" => "ResolvedPaint::LinearGradient { .. } => leaf_paint_stub(painter),"
//@droparm "ResolvedPaint::RadialGradient {" => "ResolvedPaint::RadialGradient { .. } => leaf_paint_stub(painter),"
//@droparm "ResolvedPaint::SweepGradient {" => "ResolvedPaint::SweepGradient { .. } => leaf_paint_stub(painter),"
//@dropscan push_ pop_ traverse_with_callbacks decycler fill_glyph paint_cached
//@desugarfor nth=0 name=verif_it raw
//@spec
    ensures
        final(painter).skel() == old(painter).skel(),
        muted_of(old(painter).skel()) ==> final(painter).root() == old(painter).root(),
        // never pops anything it did not push, even on Err
        !muted_of(old(painter).skel()) ==> old(painter).root().stack.is_prefix_of(final(painter).root().stack),
        // on success every push has been popped exactly once, LIFO, with the right kind
        !muted_of(old(painter).skel()) && res.is_ok() ==> final(painter).root() == old(painter).root(),
    decreases MAX_TRAVERSAL_DEPTH - recurse_depth
//@at body-start
    broadcast use axiom_wrap, lemma_pop_push;
//@at loop "let mut verif_it ="
                invariant painter.root() == old(painter).root(), painter.skel() == old(painter).skel(), recurse_depth < MAX_TRAVERSAL_DEPTH,
                decreases verif_it.end - verif_it.start
//@at after "let mut optimizer = CollectFillGlyphPainter::new(painter, glyph_id);"
            let ghost o0 = optimizer;
//@end

//@extract source=trav fn=traverse_v0_range ret=res
//@spec
    ensures
        final(painter).skel() == old(painter).skel(),
        final(painter).root() == old(painter).root(),
//@at loop "for layer_index in range.clone()"
        invariant painter.root() == old(painter).root(), painter.skel() == old(painter).skel(),
//@end

//@require source=trav seq="struct CollectFillGlyphPainter<'a> { brush_transform: Option<Transform>, glyph_id: GlyphId, parent_painter: &'a mut dyn ColorPainter, pub optimization_success: bool, }"
// `&'a mut dyn ColorPainter` -> `&'a mut Q` with Q: ColorPainter (Verus has no unsizing coercion; dispatch is
// irrelevant under a trait-level contract)
pub struct CollectFillGlyphPainter<'a, Q: ColorPainter> {
    pub brush_transform: Option<Transform>,
    pub glyph_id: GlyphId,
    pub parent_painter: &'a mut Q,
    pub optimization_success: bool,
}

impl<'a, Q: ColorPainter> CollectFillGlyphPainter<'a, Q> {
//@extract source=trav container="impl<'a> CollectFillGlyphPainter<'a>" fn=new ret=r
//@rewrite "&'a mut dyn ColorPainter" => "&'a mut Q"
//@spec
        ensures *r.parent_painter == *old(parent_painter), *final(r.parent_painter) == *final(parent_painter),
            r.optimization_success,
//@end
}

impl<Q: ColorPainter> ColorPainter for CollectFillGlyphPainter<'_, Q> {
    open spec fn root(&self) -> Obs { self.parent_painter.root() }
    #[verifier::prophetic]
    open spec fn skel(&self) -> Skel {
        wrap(self.parent_painter.skel(), final(self.parent_painter).skel(), final(self.parent_painter).root())
    }

//@extract source=trav container="impl ColorPainter for CollectFillGlyphPainter<'_>" fn=push_transform
//@at body-start
        broadcast use axiom_wrap;
//@end
//@extract source=trav container="impl ColorPainter for CollectFillGlyphPainter<'_>" fn=pop_transform
//@at body-start
        broadcast use axiom_wrap;
//@end
//@extract source=trav container="impl ColorPainter for CollectFillGlyphPainter<'_>" fn=fill
//@at body-start
        broadcast use axiom_wrap;
//@end
//@extract source=trav container="impl ColorPainter for CollectFillGlyphPainter<'_>" fn=push_clip_glyph
//@rewrite "_: GlyphId" => "_g: GlyphId"
//@at body-start
        broadcast use axiom_wrap;
//@end
//@extract source=trav container="impl ColorPainter for CollectFillGlyphPainter<'_>" fn=push_clip_box
//@rewrite "_: BoundingBox<f32>" => "_b: BoundingBox<f32>"
//@at body-start
        broadcast use axiom_wrap;
//@end
//@extract source=trav container="impl ColorPainter for CollectFillGlyphPainter<'_>" fn=pop_clip
//@at body-start
        broadcast use axiom_wrap;
//@end
//@extract source=trav container="impl ColorPainter for CollectFillGlyphPainter<'_>" fn=push_layer
//@rewrite "_: CompositeMode" => "_m: CompositeMode"
//@at body-start
        broadcast use axiom_wrap;
//@end
//@extract source=trav container="impl ColorPainter for CollectFillGlyphPainter<'_>" fn=pop_layer
//@at body-start
        broadcast use axiom_wrap;
//@end
}

// ---- API entry: ColorGlyph::paint (recurse_depth = 0, fresh decycler) ----
//@require source=colormod seq="enum ColorGlyphRoot<'a> { V0Range(Range<usize>), V1Paint(colr::Paint<'a>, PaintId, GlyphId, Result<u16, ReadError>), }"
pub enum ColorGlyphRoot<'a> {
    V0Range(Range<usize>),
    V1Paint(Paint<'a>, PaintId, GlyphId, Result<u16, ReadError>),
}
//@require source=colormod seq="pub struct ColorGlyph<'a> { colr: colr::Colr<'a>, root_paint_ref: ColorGlyphRoot<'a>, }"
pub struct ColorGlyph<'a> {
    pub colr: Colr<'a>,
    pub root_paint_ref: ColorGlyphRoot<'a>,
}
// construction of the variation instance from the table and the location: does not receive the painter
#[verifier::external_body]
pub fn colr_instance_for<'a, L>(colr: &Colr<'a>, location: L) -> ColrInstance<'a> { unimplemented!() }

impl<'a> ColorGlyph<'a> {
//@extract source=colormod container="impl<'a> ColorGlyph<'a>" fn=paint ret=res
//@rewrite "instance::ColrInstance::new(self.colr.clone(), location.into().effective_coords())" => "colr_instance_for(&self.colr, location)"
//@rewrite "traversal::ColorStopVec::default()" => "ColorStopVec::default()"
//@spec
        ensures
            final(painter).skel() == old(painter).skel(),
            !muted_of(old(painter).skel()) ==> old(painter).root().stack.is_prefix_of(final(painter).root().stack),
            // a successful paint leaves every scope it opened closed, in LIFO order, with matching kinds
            !muted_of(old(painter).skel()) && res.is_ok() ==> final(painter).root() == old(painter).root(),
//@at body-start
        broadcast use lemma_pop_push;
//@end
}

}
fn main() {}
