//@unit U10.7 props=C10,C04 tier=quick
//@source name=vr kind=file path=write-fonts/src/tables/variations.rs
// C10 / C04 (declared sizes equal written sizes): PackedPointNumbers::compute_size against the OpenType "packed point numbers"
// layout: one count byte when fewer than 128 points are listed, two otherwise, followed by the runs; `All` is the single byte 0.
// The run iterator (std::iter::from_fn over scan/take adapters) is an opaque type here: whatever runs it yields, the declared size
// is the count field plus the sum of their sizes. Extraction: the `for run in self.iter_runs()` loop is desugared mechanically.
use vstd::prelude::*;
verus! {
//@prelude std_combinators
pub struct PackedPointRun { pub size: u16 }
impl PackedPointRun {
    // the per-run size (1 control byte + 1 or 2 bytes per point) is proved bounded in Kani (U10.2); here only its value matters
    pub fn compute_size(&self) -> (r: u16) ensures r == self.size { self.size }
}
#[verifier::external_body] pub struct RunIter { _p: u8 }
impl RunIter {
    pub uninterp spec fn rem(&self) -> Seq<PackedPointRun>;
    #[verifier::external_body]
    pub fn next(&mut self) -> (r: Option<PackedPointRun>)
        ensures match r {
            Some(run) => old(self).rem().len() > 0 && run == old(self).rem()[0] && final(self).rem() == old(self).rem().skip(1),
            None => old(self).rem().len() == 0 && final(self).rem() == old(self).rem(),
        }
    { unimplemented!() }
}
pub open spec fn sum_sizes(s: Seq<PackedPointRun>) -> int decreases s.len() {
    if s.len() == 0 { 0 } else { s[0].size as int + sum_sizes(s.skip(1)) }
}
//@require source=vr seq="pub enum PackedPointNumbers { #[default] All, Some(Vec<u16>), }"
pub enum PackedPointNumbers {
    All,
    Some(Vec<u16>),
}
impl PackedPointNumbers {
    pub uninterp spec fn runs(&self) -> Seq<PackedPointRun>;
    #[verifier::external_body]
    fn iter_runs(&self) -> (r: RunIter) ensures r.rem() == self.runs() { unimplemented!() }
    // OpenType: "If the first byte is 0, then a second count byte is not used [all points]... if the high bit of the first byte is
    // clear then the count is that byte (0..=127), otherwise the count is the low 7 bits and the second byte"
    pub open spec fn count_field_len(&self) -> int {
        match self { PackedPointNumbers::All => 1, PackedPointNumbers::Some(pts) => if pts@.len() <= 127 { 1 } else { 2 } }
    }
//@extract source=vr container="impl PackedPointNumbers" fn=compute_size ret=r
//@desugarfor nth=0 name=verif_it raw
//@spec
        requires self.count_field_len() + sum_sizes(self.runs()) <= u16::MAX
        ensures
            self is All ==> r == 1,
            self is Some ==> r as int == self.count_field_len() + sum_sizes(self.runs()),
//@at loop "let mut verif_it ="
            invariant
                self is Some,
                count as int + sum_sizes(verif_it.rem()) == self.count_field_len() + sum_sizes(self.runs()),
                self.count_field_len() + sum_sizes(self.runs()) <= u16::MAX,
            ensures count as int == self.count_field_len() + sum_sizes(self.runs())
            decreases verif_it.rem().len()
//@at after "else { break; };"
            proof { lemma_sum_nonneg(verif_it.rem()); }
//@end
}
// ---- the writer side: what FontWrite::write_into appends for the same value
#[verifier::external_body] pub struct TableWriter { _p: u8 }
impl TableWriter { pub uninterp spec fn len(&self) -> int; }
pub trait FontWrite { fn write_into(&self, writer: &mut TableWriter); }
// ASSUMED (scalar writers, proved on the real TableWriter in Kani unit U04.0): a u8 appends 1 byte, a u16 appends 2
#[verifier::external_body] pub fn write_u8(v: u8, writer: &mut TableWriter) ensures final(writer).len() == old(writer).len() + 1 { unimplemented!() }
#[verifier::external_body] pub fn write_u16(v: u16, writer: &mut TableWriter) ensures final(writer).len() == old(writer).len() + 2 { unimplemented!() }
impl PackedPointRun {
    // ASSUMED here (bounded Kani unit U10.2 checks declared == written per run): a run appends exactly its declared size
    #[verifier::external_body]
    pub fn write_into(&self, writer: &mut TableWriter) ensures final(writer).len() == old(writer).len() + self.size { unimplemented!() }
}
impl PackedPointNumbers {
    pub open spec fn n_points(&self) -> int { match self { PackedPointNumbers::All => 0, PackedPointNumbers::Some(pts) => pts@.len() as int } }
    #[verifier::external_body]
    fn as_slice(&self) -> (r: &[u16]) ensures r@.len() == self.n_points() { unimplemented!() }
//@extract source=vr container="impl FontWrite for PackedPointNumbers" fn=write_into
//@rewrite "(len as u8).write_into(writer)" => "write_u8(len as u8, writer)"
//@rewrite "(len as u16 | 0x8000u16).write_into(writer)" => "write_u16(len as u16 | 0x8000u16, writer)"
//@desugarfor nth=0 name=verif_it raw
//@spec
        // written length == the count field the reader expects for this many points + the runs
        ensures final(writer).len() == old(writer).len() + (if self.n_points() <= 127 { 1int } else { 2int }) + sum_sizes(self.runs())
//@at loop "let mut verif_it ="
            invariant
                writer.len() + sum_sizes(verif_it.rem()) == old(writer).len() + (if self.n_points() <= 127 { 1int } else { 2int }) + sum_sizes(self.runs()),
            ensures writer.len() == old(writer).len() + (if self.n_points() <= 127 { 1int } else { 2int }) + sum_sizes(self.runs())
            decreases verif_it.rem().len()
//@end
}
proof fn lemma_sum_nonneg(s: Seq<PackedPointRun>) ensures sum_sizes(s) >= 0 decreases s.len() {
    if s.len() > 0 { lemma_sum_nonneg(s.skip(1)); }
}
}
fn main() {}
