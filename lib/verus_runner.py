"""Verus back end: generate the verified file on every run from /repo's current text.

A unit is a template /verif/contracts/<unit>.vtpl.rs: ordinary Verus text (spec functions, lemmas,
trusted stubs -- the "environment") plus //@extract blocks. Each block names a function of /repo
(source file or rustc-expanded crate, container header, fn name); the generator copies that function's
text byte for byte and inserts ONLY the ghost text listed in the block (signature clauses, loop
invariants, proof blocks, ghost lets). Inserted text is bracketed with /*@+*/ ... /*@-*/ markers in the
generated file; the erasure check deletes the marked regions again and compares the token stream with
the freshly extracted original (after the documented rewrites), and aborts on any difference.
"""
import json
import os
import re
import subprocess
import time

from . import rsrc
from .kani_runner import Undecided, REPO, VERIF

MARK_O, MARK_C = "/*@+*/", "/*@-*/"

DEFINITE = [
    ("postcondition not satisfied", "postcondition"),
    ("unable to prove post-condition of closure", "postcondition"),
    ("unable to prove pre-condition of closure", "precondition"),
    ("unable to prove assertion safety condition", "assertion"),
    ("precondition not satisfied", "precondition"),
    ("precondition not met", "precondition"),
    ("assertion failed", "assertion"),
    ("invariant not satisfied", "invariant"),
    ("possible arithmetic underflow/overflow", "overflow"),
    ("possible division by zero", "division-by-zero"),
    ("possible bit shift underflow/overflow", "shift-overflow"),
    ("could not prove termination", "termination"),
    ("decreases not satisfied", "termination"),
    ("unreachable", "unreachable-reached"),
    ("index out of bounds", "index"),
]


def _directive_args(s):
    d = {}
    for m in re.finditer(r'(\w+)=("(?:[^"\\]|\\.)*"|\S+)', s):
        v = m.group(2)
        if v.startswith('"'):
            v = bytes(v[1:-1], "utf8").decode("unicode_escape")
        d[m.group(1)] = v
    return d


def expand_crate(crate_dir, scratch, features=None):
    """rustc's own macro expansion of a /repo crate (RUSTC_BOOTSTRAP=1 -Zunpretty=expanded)."""
    out = os.path.join(scratch, "expanded-%s.rs" % crate_dir)
    if os.path.exists(out):
        return open(out).read()
    env = dict(os.environ)
    env["RUSTC_BOOTSTRAP"] = "1"
    env["CARGO_NET_OFFLINE"] = "true"
    env["CARGO_TARGET_DIR"] = os.path.join(scratch, "target-expand")
    env.pop("RUSTFLAGS", None)
    cmd = ["cargo", "rustc", "--offline", "--manifest-path", os.path.join(REPO, crate_dir, "Cargo.toml"), "--lib"]
    if features:
        cmd += ["--features", features]
    cmd += ["--", "-Zunpretty=expanded"]
    p = subprocess.run(cmd, env=env, stdout=subprocess.PIPE, stderr=subprocess.PIPE, text=True, timeout=900)
    if p.returncode != 0 or "fn " not in p.stdout:
        raise Undecided("macro expansion of %s failed: %s" % (crate_dir, p.stderr[-800:]))
    with open(out, "w") as f:
        f.write(p.stdout)
    return p.stdout


class Block:
    def __init__(self):
        self.args = {}
        self.rewrites = []  # (from_tokens_text, to_text, nth or None)
        self.spec = ""
        self.ats = []  # (kind, anchor, nth, text)
        self.droparms = []  # (pattern_start_seq, replacement_text)
        self.dropscan = []  # identifiers (prefix match) that must NOT occur in dropped text
        self.closures = []  # (nth, text): ghost result naming wrapped around the nth closure body of the fn
        self.bindclosures = []  # (nth, name): extraction rewrite - bind the nth closure expression to a local before its statement
        self.desugarfors = []  # (nth, name, raw): extraction rewrite - `for P in E {..}` => `let mut name = E; loop { let Some(P) = name.next() else { break; }; .. }`


def parse_template(path):
    """Returns (meta, sources, parts) where parts is a list of ('text', str) | ('block', Block)."""
    lines = open(path).read().split("\n")
    meta, sources, parts = {}, {}, []
    buf = []
    i = 0
    while i < len(lines):
        ln = lines[i]
        s = ln.strip()
        if s.startswith("//@unit"):
            meta = _directive_args(s[7:])
            meta["unit"] = s[7:].split()[0]
        elif s.startswith("//@source"):
            a = _directive_args(s[9:])
            sources[a["name"]] = a
        elif s.startswith("//@prelude"):
            # shared environment text (trusted std specifications), kept in contracts/prelude/<name>.inc.rs
            name = s[len("//@prelude"):].strip()
            buf.append(open(os.path.join(VERIF, "contracts", "prelude", name + ".inc.rs")).read())
        elif s.startswith("//@require"):
            parts.append(("text", "\n".join(buf) + "\n"))
            buf = []
            parts.append(("require", _directive_args(s[10:])))
        elif s.startswith("//@extract"):
            parts.append(("text", "\n".join(buf) + "\n"))
            buf = []
            b = Block()
            b.args = _directive_args(s[10:])
            b.line = i + 1
            i += 1
            mode = None
            cur = []
            while i < len(lines):
                s2 = lines[i].strip()
                if s2.startswith("//@"):
                    # flush
                    if mode == "spec":
                        b.spec = "\n".join(cur)
                    elif mode is not None and mode[0] == "closure":
                        b.closures.append((mode[2], "\n".join(cur)))
                    elif mode is not None:
                        b.ats.append((mode[0], mode[1], mode[2], "\n".join(cur)))
                    cur = []
                    if s2.startswith("//@end"):
                        break
                    if s2.startswith("//@rewrite"):
                        m = re.match(r'//@rewrite\s+("(?:[^"\\]|\\.)*")\s*=>\s*("(?:[^"\\]|\\.)*")(?:\s+nth=(\d+))?', s2)
                        if not m:
                            raise ValueError("%s:%d bad rewrite" % (path, i + 1))
                        b.rewrites.append((json.loads(m.group(1)), json.loads(m.group(2)),
                                           int(m.group(3)) if m.group(3) else None))
                        mode = None
                    elif s2.startswith("//@droparm"):
                        m = re.match(r'//@droparm\s+("(?:[^"\\]|\\.)*")\s*=>\s*("(?:[^"\\]|\\.)*")', s2)
                        if not m:
                            raise ValueError("%s:%d bad droparm" % (path, i + 1))
                        b.droparms.append((json.loads(m.group(1)), json.loads(m.group(2))))
                        mode = None
                    elif s2.startswith("//@dropscan"):
                        b.dropscan = s2[len("//@dropscan"):].split()
                        mode = None
                    elif s2.startswith("//@spec"):
                        mode = "spec"
                    elif s2.startswith("//@desugarfor"):
                        m = re.match(r'//@desugarfor\s+nth=(\d+)\s+name=(\w+)(\s+raw)?', s2)
                        if not m:
                            raise ValueError("%s:%d bad desugarfor" % (path, i + 1))
                        b.desugarfors.append((int(m.group(1)), m.group(2), bool(m.group(3))))
                        mode = None
                    elif s2.startswith("//@bindclosure"):
                        m = re.match(r'//@bindclosure\s+nth=(\d+)\s+name=(\w+)', s2)
                        if not m:
                            raise ValueError("%s:%d bad bindclosure" % (path, i + 1))
                        b.bindclosures.append((int(m.group(1)), m.group(2)))
                        mode = None
                    elif s2.startswith("//@closure"):
                        m = re.match(r'//@closure(?:\s+nth=(\d+))?', s2)
                        mode = ("closure", None, int(m.group(1)) if m.group(1) else 0)
                    elif s2.startswith("//@at"):
                        m = re.match(r'//@at\s+(before|after|loop-body|loop-end|loop-after|loop|arm-start|arm-end|body-start|body-end)(?:\s+("(?:[^"\\]|\\.)*"))?(?:\s+nth=(\d+))?', s2)
                        if not m:
                            raise ValueError("%s:%d bad //@at" % (path, i + 1))
                        mode = (m.group(1), json.loads(m.group(2)) if m.group(2) else None,
                                int(m.group(3)) if m.group(3) else 0)
                    else:
                        raise ValueError("%s:%d unknown directive %s" % (path, i + 1, s2))
                else:
                    cur.append(lines[i])
                i += 1
            parts.append(("block", b))
        else:
            buf.append(ln)
        i += 1
    parts.append(("text", "\n".join(buf)))
    return meta, sources, parts


def apply_rewrites(text, rewrites, report):
    for frm, to, nth in rewrites:
        toks = rsrc.lex(text)
        seq = rsrc.tok_texts(frm)
        hits = []
        k = 0
        while True:
            k = rsrc.find_seq(toks, seq, k)
            if k < 0:
                break
            hits.append(k)
            k += len(seq)
        if not hits:
            raise Undecided("lost-anchor: rewrite source %r not found" % frm)
        if nth is not None:
            if nth >= len(hits):
                raise Undecided("lost-anchor: rewrite source %r occurrence %d not found" % (frm, nth))
            hits = [hits[nth]]
        for k in reversed(hits):
            a, b = toks[k].start, toks[k + len(seq) - 1].end
            text = text[:a] + to + text[b:]
        report.append("rewrite %r => %r (%d site%s)" % (frm, to, len(hits), "" if len(hits) == 1 else "s"))
    return text


def bind_closure(text, nth, name, fn, report):
    """Extraction rewrite: `stmt(.. |p| body ..);` => `let NAME = |p| body; stmt(.. NAME ..);` (a closure passed inline
    cannot be named by ghost text; binding it to a local first does not change what is executed)."""
    toks = rsrc.lex(text)
    k = 0
    while not (toks[k].kind == "p" and toks[k].text == "{"):
        if toks[k].kind == "p" and toks[k].text in "([":
            k = rsrc.match_close(toks, k)
        k += 1
    body_open = k
    body_close = rsrc.match_close(toks, body_open)
    cls = find_closures(toks, body_open, body_close)
    if nth >= len(cls):
        raise Undecided("lost-anchor: closure #%d to bind not found in fn %s" % (nth, fn))
    bar2, first, last = cls[nth]
    # the opening `|` of the parameter list
    j = bar2 - 1
    while not (toks[j].kind == "p" and toks[j].text == "|"):
        j -= 1
    start = j
    if toks[start - 1].kind == "id" and toks[start - 1].text == "move":
        start -= 1
    # start of the enclosing statement: after the previous `;`, `{` or `}` outside any bracket opened before the closure
    depth = 0
    s_ = start - 1
    while s_ > body_open:
        t = toks[s_]
        if t.kind == "p" and t.text in ")]":
            depth += 1
        elif t.kind == "p" and t.text in "([":
            depth = max(0, depth - 1)
        elif t.kind == "p" and t.text in ";{}" and depth == 0:
            break
        s_ -= 1
    stmt_start = toks[s_ + 1].start
    closure_text = text[toks[start].start:toks[last].end]
    new = text[:stmt_start] + "let %s = %s; " % (name, closure_text) + text[stmt_start:toks[start].start] + name + text[toks[last].end:]
    report.append("closure #%d bound to a local `%s` before its statement (so that ghost text can name it)" % (nth, name))
    return new


def desugar_for(text, nth, name, raw, fn, report):
    """Extraction rewrite: the nth `for PAT in EXPR { BODY }` of the fn body becomes the loop the Rust reference defines it as,
    `let mut NAME = IntoIterator::into_iter(EXPR); loop { let Some(PAT) = NAME.next() else { break; }; BODY }` (with `raw`,
    EXPR is already an iterator and into_iter - the identity on iterators - is omitted). Lets ghost text state invariants over an
    iterator type for which Verus has no for-loop support. The iterator variable outlives the loop (harmless: fresh name)."""
    toks = rsrc.lex(text)
    k = 0
    while not (toks[k].kind == "p" and toks[k].text == "{"):
        if toks[k].kind == "p" and toks[k].text in "([":
            k = rsrc.match_close(toks, k)
        k += 1
    body_open = k
    body_close = rsrc.match_close(toks, body_open)
    fors = [i for i in range(body_open, body_close) if toks[i].kind == "id" and toks[i].text == "for"
            and not (toks[i - 1].kind == "p" and toks[i - 1].text == ":")]
    if nth >= len(fors):
        raise Undecided("lost-anchor: for loop #%d not found in fn %s" % (nth, fn))
    f = fors[nth]
    if any(t.kind == "id" and t.text == name for t in toks):
        raise Undecided("desugarfor: name %s already occurs in fn %s" % (name, fn))
    j = f + 1
    while not (toks[j].kind == "id" and toks[j].text == "in"):
        if toks[j].kind == "p" and toks[j].text in "([{":
            j = rsrc.match_close(toks, j)
        j += 1
        if j >= body_close:
            raise Undecided("desugarfor: no `in` for loop #%d in fn %s" % (nth, fn))
    in_tok = j
    j += 1
    while not (toks[j].kind == "p" and toks[j].text == "{"):
        if toks[j].kind == "p" and toks[j].text in "([":
            j = rsrc.match_close(toks, j)
        j += 1
    open_tok = j
    pat = text[toks[f + 1].start:toks[in_tok - 1].end]
    expr = text[toks[in_tok + 1].start:toks[open_tok - 1].end]
    init = expr if raw else "core::iter::IntoIterator::into_iter(%s)" % expr
    new = (text[:toks[f].start] + "let mut %s = %s; loop { let Some(%s) = %s.next() else { break; };" % (name, init, pat, name)
           + text[toks[open_tok].end:])
    report.append("for loop #%d (`for %s in %s`) desugared to `let mut %s = ..; loop { let Some(..) = %s.next() else { break; }; .. }`"
                  % (nth, pat, expr, name, name))
    return new


def find_closures(toks, lo, hi):
    """Closures of a fn body in source order: list of (index of the closing `|` of the parameter list, first body token,
    last body token). A closure starts at a `|` in expression-start position (after `(`, `,`, `=`, `move`, `{`, `;`, `return`);
    `||` (no parameters) is two adjacent `|`. The body extends to the token before the depth-0 `,` `)` `]` `}` or `;`."""
    out = []
    k = lo + 1
    while k < hi:
        t = toks[k]
        if t.kind == "p" and t.text == "|":
            prev = toks[k - 1]
            starts = (prev.kind == "p" and prev.text in "(,={;") or (prev.kind == "id" and prev.text in ("move", "return"))
            if starts:
                # parameter list up to the next `|` at bracket depth 0
                j = k + 1
                while j < hi and not (toks[j].kind == "p" and toks[j].text == "|"):
                    if toks[j].kind == "p" and toks[j].text in "([{":
                        j = rsrc.match_close(toks, j)
                    j += 1
                bar2 = j
                e = bar2 + 1
                if toks[e].kind == "p" and toks[e].text == "-" and toks[e + 1].text == ">":
                    k = e
                    continue  # already has a declared return type: leave it alone
                first = e
                while e < hi:
                    te = toks[e]
                    if te.kind == "p" and te.text in "([{":
                        e = rsrc.match_close(toks, e)
                    elif te.kind == "p" and te.text in ",)]};":
                        break
                    e += 1
                out.append((bar2, first, e - 1))
                k = bar2 + 1
                continue
        k += 1
    return out


def extract_block(b, sources, scratch, canary=False):
    """Returns (generated_text, original_after_rewrites, info)."""
    srcname = b.args["source"]
    sd = sources[srcname]
    if sd.get("kind", "file") == "expanded":
        src = expand_crate(sd["crate"], scratch, sd.get("features"))
        origin = "rustc -Zunpretty=expanded of %s" % sd["crate"]
    else:
        pth = os.path.join(REPO, sd["path"])
        if not os.path.exists(pth):
            raise Undecided("lost-anchor: %s missing" % sd["path"])
        src = open(pth).read()
        origin = sd["path"]
    container = b.args.get("container")
    if container and "||" in container:
        container = [c.strip() for c in container.split("||")]
    try:
        it = rsrc.locate_fn(src, b.args["fn"], container, int(b.args.get("nth", "0")))
    except KeyError as e:
        raise Undecided("lost-anchor: %s (%s)" % (e, origin))
    if it.body_open is None:
        raise Undecided("lost-anchor: fn %s has no body" % b.args["fn"])
    fn_tok = None
    for k in range(it.kw_idx, it.body_open):
        if it.toks[k].text == "fn":
            fn_tok = k
            break
    text = src[it.toks[fn_tok].start:it.end]
    drops = []
    quals = [t.text for t in it.toks[it.kw_idx:fn_tok]]
    if quals:
        drops.append("qualifiers dropped: %s" % " ".join(quals))
    orig_line = src.count("\n", 0, it.toks[fn_tok].start) + 1
    rew_report = []
    text = apply_rewrites(text, b.rewrites, rew_report)
    for nth, name in b.bindclosures:
        text = bind_closure(text, nth, name, b.args["fn"], rew_report)
    for nth, name, raw in sorted(b.desugarfors, reverse=True):
        text = desugar_for(text, nth, name, raw, b.args["fn"], rew_report)
    dropped_texts = []
    for pat, repl in b.droparms:
        toks = rsrc.lex(text)
        seq = rsrc.tok_texts(pat)
        k = rsrc.find_seq(toks, seq)
        if k < 0:
            raise Undecided("lost-anchor: match arm %r not found in fn %s" % (pat, b.args["fn"]))
        # find `=>` at nesting depth 0 relative to the pattern start
        j = k
        while j < len(toks):
            t = toks[j]
            if t.kind == "p" and t.text in "([{":
                j = rsrc.match_close(toks, j)
            elif t.text == "=" and toks[j + 1].text == ">" and toks[j + 1].start == t.end:
                break
            j += 1
        body = j + 2
        if toks[body].text != "{":
            raise Undecided("droparm %r: arm body is not a block" % pat)
        e = rsrc.match_close(toks, body)
        if e + 1 < len(toks) and toks[e + 1].text == ",":
            e += 1
        a, z = toks[k].start, toks[e].end
        dropped = text[a:z]
        dtoks = [t.text for t in rsrc.lex(dropped) if t.kind == "id"]
        bad = sorted(set(t for t in dtoks for w in b.dropscan if t.startswith(w)))
        if bad:
            raise Undecided("syntactic side condition violated: dropped arm %r contains %s" % (pat, bad))
        dropped_texts.append(dropped)
        text = text[:a] + repl + text[z:]
        rew_report.append("match arm %r (%d tokens) replaced by stub %r; token scan of the dropped text for %s: clean"
                          % (pat, len(rsrc.lex(dropped)), repl, b.dropscan))
    original = text
    toks = rsrc.lex(text)
    body_open = None
    k = 0
    while k < len(toks):
        t = toks[k]
        if t.kind == "p" and t.text == "{":
            body_open = k
            break
        if t.kind == "p" and t.text in "([":
            k = rsrc.match_close(toks, k)
        k += 1
    body_close = rsrc.match_close(toks, body_open)
    ins = []  # (offset, order, text)
    order = 0

    def add(off, txt):
        nonlocal order
        ins.append((off, order, txt))
        order += 1

    ret = b.args.get("ret")
    if ret:
        # find '->' at depth 0 of the signature
        k = 0
        arrow = None
        while k < body_open:
            t = toks[k]
            if t.kind == "p" and t.text in "([":
                k = rsrc.match_close(toks, k)
            elif t.text == "-" and toks[k + 1].text == ">" and toks[k + 1].start == t.end:
                arrow = k
                break
            k += 1
        if arrow is None:
            raise Undecided("lost-anchor: fn %s has no return type to name" % b.args["fn"])
        tstart = toks[arrow + 2].start
        # type ends before `where` at depth 0 or body_open
        k = arrow + 2
        tend_tok = body_open - 1
        while k < body_open:
            t = toks[k]
            if t.kind == "p" and t.text in "([":
                k = rsrc.match_close(toks, k)
            elif t.kind == "id" and t.text == "where":
                tend_tok = k - 1
                break
            k += 1
        add(tstart, "(%s: " % ret)
        add(toks[tend_tok].end, ")")
    if b.spec.strip():
        add(toks[body_open].start, "\n" + b.spec + "\n")
    loops_for_canary = []
    if b.closures:
        cls = find_closures(toks, body_open, body_close)
        for nth, txt in b.closures:
            if nth >= len(cls):
                raise Undecided("lost-anchor: closure #%d not found in fn %s (%d closures)" % (nth, b.args["fn"], len(cls)))
            bar2, body_first, body_last = cls[nth]
            add(toks[bar2].end, " " + txt.strip() + " { ")
            add(toks[body_last].end, " }")
    for kind, anchor, nth, txt in b.ats:
        if kind == "body-start":
            add(toks[body_open].end, "\n" + txt + "\n")
            continue
        if kind == "body-end":
            add(toks[body_close].start, "\n" + txt + "\n")
            continue
        seq = rsrc.tok_texts(anchor)
        k = rsrc.find_seq(toks, seq, body_open, body_close + 1, nth)
        if k < 0:
            raise Undecided("lost-anchor: splice anchor %r (occurrence %d) not found in fn %s" % (anchor, nth, b.args["fn"]))
        if kind == "before":
            add(toks[k].start, txt + "\n")
        elif kind == "after":
            add(toks[k + len(seq) - 1].end, "\n" + txt + "\n")
        elif kind in ("arm-start", "arm-end"):
            # the match arm whose pattern starts with the anchor tokens: insert at the start / end of its block body
            j = k
            while j < len(toks):
                t = toks[j]
                if t.kind == "p" and t.text in "([{":
                    j = rsrc.match_close(toks, j)
                elif t.text == "=" and toks[j + 1].text == ">" and toks[j + 1].start == t.end:
                    break
                j += 1
            bopen = j + 2
            if toks[bopen].text != "{":
                raise Undecided("anchor %r: match arm body is not a block" % anchor)
            if kind == "arm-start":
                add(toks[bopen].end, "\n" + txt + "\n")
            else:
                add(toks[rsrc.match_close(toks, bopen)].start, "\n" + txt + "\n")
        elif kind in ("loop", "loop-body", "loop-end", "loop-after"):
            j = k + len(seq)
            while j < len(toks):
                t = toks[j]
                if t.kind == "p" and t.text == "{":
                    break
                if t.kind == "p" and t.text in "([":
                    j = rsrc.match_close(toks, j)
                j += 1
            if kind == "loop":
                add(toks[j].start, "\n" + txt + "\n")
                loops_for_canary.append(toks[j].end)
            elif kind == "loop-body":
                add(toks[j].end, "\n" + txt + "\n")
            elif kind == "loop-end":
                add(toks[rsrc.match_close(toks, j)].start, "\n" + txt + "\n")
            else:
                add(toks[rsrc.match_close(toks, j)].end, "\n" + txt + "\n")
    if canary:
        add(toks[body_open].end, " proof { assert(false); } ")
        for off in loops_for_canary:
            add(off, " proof { assert(false); } ")
    ins.sort()
    out = []
    pos = 0
    for off, _, txt in ins:
        out.append(text[pos:off])
        out.append(MARK_O + txt + MARK_C)
        pos = off
    out.append(text[pos:])
    gen = "".join(out)
    info = dict(fn=b.args["fn"], container=b.args.get("container"), origin=origin, line=orig_line,
                drops=drops + rew_report, n_splices=len(ins), n_loops=len(loops_for_canary))
    return gen, original, info


_erase_re = re.compile(re.escape(MARK_O) + r".*?" + re.escape(MARK_C), re.S)


def erasure_check(gen, original, name):
    erased = _erase_re.sub(" ", gen)
    a, b = rsrc.tok_texts(erased), rsrc.tok_texts(original)
    if a != b:
        for i, (x, y) in enumerate(zip(a, b)):
            if x != y:
                raise Undecided("erasure check failed for %s at token %d: %r vs %r" % (name, i, x, y))
        raise Undecided("erasure check failed for %s: length %d vs %d" % (name, len(a), len(b)))


def generate(tpl_path, scratch, canary=False):
    meta, sources, parts = parse_template(tpl_path)
    out_lines_tag = []
    out = []
    infos = []
    for kind, p in parts:
        if kind == "text":
            out.append(p)
        elif kind == "require":
            sd = sources[p["source"]]
            if sd.get("kind", "file") == "expanded":
                src = expand_crate(sd["crate"], scratch, sd.get("features"))
            else:
                src = open(os.path.join(REPO, sd["path"])).read()
            if rsrc.find_seq(rsrc.lex(src), rsrc.tok_texts(p["seq"])) < 0:
                raise Undecided("lost-anchor: required declaration %r not found in %s" % (p["seq"], p["source"]))
        else:
            gen, original, info = extract_block(p, sources, scratch, canary=canary)
            erasure_check(gen, original, info["fn"])
            out.append("/*@fn %s*/" % info["fn"] + gen + "/*@endfn*/\n")
            infos.append(info)
    text = "".join(out)
    return meta, text, infos


def line_tags(text):
    """For each line (1-based) -> (fn_name or None, inserted:bool)."""
    tags = [None]
    cur_fn = None
    inserted = False
    i = 0
    line_fn, line_ins = cur_fn, inserted
    # walk characters tracking markers
    pos = 0
    for ln in text.split("\n"):
        # state at the first non-space char of the line (approximation: any marker on the line toggles)
        st_fn, st_ins = cur_fn, inserted
        for m in re.finditer(r"/\*@fn (\w+)\*/|/\*@endfn\*/|/\*@\+\*/|/\*@-\*/", ln):
            g = m.group(0)
            if g.startswith("/*@fn"):
                cur_fn = m.group(1)
                st_fn = cur_fn
            elif g == "/*@endfn*/":
                cur_fn = None
            elif g == MARK_O:
                inserted = True
            elif g == MARK_C:
                inserted = False
        tags.append((st_fn if st_fn else cur_fn, st_ins))
    return tags


def enclosing_fn(text_lines, line):
    for k in range(line - 1, -1, -1):
        m = re.search(r"\bfn\s+(\w+)", text_lines[k])
        if m:
            return m.group(1)
    return None


def run_verus(path, rlimit=None, timeout=900, extra=()):
    cmd = ["verus", path, "--output-json", "--time", "--multiple-errors", "20", "--triggers-mode", "silent", "--num-threads", "8"]
    if rlimit:
        cmd += ["--rlimit", str(rlimit)]
    cmd += list(extra)
    t0 = time.time()
    try:
        p = subprocess.run(cmd, stdout=subprocess.PIPE, stderr=subprocess.PIPE, text=True, timeout=timeout,
                           cwd=os.path.dirname(path))
        out, err, rc = p.stdout, p.stderr, p.returncode
    except subprocess.TimeoutExpired:
        out, err, rc = "", "timeout", -9
    wall = time.time() - t0
    js = {}
    try:
        js = json.loads(out)
    except Exception:
        pass
    return dict(json=js, stderr=err, rc=rc, wall=wall, cmd=" ".join(cmd))


def parse_errors(stderr):
    """Split rustc-style diagnostics: returns list of dict(level, msg, file, line, col, text)."""
    items = []
    cur = None
    for ln in stderr.split("\n"):
        m = re.match(r"^(error|warning|note)(\[[A-Z0-9]+\])?: (.*)$", ln)
        if m:
            cur = dict(level=m.group(1), msg=m.group(3), line=None, col=None, text=[ln])
            items.append(cur)
            continue
        if cur is not None:
            cur["text"].append(ln)
            m2 = re.match(r"^\s*--> (.+?):(\d+):(\d+)", ln)
            if m2 and cur["line"] is None:
                cur["line"], cur["col"] = int(m2.group(2)), int(m2.group(3))
    for it in items:
        it["text"] = "\n".join(it["text"])
    return items


def classify(stderr, text):
    """Returns (violations[], undecided[]) from Verus' diagnostics on generated `text`."""
    tags = line_tags(text)
    lines = text.split("\n")
    viol, undec = [], []
    for e in parse_errors(stderr):
        if e["level"] != "error":
            continue
        msg = e["msg"]
        if msg.startswith("aborting due to") or msg.startswith("could not compile"):
            continue
        fn = None
        ins = None
        if e["line"] and e["line"] < len(tags):
            fn, ins = tags[e["line"]]
            if fn is None:
                fn = enclosing_fn(lines, e["line"])
        kind = None
        for pat, k in DEFINITE:
            if pat in msg:
                kind = k
                break
        rec = dict(kind=kind or "other", msg=msg, fn=fn, gen_line=e["line"], in_inserted_text=ins,
                   src_line_text=(lines[e["line"] - 1].strip() if e["line"] and e["line"] <= len(lines) else ""),
                   detail=e["text"][:1500])
        if kind:
            viol.append(rec)
        else:
            undec.append(rec)
    return viol, undec
