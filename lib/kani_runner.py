"""Kani back end: scratch copy of /repo, weave proof modules + contract attributes into the copy,
run cargo kani, parse per-check results, concrete playback of failures.

Weaving only ever ADDS WHOLE LINES to the copy; after weaving the added lines are removed again and
the result is compared byte for byte with /repo's file (identity check, every run)."""
import json
import os
import re
import resource
import shutil
import subprocess
import tempfile
import time
import glob

from . import rsrc

REPO = os.environ.get("VERIF_REPO", "/repo")
VERIF = os.path.dirname(os.path.dirname(os.path.abspath(__file__)))


class Undecided(Exception):
    """Machinery could not decide (lost anchor, compile error, ...). Never a violation."""


# ---------------------------------------------------------------- proof file parsing

class Harness:
    def __init__(self, **kw):
        self.__dict__.update(kw)

    def __repr__(self):
        return "Harness(%s)" % self.full


def module_path_of(relfile):
    """read-fonts/src/tables/cmap.rs -> tables::cmap ; font-types/src/lib.rs -> '' """
    parts = relfile.split("/")
    i = parts.index("src")
    p = parts[i + 1:]
    p[-1] = p[-1][:-3]
    if p[-1] in ("lib", "mod"):
        p = p[:-1]
    return "::".join(p)


def parse_proof_file(path):
    """Returns dict(weave_into, crate, text, harnesses[])."""
    text = open(path).read()
    m = re.search(r"^//@weave-into\s+(\S+)", text, re.M)
    if not m:
        raise ValueError("%s: missing //@weave-into" % path)
    weave_into = m.group(1)
    crate_dir = weave_into.split("/")[0]
    mp = re.search(r"^//@modpath\s+(\S+)", text, re.M)
    modpath = mp.group(1) if mp else module_path_of(weave_into)
    if modpath == "-":
        modpath = ""
    harnesses = []
    cur_mod = None
    lines = text.split("\n")
    pending = None
    defaults = {}
    for ln in lines:
        s = ln.strip()
        if s.startswith("//@defaults"):
            defaults = dict(re.findall(r"(\w+)=((?:\"[^\"]*\")|\S+)", s[len("//@defaults"):]))
            continue
        mm = re.match(r"(?:pub(?:\([^)]*\))?\s+)?mod\s+(\w+)\s*\{", s)
        if mm and cur_mod is None:
            cur_mod = mm.group(1)
        if pending is not None and ("kani::stub(" in s or "kani::stub_verified(" in s):
            pending["_stubs"] = "yes"
        if s.startswith("//@harness"):
            pending = dict(defaults)
            pending.update(dict(re.findall(r"(\w+)=((?:\"[^\"]*\")|\S+)", s[len("//@harness"):])))
            for k, v in list(pending.items()):
                pending[k] = v.strip('"')
            continue
        mf = re.match(r"(pub\s+)?fn\s+(\w+)\s*\(", s)
        if mf and pending is not None:
            name = mf.group(2)
            full = "::".join(x for x in (modpath, cur_mod, name) if x)
            harnesses.append(Harness(
                name=name, full=full, file=path, weave_into=weave_into, crate_dir=crate_dir,
                unit=pending.get("unit", "?"), props=pending.get("props", "").split(","),
                tier=pending.get("tier", "quick"), level=pending.get("level", "bounded"),
                bound=pending.get("bound", ""), timeout=int(pending.get("timeout", "300")),
                fns=[f for f in pending.get("fns", "").split(",") if f],
                contract=pending.get("contract", ""), expect=pending.get("expect", "pass"),
                note=pending.get("note", ""), solver=pending.get("solver", ""), has_stubs=(pending.get("_stubs") == "yes"),
            ))
            pending = None
    return dict(weave_into=weave_into, crate_dir=crate_dir, text=text, harnesses=harnesses, path=path)


def load_all_proofs():
    out = []
    for p in sorted(glob.glob(os.path.join(VERIF, "kani", "*", "*.proofs.rs"))):
        out.append(parse_proof_file(p))
    return out


def load_contracts():
    out = []
    for p in sorted(glob.glob(os.path.join(VERIF, "kani", "*", "contracts.json"))):
        out.extend(json.load(open(p)))
    return out


def crate_name_of(crate_dir):
    txt = open(os.path.join(REPO, crate_dir, "Cargo.toml")).read()
    m = re.search(r'^name\s*=\s*"([^"]+)"', txt, re.M)
    return m.group(1)


# ---------------------------------------------------------------- scratch + weave

def make_scratch():
    base = os.environ.get("VERIF_SCRATCH_BASE", "/tmp")
    d = tempfile.mkdtemp(prefix="verif-kani-", dir=base)
    ws = os.path.join(d, "ws")
    subprocess.run(["rsync", "-a", "--exclude", "/target", "--exclude", ".git", "--exclude", "/resources/fonts",
                    REPO + "/", ws + "/"], check=True)
    return d, ws


def weave(ws, proofs, contracts):
    """Weave into the scratch workspace. Returns {relfile: [(orig_line_after_which_inserted, nlines)]}"""
    by_file = {}
    for c in contracts:
        by_file.setdefault(c["file"], {"contracts": [], "appends": []})["contracts"].append(c)
    for p in proofs:
        by_file.setdefault(p["weave_into"], {"contracts": [], "appends": []})["appends"].append(p)
    linemaps = {}
    for rel, w in by_file.items():
        src_path = os.path.join(REPO, rel)
        if not os.path.exists(src_path):
            raise Undecided("lost-anchor: file %s does not exist" % rel)
        src = open(src_path).read()
        inserts = []  # (char offset at line start, text ending with \n)
        toks = rsrc.lex(src)
        for c in w["contracts"]:
            try:
                it = rsrc.locate_fn(src, c["fn"], c.get("container"), c.get("nth", 0), toks=toks)
            except KeyError as e:
                raise Undecided("lost-anchor: %s in %s" % (e, rel))
            line_start = src.rfind("\n", 0, it.start) + 1
            if src[line_start:it.start].strip() != "":
                raise Undecided("lost-anchor: fn %s does not start on its own line in %s" % (c["fn"], rel))
            indent = src[line_start:it.start]
            txt = "".join(indent + l + "\n" for l in c["lines"])
            inserts.append((line_start, txt))
        inserts.sort()
        out = []
        pos = 0
        linemap = []
        for off, txt in inserts:
            out.append(src[pos:off])
            out.append(txt)
            linemap.append((src.count("\n", 0, off), txt.count("\n")))
            pos = off
        out.append(src[pos:])
        body = "".join(out)
        tail = ""
        if not body.endswith("\n"):
            # appending needs a line break; it is removed again by the identity check below
            tail_nl = "\n"
        else:
            tail_nl = ""
        appended = ""
        for p in w["appends"]:
            t = p["text"]
            if not t.endswith("\n"):
                t += "\n"
            appended += t
        woven = body + (tail_nl + appended if appended else "")
        if appended:
            linemap.append((src.count("\n") + (1 if tail_nl else 0), appended.count("\n")))
        # identity check: delete what was added, compare with /repo
        rec = woven
        if appended:
            assert rec.endswith(appended)
            rec = rec[:len(rec) - len(appended)]
            if tail_nl:
                rec = rec[:-1]
        for off, txt in reversed(inserts):
            # offsets shift by the lengths of earlier inserts
            shift = sum(len(t2) for o2, t2 in inserts if o2 < off)
            assert rec[off + shift: off + shift + len(txt)] == txt
            rec = rec[:off + shift] + rec[off + shift + len(txt):]
        if rec != src:
            raise Undecided("weave identity check failed for %s" % rel)
        with open(os.path.join(ws, rel), "w") as f:
            f.write(woven)
        linemaps[rel] = linemap
    return linemaps


def map_line(linemaps, rel, line):
    """Map a line number of the woven file back to /repo's file (None if inside woven text)."""
    lm = linemaps.get(rel)
    if not lm:
        return line
    shift = 0
    for after, n in lm:
        start = after + shift + 1
        if line < start:
            break
        if line < start + n:
            return None
        shift += n
    return line - shift


# ---------------------------------------------------------------- run

def _limits(mem_gb):
    def f():
        os.setsid()
    return f


def run_kani(ws, scratch, crate, harnesses, jobs=8, harness_timeout=300, extra_args=(), log=None, solver=None):
    """Run one cargo kani invocation for `harnesses` (list of Harness) of one crate.
    Returns (results: {full: dict}, raw_output)."""
    out_json = os.path.join(scratch, "kani-%s-%d.json" % (crate, int(time.time() * 1000) % 10**9))
    cmd = ["cargo", "kani", "-p", crate, "-Z", "function-contracts", "-Z", "stubbing", "-Z", "unstable-options",
           "--harness-timeout", "%ds" % harness_timeout, "--output-format=terse", "-j", str(jobs),
           "--export-json", out_json, "--exact"]
    if crate in ("incremental-font-transfer",):
        cmd += ["--lib"]  # its [[bin]] targets need the `cli` feature
    if solver:
        cmd += ["--solver", solver]
    for h in harnesses:
        cmd += ["--harness", h.full]
    cmd += list(extra_args)
    env = dict(os.environ)
    env["CARGO_NET_OFFLINE"] = "true"
    env["CARGO_TARGET_DIR"] = os.path.join(scratch, "target")
    env.pop("RUSTFLAGS", None)
    t0 = time.time()
    overall = harness_timeout * max(1, (len(harnesses) + jobs - 1) // jobs) + 900
    mem_gb = int(os.environ.get("VERIF_CBMC_MEM_GB", "16"))

    def _cap():
        # per-process address-space cap (inherited by rustc, kani-driver and every cbmc): an out-of-memory cbmc then
        # fails by itself (-> UNDECIDED) instead of driving the machine into the OOM killer
        resource.setrlimit(resource.RLIMIT_AS, (mem_gb << 30, mem_gb << 30))
    try:
        p = subprocess.run(cmd, cwd=ws, env=env, stdout=subprocess.PIPE, stderr=subprocess.STDOUT, text=True,
                           timeout=overall, preexec_fn=_cap)
        raw = p.stdout
        rc = p.returncode
    except subprocess.TimeoutExpired as e:
        raw = (e.stdout or b"").decode("utf8", "replace") if isinstance(e.stdout, bytes) else (e.stdout or "")
        rc = -9
        subprocess.run(["pkill", "-f", scratch], check=False)
    wall = time.time() - t0
    if log:
        with open(log, "a") as f:
            f.write("$ " + " ".join(cmd) + "\n" + raw + "\n")
    results = {}
    if os.path.exists(out_json):
        try:
            d = json.load(open(out_json))
            cb = {c["harness_id"]: c for c in d.get("cbmc", [])}
            for r in d["verification_results"]["results"]:
                results[r["harness_id"]] = dict(status=r["status"], duration_ms=r.get("duration_ms", 0),
                                                checks=r.get("checks", []),
                                                cbmc=cb.get(r["harness_id"], {}).get("cbmc_stats", {}))
        except Exception as e:  # malformed json
            results = {}
    compile_failed = ("error: could not compile" in raw) or ("error[E" in raw and "Finished" not in raw)
    return dict(results=results, raw=raw, rc=rc, wall=wall, compile_failed=compile_failed, cmd=" ".join(cmd))


EXTRA_ARGS = {}  # crate -> extra cargo kani args of the current run (features), reused by playback


def playback(ws, scratch, crate, h, log=None):
    """Concrete playback of a failing harness: returns dict(test_text, playback_ran, playback_failed_as_expected, output)."""
    env = dict(os.environ)
    env["CARGO_NET_OFFLINE"] = "true"
    env["CARGO_TARGET_DIR"] = os.path.join(scratch, "target")
    cmd = ["cargo", "kani", "-p", crate, "-Z", "function-contracts", "-Z", "stubbing", "-Z", "concrete-playback",
           "--concrete-playback=inplace", "--exact", "--harness", h.full]
    if crate in ("incremental-font-transfer",):
        cmd += ["--lib"]
    cmd += list(EXTRA_ARGS.get(crate, []))
    res = dict(test_text=None, test_names=[], playback_ran=False, reproduced=False, output="")
    try:
        p = subprocess.run(cmd, cwd=ws, env=env, stdout=subprocess.PIPE, stderr=subprocess.STDOUT, text=True,
                           timeout=h.timeout + 600)
    except subprocess.TimeoutExpired:
        res["output"] = "playback generation timed out"
        return res
    out = p.stdout
    names = re.findall(r"^\s+- (kani_concrete_playback_\w+)", out, re.M)
    res["test_names"] = names
    # extract the generated tests from the modified source
    woven = open(os.path.join(ws, h.weave_into)).read()
    tests = []
    run_names = []
    for n in names:
        i = woven.find("fn " + n)
        if i >= 0:
            s0 = woven.rfind("/// Test generated for harness", 0, i)
            s1 = woven.rfind("#[test]", 0, i)
            st = s0 if (s0 >= 0 and s1 - s0 < 600) else s1
            run_at = woven.find("kani::concrete_playback_run(", i)
            toks_end = woven.find("}", run_at if run_at >= 0 else i)
            txt = woven[st:toks_end + 1]
            if "Check for `cover`" in txt:
                continue  # satisfied cover points also get playback tests; they are not counterexamples
            tests.append(txt)
            run_names.append(n)
    res["test_text"] = "\n".join(tests) if tests else None
    res["test_names"] = run_names
    if not run_names:
        res["output"] = out[-3000:]
        return res
    names = run_names
    cmd2 = ["cargo", "kani", "playback", "-Z", "concrete-playback", "-p", crate] + list(EXTRA_ARGS.get(crate, [])) + ["--", "kani_concrete_playback_" + h.name]
    try:
        p2 = subprocess.run(cmd2, cwd=ws, env=env, stdout=subprocess.PIPE, stderr=subprocess.STDOUT, text=True,
                            timeout=900)
        res["playback_ran"] = re.search(r"running \d+ test", p2.stdout) is not None
        failed = [n for n in names if re.search(re.escape(n) + r" \.\.\. FAILED", p2.stdout)]
        res["reproduced"] = bool(failed)
        res["reproduced_tests"] = failed
        m = re.search(r"---- .*? stdout ----.*?(?=\n\n|\Z)", p2.stdout, re.S)
        res["output"] = (m.group(0)[:1500] + "\n...\n" if m else "") + p2.stdout[-1200:]
    except subprocess.TimeoutExpired:
        res["output"] = "playback run timed out"
    if log:
        with open(log, "a") as f:
            f.write("$ " + " ".join(cmd) + "\n" + out[-4000:] + "\n$ " + " ".join(cmd2) + "\n" + res["output"] + "\n")
    return res


def cleanup(scratch):
    shutil.rmtree(scratch, ignore_errors=True)
