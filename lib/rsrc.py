"""Minimal Rust lexer + item locator used by the weaver (Kani) and the extractor (Verus).

It is *not* a Rust parser: it tokenizes (comments, strings, chars/lifetimes, idents,
numbers, single-character punctuation) and matches brackets, which is all that is needed
to find an item by (impl header, fn name) and to copy its text byte for byte.
"""
import re


class Tok:
    __slots__ = ("kind", "text", "start", "end")

    def __init__(self, kind, text, start, end):
        self.kind, self.text, self.start, self.end = kind, text, start, end

    def __repr__(self):
        return "Tok(%s,%r,%d)" % (self.kind, self.text, self.start)


_ident_re = re.compile(r"[A-Za-z_][A-Za-z0-9_]*")
_num_re = re.compile(r"[0-9][0-9A-Za-z_]*(\.[0-9][0-9A-Za-z_]*)?")


def lex(src, keep_comments=False):
    """Return list of Tok. kinds: id, num, str, chr, life, p (punct), com (comment)."""
    toks = []
    i, n = 0, len(src)
    while i < n:
        c = src[i]
        if c.isspace():
            i += 1
            continue
        if src.startswith("//", i):
            j = src.find("\n", i)
            j = n if j < 0 else j
            if keep_comments:
                toks.append(Tok("com", src[i:j], i, j))
            i = j
            continue
        if src.startswith("/*", i):
            depth, j = 1, i + 2
            while j < n and depth:
                if src.startswith("/*", j):
                    depth += 1
                    j += 2
                elif src.startswith("*/", j):
                    depth -= 1
                    j += 2
                else:
                    j += 1
            if keep_comments:
                toks.append(Tok("com", src[i:j], i, j))
            i = j
            continue
        # raw / byte strings
        m = re.match(r"(b?r)(#*)\"", src[i:i + 40])
        if m:
            hashes = m.group(2)
            endpat = '"' + hashes
            j = src.find(endpat, i + len(m.group(0)))
            j = n if j < 0 else j + len(endpat)
            toks.append(Tok("str", src[i:j], i, j))
            i = j
            continue
        if c == '"' or (c == "b" and i + 1 < n and src[i + 1] == '"'):
            j = i + (2 if c == "b" else 1)
            while j < n and src[j] != '"':
                j += 2 if src[j] == "\\" else 1
            j += 1
            toks.append(Tok("str", src[i:j], i, j))
            i = j
            continue
        if c == "'" or (c == "b" and i + 1 < n and src[i + 1] == "'"):
            k = i + (1 if c == "b" else 0)
            # char literal or lifetime
            m = re.match(r"'(\\.[^']*|[^\\'])'", src[k:k + 16])
            if m:
                j = k + len(m.group(0))
                toks.append(Tok("chr", src[i:j], i, j))
                i = j
                continue
            m = _ident_re.match(src, k + 1)
            if m and c == "'":
                toks.append(Tok("life", src[i:m.end()], i, m.end()))
                i = m.end()
                continue
        m = _ident_re.match(src, i)
        if m:
            toks.append(Tok("id", m.group(0), i, m.end()))
            i = m.end()
            continue
        m = _num_re.match(src, i)
        if m:
            toks.append(Tok("num", m.group(0), i, m.end()))
            i = m.end()
            continue
        toks.append(Tok("p", c, i, i + 1))
        i += 1
    return toks


def tok_texts(src):
    return [t.text for t in lex(src)]


OPEN = {"(": ")", "[": "]", "{": "}"}
CLOSE = {")": "(", "]": "[", "}": "{"}


def match_close(toks, idx):
    """toks[idx] is an opening bracket; return index of its matching close."""
    depth = 0
    for k in range(idx, len(toks)):
        t = toks[k]
        if t.kind == "p":
            if t.text in OPEN:
                depth += 1
            elif t.text in CLOSE:
                depth -= 1
                if depth == 0:
                    return k
    raise ValueError("unbalanced bracket at token %d" % idx)


def find_seq(toks, seq, lo=0, hi=None, nth=0):
    """Find the nth occurrence of the token-text sequence `seq` in toks[lo:hi]. Returns index or -1."""
    hi = len(toks) if hi is None else hi
    L = len(seq)
    count = 0
    for k in range(lo, hi - L + 1):
        if toks[k].text == seq[0] and all(toks[k + d].text == seq[d] for d in range(1, L)):
            if count == nth:
                return k
            count += 1
    return -1


def count_seq(toks, seq, lo=0, hi=None):
    hi = len(toks) if hi is None else hi
    L = len(seq)
    c = 0
    for k in range(lo, hi - L + 1):
        if toks[k].text == seq[0] and all(toks[k + d].text == seq[d] for d in range(1, L)):
            c += 1
    return c


class Item:
    """A located item: attrs_start..end in the source (char offsets)."""

    def __init__(self, src, toks, attrs_start, kw_idx, body_open, body_close, end):
        self.src = src
        self.toks = toks
        self.attrs_start = attrs_start  # char offset of first attribute / doc comment line
        self.kw_idx = kw_idx  # token index where the item proper (vis/qualifiers + `fn`) starts
        self.body_open = body_open  # token index of '{' (or None for `;` items)
        self.body_close = body_close
        self.end = end  # char offset one past the end

    @property
    def start(self):
        return self.toks[self.kw_idx].start

    def text(self):
        return self.src[self.start:self.end]

    def line_of(self, off):
        return self.src.count("\n", 0, off) + 1


def _block_range(toks, header_seq, lo=0, hi=None, nth=0):
    """Locate `header_seq ... {` and return (header_idx, open_idx, close_idx)."""
    k = find_seq(toks, header_seq, lo, hi, nth)
    if k < 0:
        return None
    j = k + len(header_seq)
    # advance to the '{' that opens the block (skip where clauses; brackets balanced)
    while j < len(toks):
        t = toks[j]
        if t.kind == "p" and t.text == "{":
            break
        if t.kind == "p" and t.text in "([":
            j = match_close(toks, j)
        if t.kind == "p" and t.text == ";":
            return None
        j += 1
    else:
        return None
    return k, j, match_close(toks, j)


def locate_block(src, header, toks=None, lo=0, hi=None, nth=0):
    toks = toks if toks is not None else lex(src)
    r = _block_range(toks, tok_texts(header), lo, hi, nth)
    return r


def locate_fn(src, fn_name, container=None, nth=0, toks=None):
    """Find `fn <fn_name>` at brace depth 1 of the block introduced by `container`
    (e.g. "impl Div for Fixed", "impl<'a> Cursor<'a>", "pub trait ColorPainter", "mod x"), or at
    depth 0 of the file when container is None. `container` may be a list for nesting; every
    occurrence of a container header is searched (a type may have several `impl T` blocks).
    `nth` selects among all matches in source order. Returns Item or raises KeyError."""
    toks = toks if toks is not None else lex(src)
    containers = [] if container is None else ([container] if isinstance(container, str) else list(container))
    found = []

    def search(level, lo, hi):
        if level == len(containers):
            k = lo
            while k < hi:
                t = toks[k]
                if t.kind == "p" and t.text in OPEN:
                    k = match_close(toks, k) + 1
                    continue
                if t.kind == "id" and t.text == "fn" and k + 1 < hi and toks[k + 1].text == fn_name:
                    found.append((k, lo))
                k += 1
            return
        seq = tok_texts(containers[level])
        occ = 0
        while True:
            r = _block_range(toks, seq, lo, hi, occ)
            if r is None:
                # either not found, or this occurrence is not a block (e.g. `mod x;`): try later ones
                if find_seq(toks, seq, lo, hi, occ) < 0:
                    break
                occ += 1
                continue
            # header must be followed directly by `{`, `where` or generic-free tail: reject prefix matches
            # such as "impl Fixed" matching "impl FixedSize"  (token-exact already) -- nothing to do
            search(level + 1, r[1] + 1, r[2])
            occ += 1

    search(0, 0, len(toks))
    if len(found) <= nth:
        raise KeyError("fn %s not found in %r" % (fn_name, container))
    k, lo = found[nth]
    return _make_fn_item(src, toks, k, lo)


_QUALS = {"pub", "const", "unsafe", "async", "extern", "default", "crate", "super", "in", "self"}


def _make_fn_item(src, toks, fn_idx, lo):
    # walk back over qualifiers / visibility
    k = fn_idx
    while k - 1 >= lo:
        p = toks[k - 1]
        if p.kind == "id" and p.text in _QUALS:
            k -= 1
        elif p.kind == "str" and k - 2 >= lo and toks[k - 2].text == "extern":
            k -= 1
        elif p.kind == "p" and p.text == ")" :
            # pub(crate) / pub(super) / pub(in path)
            o = k - 1
            depth = 0
            while o >= lo:
                if toks[o].text == ")":
                    depth += 1
                elif toks[o].text == "(":
                    depth -= 1
                    if depth == 0:
                        break
                o -= 1
            if o - 1 >= lo and toks[o - 1].text == "pub":
                k = o - 1
            else:
                break
        else:
            break
    kw_idx = k
    # attributes: walk back over `# [ ... ]` groups
    a = kw_idx
    while a - 1 >= lo and toks[a - 1].text == "]":
        o = a - 1
        depth = 0
        while o >= lo:
            if toks[o].text == "]":
                depth += 1
            elif toks[o].text == "[":
                depth -= 1
                if depth == 0:
                    break
            o -= 1
        if o - 1 >= lo and toks[o - 1].text == "#":
            a = o - 1
        else:
            break
    # include preceding doc comments / plain comments lines directly above (by text scan)
    attrs_start = toks[a].start
    line_start = src.rfind("\n", 0, attrs_start) + 1
    while True:
        prev_end = line_start - 1
        if prev_end <= 0:
            break
        prev_start = src.rfind("\n", 0, prev_end) + 1
        line = src[prev_start:prev_end].strip()
        if line.startswith("///") or line.startswith("//!") or line.startswith("#["):
            line_start = prev_start
        else:
            break
    attrs_start = min(attrs_start, line_start) if src[line_start:toks[a].start].strip() == "" or True else attrs_start
    attrs_start = line_start
    # find body
    j = fn_idx
    body_open = None
    while j < len(toks):
        t = toks[j]
        if t.kind == "p" and t.text == "{":
            body_open = j
            break
        if t.kind == "p" and t.text in "([":
            j = match_close(toks, j)
        elif t.kind == "p" and t.text == ";":
            break
        j += 1
    if body_open is None:
        return Item(src, toks, attrs_start, kw_idx, None, None, toks[j].end)
    body_close = match_close(toks, body_open)
    return Item(src, toks, attrs_start, kw_idx, body_open, body_close, toks[body_close].end)


def strip_tokens(text):
    """Token texts of `text` with comments removed (used by erasure / identity checks)."""
    return tok_texts(text)
