// appended to skrifa/src/outline/glyf/memory.rs of a scratch copy
#[cfg(kani)]
mod verif_proofs {
    use super::*;

    #[kani::proof]
    fn align_up_contract() {
        let len: usize = kani::any();
        let shift: u32 = kani::any();
        kani::assume(shift < 4);
        let a = 1usize << shift;
        kani::assume(len <= usize::MAX - 8);
        let r = align_up(len, a);
        assert!(r >= len && r - len < a && r % a == 0);
    }

    #[kani::proof]
    #[kani::unwind(4)]
    fn alloc_slice_i32() {
        let mut buf = [0u8; 24];
        let off: usize = kani::any();
        kani::assume(off < 4);
        let n: usize = kani::any();
        kani::assume(n <= 8);
        let avail = 24 - off;
        let r = alloc_slice::<i32>(&mut buf[off..], n);
        if let Some((s, rest)) = r {
            assert!(s.len() == n);
            assert!((s.as_ptr() as usize) % 4 == 0 || n == 0);
            assert!(n * 4 + rest.len() <= avail);
        } else {
            // may only fail when the request plus worst-case padding does not fit
            assert!(n * 4 + 3 > avail);
        }
    }
}
