// appended to write-fonts/src/tables/layout/builders.rs of a scratch copy
#[cfg(kani)]
mod verif_proofs {
    use super::*;
    use crate::write::TableWriter;
    use crate::FontWrite;
    use read_fonts::{FontData, FontRead};

    fn fixed_random_state() -> std::hash::RandomState {
        unsafe { core::mem::transmute::<(u64, u64), std::hash::RandomState>((0u64, 0u64)) }
    }
    static mut SINK: [u8; 32] = [0; 32];
    static mut SINK_LEN: usize = 0;
    fn write_slice_sink(_w: &mut TableWriter, bytes: &[u8]) {
        unsafe {
            let mut i = 0;
            while i < bytes.len() {
                SINK[SINK_LEN + i] = bytes[i];
                i += 1;
            }
            SINK_LEN += bytes.len();
        }
    }

    #[kani::proof]
    #[kani::unwind(6)]
    #[kani::stub(std::hash::RandomState::new, fixed_random_state)]
    #[kani::stub(TableWriter::write_slice, write_slice_sink)]
    fn coverage_builder_roundtrip_2() {
        let a: u16 = kani::any();
        let b: u16 = kani::any();
        let cov = CoverageTableBuilder::from_glyphs(vec![GlyphId16::new(a), GlyphId16::new(b)]).build();
        let mut w = TableWriter::default();
        cov.write_into(&mut w);
        let (bytes, n) = unsafe { (SINK, SINK_LEN) };
        let r = read_fonts::tables::layout::CoverageTable::read(FontData::new(&bytes[..n])).unwrap();
        let q: u16 = kani::any();
        let lo = if a < b { a } else { b };
        let hi = if a < b { b } else { a };
        let expect = if q == lo { Some(0u16) } else if q == hi { Some(1u16) } else { None };
        assert!(r.get(GlyphId16::new(q)) == expect);
    }
}
