use vstd::prelude::*;
use std::marker::PhantomData;
verus! {

// ---- abstract BitSet: contracts are exactly those checked by the Kani units on the real BitSet
#[verifier::external_body]
pub struct BitSet { _p: u8 }

impl BitSet {
    pub uninterp spec fn view(&self) -> Set<u32>;

    #[verifier::external_body]
    pub fn insert(&mut self, val: u32) -> (r: bool)
        ensures final(self)@ == old(self)@.insert(val), r == !old(self)@.contains(val)
    { unimplemented!() }
    #[verifier::external_body]
    pub fn remove(&mut self, val: u32) -> (r: bool)
        ensures final(self)@ == old(self)@.remove(val), r == old(self)@.contains(val)
    { unimplemented!() }
    #[verifier::external_body]
    pub fn contains(&self, val: u32) -> (r: bool)
        ensures r == self@.contains(val)
    { unimplemented!() }
    #[verifier::external_body]
    pub fn len(&self) -> (r: u64)
        ensures r == self@.len()
    { unimplemented!() }
    #[verifier::external_body]
    pub fn clear(&mut self)
        ensures final(self)@ == Set::<u32>::empty()
    { unimplemented!() }
    #[verifier::external_body]
    pub fn union(&mut self, other: &BitSet)
        ensures final(self)@ == old(self)@.union(other@)
    { unimplemented!() }
    #[verifier::external_body]
    pub fn intersect(&mut self, other: &BitSet)
        ensures final(self)@ == old(self)@.intersect(other@)
    { unimplemented!() }
    #[verifier::external_body]
    pub fn subtract(&mut self, other: &BitSet)
        ensures final(self)@ == old(self)@.difference(other@)
    { unimplemented!() }
    #[verifier::external_body]
    pub fn reversed_subtract(&mut self, other: &BitSet)
        ensures final(self)@ == other@.difference(old(self)@)
    { unimplemented!() }
    #[verifier::external_body]
    pub const fn empty() -> (r: BitSet)
        ensures r@ == Set::<u32>::empty()
    { unimplemented!() }
}

pub trait Domain: Sized {
    spec fn to_u32_spec(&self) -> u32;
    spec fn dom(value: u32) -> bool;
    spec fn count_spec() -> nat;

    fn to_u32(&self) -> (r: u32)
        ensures r == self.to_u32_spec(), Self::dom(r);
    fn count() -> (r: u64)
        ensures r == Self::count_spec();
    // the domain is a finite set of exactly count() values
    proof fn dom_finite()
        ensures ISet::<u32>::new(|x: u32| Self::dom(x)).finite(),
                ISet::<u32>::new(|x: u32| Self::dom(x)).len() == Self::count_spec();
}

pub enum Membership {
    Inclusive(BitSet),
    Exclusive(BitSet),
}

pub struct IntSet<T>(pub Membership, pub PhantomData<T>);

impl<T: Domain> IntSet<T> {
    // membership of a mapped value
    pub open spec fn mem(&self, x: u32) -> bool {
        match self.0 {
            Membership::Inclusive(s) => s@.contains(x),
            Membership::Exclusive(s) => T::dom(x) && !s@.contains(x),
        }
    }
    // representation invariant: stored values are in the domain
    pub open spec fn wf(&self) -> bool {
        match self.0 {
            Membership::Inclusive(s) => forall|x: u32| s@.contains(x) ==> T::dom(x),
            Membership::Exclusive(s) => forall|x: u32| s@.contains(x) ==> T::dom(x),
        }
    }

    pub fn insert(&mut self, val: T) -> (r: bool)
        requires old(self).wf()
        ensures final(self).wf(),
            forall|x: u32| final(self).mem(x) == (old(self).mem(x) || x == val.to_u32_spec()),
            r == !old(self).mem(val.to_u32_spec()),
    {
        let val = val.to_u32();
        match &mut self.0 {
            Membership::Inclusive(s) => s.insert(val),
            Membership::Exclusive(s) => s.remove(val),
        }
    }

    pub fn remove(&mut self, val: T) -> (r: bool)
        requires old(self).wf()
        ensures final(self).wf(),
            forall|x: u32| final(self).mem(x) == (old(self).mem(x) && x != val.to_u32_spec()),
            r == old(self).mem(val.to_u32_spec()),
    {
        let val = val.to_u32();
        match &mut self.0 {
            Membership::Inclusive(s) => s.remove(val),
            Membership::Exclusive(s) => s.insert(val),
        }
    }

    pub fn contains(&self, val: T) -> (r: bool)
        requires self.wf()
        ensures r == self.mem(val.to_u32_spec())
    {
        let val = val.to_u32();
        match &self.0 {
            Membership::Inclusive(s) => s.contains(val),
            Membership::Exclusive(s) => !s.contains(val),
        }
    }

    pub fn len(&self) -> (r: u64)
        requires self.wf()
        ensures r == ISet::<u32>::new(|x: u32| self.mem(x)).len()
    {
        match &self.0 {
            Membership::Inclusive(s) => s.len(),
            Membership::Exclusive(s) => T::count() - s.len(),
        }
    }

    pub fn intersect(&mut self, other: &IntSet<T>)
        requires old(self).wf(), other.wf()
        ensures final(self).wf(), forall|x: u32| final(self).mem(x) == (old(self).mem(x) && other.mem(x)),
    {
        match (&mut self.0, &other.0) {
            (Membership::Inclusive(a), Membership::Inclusive(b)) => a.intersect(b),
            (Membership::Inclusive(a), Membership::Exclusive(b)) => a.subtract(b),
            (Membership::Exclusive(a), Membership::Inclusive(b)) => {
                a.reversed_subtract(b);
                self.invert();
            }
            (Membership::Exclusive(a), Membership::Exclusive(b)) => a.union(b),
        }
    }

    pub fn subtract(&mut self, other: &IntSet<T>)
        requires old(self).wf(), other.wf()
        ensures final(self).wf(), forall|x: u32| final(self).mem(x) == (old(self).mem(x) && !other.mem(x)),
    {
        match (&mut self.0, &other.0) {
            (Membership::Inclusive(a), Membership::Inclusive(b)) => a.subtract(b),
            (Membership::Inclusive(a), Membership::Exclusive(b)) => a.intersect(b),
            (Membership::Exclusive(a), Membership::Inclusive(b)) => a.union(b),
            (Membership::Exclusive(a), Membership::Exclusive(b)) => {
                a.reversed_subtract(b);
                self.invert();
            }
        }
    }
}

impl<T> IntSet<T> {
    // Verus cannot parse the real body (or-pattern with &mut binding): contract only; the real body is proved by Kani
    #[verifier::external_body]
    pub fn invert(&mut self)
        ensures match (old(self).0, final(self).0) {
            (Membership::Inclusive(a), Membership::Exclusive(b)) => a@ == b@,
            (Membership::Exclusive(a), Membership::Inclusive(b)) => a@ == b@,
            _ => false,
        }
    { unimplemented!() }
}

}
fn main() {}
