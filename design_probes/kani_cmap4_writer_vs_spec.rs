// appended to write-fonts/src/tables/cmap.rs of a scratch copy.
// format4_one_mapping (symbolic char): out of memory. format4_one_mapping_concrete_char: 11 s, FAILS on the
// pinned tree at Result::unwrap_failed (idDelta computed with try_into::<i16>().unwrap()).
#[cfg(kani)]
mod verif_proofs {
    use super::*;

    // OpenType format-4 lookup over the owned arrays, written from the spec text
    fn fmt4_lookup(t: &Cmap4, cp: u16) -> u16 {
        let n = t.end_code.len();
        let mut i = 0;
        while i < n {
            if t.end_code[i] >= cp {
                if t.start_code[i] > cp { return 0; }
                let ro = t.id_range_offsets[i];
                if ro == 0 {
                    return (cp as i32 + t.id_delta[i] as i32) as u16;
                }
                let idx = (ro as usize / 2 + (cp - t.start_code[i]) as usize) - (n - i);
                if idx >= t.glyph_id_array.len() { return 0; }
                let g = t.glyph_id_array[idx];
                if g == 0 { return 0; }
                return (g as i32 + t.id_delta[i] as i32) as u16;
            }
            i += 1;
        }
        0
    }

    #[kani::proof]
    #[kani::unwind(4)]
    fn format4_one_mapping() {
        let c1: u16 = kani::any();
        kani::assume(c1 < 0xFFFF && !(0xD800..=0xDFFF).contains(&c1));
        let g1: u16 = kani::any();
        kani::assume(g1 != 0);
        let m = [(char::from_u32(c1 as u32).unwrap(), GlyphId::new(g1 as u32))];
        let sub = CmapSubtable::create_format_4(&m).unwrap();
        let CmapSubtable::Format4(t) = sub else { panic!() };
        assert!(fmt4_lookup(&t, c1) == g1);
        let other: u16 = kani::any();
        kani::assume(other != c1 && other != 0xFFFF);
        assert!(fmt4_lookup(&t, other) == 0);
    }

    #[kani::proof]
    #[kani::unwind(4)]
    fn format4_one_mapping_concrete_char() {
        let c1: u16 = 0x41;
        let g1: u16 = kani::any();
        kani::assume(g1 != 0);
        let m = [(char::from_u32(c1 as u32).unwrap(), GlyphId::new(g1 as u32))];
        let sub = CmapSubtable::create_format_4(&m).unwrap();
        let CmapSubtable::Format4(t) = sub else { panic!() };
        assert!(fmt4_lookup(&t, c1) == g1);
    }
}
