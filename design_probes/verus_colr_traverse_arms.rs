use vstd::prelude::*;
use std::ops::Range;
verus! {

// ---- opaque foreign types ----
#[verifier::external_body] pub struct Paint { _p: u8 }
#[verifier::external_body] pub struct ColorStops { _p: u8 }
#[verifier::external_body] pub struct ColrInstance { _p: u8 }
#[verifier::external_body] pub struct ColorStopVec { _p: u8 }
#[verifier::external_body] pub struct Transform { _p: u8 }
#[verifier::external_body] pub struct BBox { _p: u8 }
#[verifier::external_body] pub struct ReadError { _p: u8 }
#[derive(Clone, Copy)] pub struct GlyphId16(pub u16);
#[derive(Clone, Copy)] pub struct GlyphId(pub u32);
#[derive(Clone, Copy, PartialEq, Eq)] pub enum CompositeMode { SrcOver, Other }
#[derive(Clone, Copy)] pub enum Extend { Pad, Repeat, Reflect }
pub type PaintId = usize;

pub enum PaintError {
    ParseError(ReadError),
    GlyphNotFound(GlyphId),
    PaintCycleDetected,
    DepthLimitExceeded,
}
pub enum PaintCachedColorGlyph { Ok, Unimplemented }

pub enum ResolvedPaint {
    ColrLayers { range: Range<usize> },
    Solid { palette_index: u16, alpha: f32 },
    Glyph { glyph_id: GlyphId16, paint: Paint },
    ColrGlyph { glyph_id: GlyphId16 },
    Transform { xx: f32, paint: Paint },
    Translate { dx: f32, paint: Paint },
    Composite { source_paint: Paint, mode: CompositeMode, backdrop_paint: Paint },
}

// ghost nesting stack
pub enum Scope { Transform, Clip, Layer }

pub trait ColorPainter {
    spec fn stack(&self) -> Seq<Scope>;
    spec fn mismatch(&self) -> bool;

    fn push_transform(&mut self, transform: Transform)
        ensures final(self).stack() == old(self).stack().push(Scope::Transform), final(self).mismatch() == old(self).mismatch();
    fn pop_transform(&mut self)
        ensures pop_post(old(self).stack(), old(self).mismatch(), final(self).stack(), final(self).mismatch(), Scope::Transform);
    fn push_clip_glyph(&mut self, glyph_id: GlyphId)
        ensures final(self).stack() == old(self).stack().push(Scope::Clip), final(self).mismatch() == old(self).mismatch();
    fn push_clip_box(&mut self, clip_box: BBox)
        ensures final(self).stack() == old(self).stack().push(Scope::Clip), final(self).mismatch() == old(self).mismatch();
    fn pop_clip(&mut self)
        ensures pop_post(old(self).stack(), old(self).mismatch(), final(self).stack(), final(self).mismatch(), Scope::Clip);
    fn push_layer(&mut self, composite_mode: CompositeMode)
        ensures final(self).stack() == old(self).stack().push(Scope::Layer), final(self).mismatch() == old(self).mismatch();
    fn pop_layer_with_mode(&mut self, composite_mode: CompositeMode)
        ensures pop_post(old(self).stack(), old(self).mismatch(), final(self).stack(), final(self).mismatch(), Scope::Layer);
    fn paint_cached_color_glyph(&mut self, glyph: GlyphId) -> (r: Result<PaintCachedColorGlyph, PaintError>)
        ensures final(self).stack() == old(self).stack(), final(self).mismatch() == old(self).mismatch();
}

pub open spec fn pop_post(s0: Seq<Scope>, m0: bool, s1: Seq<Scope>, m1: bool, k: Scope) -> bool {
    if s0.len() == 0 { s1 == s0 && m1 } else { s1 == s0.drop_last() && m1 == (m0 || s0.last() != k) }
}

pub const MAX_TRAVERSAL_DEPTH: usize = 64;

#[verifier::external_body] pub struct PaintDecycler { _p: u8 }
#[verifier::external_body] pub struct DecyclerGuard<'a> { decycler: &'a mut PaintDecycler }
pub enum DecyclerError { DepthLimitExceeded, CycleDetected }
impl PaintDecycler {
    #[verifier::external_body]
    pub fn enter(&mut self, node_id: usize) -> Result<DecyclerGuard<'_>, DecyclerError> { unimplemented!() }
}
impl From<DecyclerError> for PaintError {
    #[verifier::external_body]
    fn from(value: DecyclerError) -> Self {
        match value {
            DecyclerError::CycleDetected => Self::PaintCycleDetected,
            DecyclerError::DepthLimitExceeded => Self::DepthLimitExceeded,
        }
    }
}
impl<'a> core::ops::Deref for DecyclerGuard<'a> {
    type Target = PaintDecycler;
    #[verifier::external_body]
    fn deref(&self) -> &Self::Target { self.decycler }
}
impl<'a> core::ops::DerefMut for DecyclerGuard<'a> {
    #[verifier::external_body]
    fn deref_mut(&mut self) -> &mut Self::Target { self.decycler }
}


pub fn traverse_with_callbacks<P: ColorPainter>(
    paint: &ResolvedPaint,
    instance: &ColrInstance,
    painter: &mut P,
    decycler: &mut PaintDecycler,
    recurse_depth: usize,
) -> (res: Result<(), PaintError>)
    ensures
        old(painter).stack().is_prefix_of(final(painter).stack()),
        res.is_ok() ==> final(painter).stack() == old(painter).stack() && final(painter).mismatch() == old(painter).mismatch(),
    decreases MAX_TRAVERSAL_DEPTH - recurse_depth
{
    if recurse_depth >= MAX_TRAVERSAL_DEPTH {
        return Err(PaintError::DepthLimitExceeded);
    }
    match paint {
        ResolvedPaint::Transform {
            paint: next_paint, ..
        }
        | ResolvedPaint::Translate {
            paint: next_paint, ..
        } => {
            painter.push_transform(to_transform(paint)?);
            let result = traverse_with_callbacks(
                &resolve_paint(instance, next_paint)?,
                instance,
                painter,
                decycler,
                recurse_depth + 1,
            );
            painter.pop_transform();
            result
        }
        ResolvedPaint::ColrLayers { range } => {
            for layer_index in range.clone()
                invariant painter.stack() == old(painter).stack(), painter.mismatch() == old(painter).mismatch(), recurse_depth < MAX_TRAVERSAL_DEPTH,
            {
                // Perform cycle detection with paint id here, second part of the tuple.
                let (layer_paint, paint_id) = (*instance).v1_layer(layer_index)?;
                let mut cycle_guard = decycler.enter(paint_id)?;
                traverse_with_callbacks(
                    &resolve_paint(instance, &layer_paint)?,
                    instance,
                    painter,
                    &mut cycle_guard,
                    recurse_depth + 1,
                )?;
            }
            Ok(())
        }
        ResolvedPaint::Composite {
            source_paint,
            mode,
            backdrop_paint,
        } => {
            painter.push_layer(CompositeMode::SrcOver);
            let mut result = traverse_with_callbacks(
                &resolve_paint(instance, backdrop_paint)?,
                instance,
                painter,
                decycler,
                recurse_depth + 1,
            );
            result?;
            painter.push_layer(*mode);
            result = traverse_with_callbacks(
                &resolve_paint(instance, source_paint)?,
                instance,
                painter,
                decycler,
                recurse_depth + 1,
            );
            painter.pop_layer_with_mode(*mode);
            painter.pop_layer_with_mode(CompositeMode::SrcOver);
            result
        }
        ResolvedPaint::Glyph { glyph_id, paint } => {
            let glyph_id = (*glyph_id).into();
            let mut optimizer = CollectFillGlyphPainter::new(painter, glyph_id);
            let mut result = traverse_with_callbacks(
                &resolve_paint(instance, paint)?,
                instance,
                &mut optimizer,
                decycler,
                recurse_depth + 1,
            );

            // In case the optimization was not successful, just push a clip, and continue unoptimized traversal.
            if !optimizer.optimization_success {
                painter.push_clip_glyph(glyph_id);
                result = traverse_with_callbacks(
                    &resolve_paint(instance, paint)?,
                    instance,
                    painter,
                    decycler,
                    recurse_depth + 1,
                );
                painter.pop_clip();
            }

            result
        }
        ResolvedPaint::ColrGlyph { glyph_id } => {
            let glyph_id = (*glyph_id).into();
            match (*instance).v1_base_glyph(glyph_id)? {
                Some((base_glyph, base_glyph_paint_id)) => {
                    let mut cycle_guard = decycler.enter(base_glyph_paint_id)?;
                    let draw_result = painter.paint_cached_color_glyph(glyph_id)?;
                    match draw_result {
                        PaintCachedColorGlyph::Ok => Ok(()),
                        PaintCachedColorGlyph::Unimplemented => {
                            let clipbox = get_clipbox_font_units(instance, glyph_id);

                            if let Some(rect) = clipbox {
                                painter.push_clip_box(rect);
                            }

                            let result = traverse_with_callbacks(
                                &resolve_paint(instance, &base_glyph)?,
                                instance,
                                painter,
                                &mut cycle_guard,
                                recurse_depth + 1,
                            );
                            if clipbox.is_some() {
                                painter.pop_clip();
                            }
                            result
                        }
                    }
                }
                None => Err(PaintError::GlyphNotFound(glyph_id)),
            }
        }
        _ => Ok(())
    }
}

#[verifier::external_body]
pub fn resolve_paint(instance: &ColrInstance, paint: &Paint) -> Result<ResolvedPaint, PaintError> { unimplemented!() }
impl From<GlyphId16> for GlyphId {
    #[verifier::external_body]
    fn from(v: GlyphId16) -> Self { GlyphId(v.0 as u32) }
}
#[verifier::external_body]
pub fn get_clipbox_font_units(instance: &ColrInstance, glyph_id: GlyphId) -> Option<BBox> { unimplemented!() }

pub struct CollectFillGlyphPainter<'a> {
    glyph_id: GlyphId,
    parent_painter: &'a mut dyn ColorPainter,
    pub optimization_success: bool,
}
impl<'a> CollectFillGlyphPainter<'a> {
    fn new(parent_painter: &'a mut dyn ColorPainter, glyph_id: GlyphId) -> Self {
        Self {
            glyph_id,
            parent_painter,
            optimization_success: true,
        }
    }
}

impl ColrInstance {
    #[verifier::external_body]
    pub fn v1_base_glyph(&self, glyph_id: GlyphId) -> Result<Option<(Paint, PaintId)>, PaintError> { unimplemented!() }

    #[verifier::external_body]
    pub fn v1_layer(&self, index: usize) -> Result<(Paint, PaintId), PaintError> { unimplemented!() }
}
#[verifier::external_body]
pub fn to_transform(paint: &ResolvedPaint) -> Result<Transform, PaintError> { unimplemented!() }

}
fn main() {}
