use vstd::prelude::*;
use vstd::std_specs::cmp::*;
use core::cmp::Ordering;
verus! {

#[derive(Copy, Clone)]
pub struct Fixed(pub i32);

impl PartialEq for Fixed {
    fn eq(&self, other: &Fixed) -> bool { self.0 == other.0 }
}
impl Eq for Fixed {}
impl PartialOrd for Fixed {
    fn partial_cmp(&self, other: &Fixed) -> Option<Ordering> {
        PartialOrd::partial_cmp(&self.0, &other.0)
    }
}
impl Ord for Fixed {
    fn cmp(&self, other: &Fixed) -> Ordering {
        Ord::cmp(&self.0, &other.0)
    }
}

impl PartialEqSpecImpl for Fixed {
    open spec fn obeys_eq_spec() -> bool { true }
    open spec fn eq_spec(&self, other: &Fixed) -> bool { self.0 == other.0 }
}
impl PartialOrdSpecImpl for Fixed {
    open spec fn obeys_partial_cmp_spec() -> bool { true }
    open spec fn partial_cmp_spec(&self, other: &Fixed) -> Option<Ordering> { if self.0 < other.0 { Some(Ordering::Less) } else if self.0 == other.0 { Some(Ordering::Equal) } else { Some(Ordering::Greater) } }
}
impl OrdSpecImpl for Fixed {
    open spec fn obeys_cmp_spec() -> bool { true }
    open spec fn cmp_spec(&self, other: &Fixed) -> Ordering { if self.0 < other.0 { Ordering::Less } else if self.0 == other.0 { Ordering::Equal } else { Ordering::Greater } }
}

fn test(a: Fixed, lo: Fixed, hi: Fixed) -> (r: Fixed)
    requires lo.0 <= hi.0
    ensures lo.0 <= r.0 <= hi.0, (lo.0 <= a.0 <= hi.0) ==> r.0 == a.0
{
    a.clamp(lo, hi)
}

fn test2(a: Fixed, b: Fixed) -> (r: bool)
    ensures r == (a.0 < b.0)
{
    match a.cmp(&b) { Ordering::Less => true, _ => false }
}

fn test3(a: Fixed, b: Fixed) -> (r: Fixed)
    ensures r.0 >= a.0 && r.0 >= b.0 && (r.0 == a.0 || r.0 == b.0)
{
    a.max(b)
}
}
fn main() {}
