use vstd::prelude::*;
verus! {

// q is n/d rounded to nearest, ties away from zero (n >= 0, d > 0)
pub open spec fn is_rha_nonneg(n: int, d: int, q: int) -> bool {
    2 * q * d <= 2 * n + d && 2 * n + d < 2 * (q + 1) * d
}

pub struct Fixed(pub i32);

impl Fixed {
    // body verbatim from font-types/src/fixed.rs `impl Div for Fixed`
    fn div(self, other: Self) -> (r: Self)
        requires
            self.0 != i32::MIN, other.0 != i32::MIN,
            other.0 != 0 ==> ({
                let a = if self.0 < 0 { -(self.0 as int) } else { self.0 as int };
                let b = if other.0 < 0 { -(other.0 as int) } else { other.0 as int };
                2 * (a * 65536) + b < 2 * 0x80000000 * b
            }),
        ensures
            other.0 == 0 ==> r.0 == (if self.0 < 0 { -0x7FFFFFFFi32 } else { 0x7FFFFFFFi32 }),
            other.0 != 0 ==> ({
                let a = if self.0 < 0 { -(self.0 as int) } else { self.0 as int };
                let b = if other.0 < 0 { -(other.0 as int) } else { other.0 as int };
                let neg = (self.0 < 0) != (other.0 < 0);
                (2 * (a * 65536) + b < 2 * 0x80000000 * b) ==> is_rha_nonneg(a * 65536, b, if neg { -(r.0 as int) } else { r.0 as int })
            }),
    {
        let mut sign = 1;
        let mut a = self.0;
        let mut b = other.0;
        if a < 0 {
            a = -a;
            sign = -1;
        }
        if b < 0 {
            b = -b;
            sign = -sign;
        }
        let q = if b == 0 {
            0x7FFFFFFF
        } else {
            proof {
                assert((a as u64) << 16 == (a as u64) * 65536) by(bit_vector) requires 0 <= a <= 0x7FFFFFFF;
                assert((b as u64) >> 1 == (b as u64) / 2) by(bit_vector);
                let n = a as int * 65536;
                let bi = b as int;
                let x = n + bi / 2;
                let qi = x / bi;
                assert(x == bi * qi + x % bi && 0 <= x % bi < bi) by(nonlinear_arith) requires bi > 0, qi == x / bi;
                assert(2 * qi * bi <= 2 * n + bi && 2 * n + bi < 2 * (qi + 1) * bi) by(nonlinear_arith)
                    requires x == bi * qi + x % bi, 0 <= x % bi < bi, x == n + bi / 2, bi > 0;
                assert(qi < 0x80000000) by(nonlinear_arith)
                    requires 2 * qi * bi <= 2 * n + bi, 2 * n + bi < 2 * 0x80000000 * bi, bi > 0;
                assert(qi >= 0) by(nonlinear_arith) requires 2 * n + bi < 2 * (qi + 1) * bi, n >= 0, bi > 0;
            }
            ((((a as u64) << 16) + ((b as u64) >> 1)) / (b as u64)) as u32
        };
        Self(if sign < 0 { -(q as i32) } else { q as i32 })
    }
}

}
fn main() {}
