use vstd::prelude::*;
verus! {
pub trait Painter {
    spec fn depth(&self) -> int;
    fn push(&mut self) ensures final(self).depth() == old(self).depth() + 1;
    fn pop(&mut self) ensures final(self).depth() == old(self).depth() - 1;
    fn fill(&mut self) ensures final(self).depth() == old(self).depth();
    fn fill_glyph(&mut self)
        ensures final(self).depth() == old(self).depth()
    {
        self.push();
        self.fill();
        self.pop();
    }
}

pub struct Opt<'a, Q: Painter> {
    parent: &'a mut Q,
    pub ok: bool,
}

impl<'a, Q: Painter> Opt<'a, Q> {
    fn new(parent: &'a mut Q) -> (r: Self)
        ensures *r.parent == *old(parent), *final(r.parent) == *final(parent)
    {
        Self { parent, ok: true }
    }
    fn fill(&mut self)
        ensures final(self).parent.depth() == old(self).parent.depth(), *final(final(self).parent) == *final(old(self).parent), final(self).ok == old(self).ok
    {
        if self.ok {
            self.parent.fill_glyph();
        }
    }
}

fn client<P: Painter>(p: &mut P)
    ensures final(p).depth() == old(p).depth()
{
    let mut o = Opt::new(p);
    o.fill();
    if !o.ok {
        p.push();
        p.pop();
    }
}
}
fn main() {}
