
#[cfg(kani)]
mod verif_proofs {
    use super::*;

    fn any_page() -> BitPage {
        let storage: [u64; 8] = kani::any();
        let mut p = BitPage { storage, length: 0 };
        let mut n = 0u32;
        let mut i = 0;
        while i < 8 { n += storage[i].count_ones(); i += 1; }
        p.length = n;
        p
    }

    fn bit(storage: &[u64; 8], v: u32) -> bool {
        let v = v & 511;
        (storage[(v / 64) as usize] >> (v % 64)) & 1 == 1
    }

    #[kani::proof]
    #[kani::unwind(9)]
    fn insert_contract() {
        let mut p = any_page();
        let old = p.storage;
        let old_len = p.length;
        let v: u32 = kani::any();
        let w: u32 = kani::any();
        let was = bit(&old, v);
        let r = p.insert(v);
        assert!(r == !was);
        assert!(bit(&p.storage, v));
        assert!(p.length == old_len + (!was) as u32);
        // frame: every other bit unchanged
        if (w & 511) != (v & 511) { assert!(bit(&p.storage, w) == bit(&old, w)); }
        assert!(p.contains(w) == bit(&p.storage, w));
    }

    #[kani::proof]
    #[kani::unwind(9)]
    fn insert_range_contract() {
        let mut p = any_page();
        let old = p.storage;
        let first: u32 = kani::any();
        let last: u32 = kani::any();
        kani::assume(first / 512 == last / 512 && first <= last);
        let w: u32 = kani::any();
        p.insert_range(first, last);
        let in_range = (w & 511) >= (first & 511) && (w & 511) <= (last & 511);
        assert!(bit(&p.storage, w) == (bit(&old, w) || in_range));
        let mut n = 0u32; let mut i = 0;
        while i < 8 { n += p.storage[i].count_ones(); i += 1; }
        assert!(p.length == n);
    }
}
