// appended to skrifa/src/outline/glyf/hint/value_stack.rs of a scratch copy; SUCCESS 4 s
#[cfg(kani)]
mod verif_proofs {
    use super::*;

    #[kani::proof]
    #[kani::unwind(6)]
    fn push_pop_contract() {
        let mut buf: [i32; 4] = kani::any();
        let old = buf;
        let len: usize = kani::any();
        kani::assume(len <= 4);
        let pedantic: bool = kani::any();
        let mut s = ValueStack::new(&mut buf, pedantic);
        s.len = len;
        let v: i32 = kani::any();
        let r = s.push(v);
        assert!(r.is_ok() == (len < 4));
        if r.is_ok() { assert!(s.len() == len + 1); assert!(s.values()[len] == v); }
        else { assert!(s.len() == len); }
        let p = s.pop();
        if len == 4 { assert!(p == Ok(old[3])); }
        let _ = s.dup(); let _ = s.swap(); let _ = s.copy_index();
        assert!(s.len() <= 4);
    }
}
