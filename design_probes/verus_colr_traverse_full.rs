use vstd::prelude::*;
use std::ops::Range;
verus! {

// ---- opaque foreign types ----
#[verifier::external_body] pub struct Paint { _p: u8 }
#[verifier::external_body] pub struct ColorStops { _p: u8 }
#[verifier::external_body] pub struct ColrInstance { _p: u8 }
#[verifier::external_body] pub struct ColorStopVec { _p: u8 }
#[verifier::external_body] #[derive(Clone, Copy)] pub struct Transform { _p: u8 }
#[verifier::external_body] #[derive(Clone, Copy)] pub struct BBox { _p: u8 }
#[verifier::external_body] pub struct Brush { _p: u8 }
#[verifier::external_body] pub struct ReadError { _p: u8 }
#[derive(Clone, Copy)] pub struct GlyphId16(pub u16);
#[derive(Clone, Copy)] pub struct GlyphId(pub u32);
#[derive(Clone, Copy, PartialEq, Eq)] pub enum CompositeMode { SrcOver, Other }
#[derive(Clone, Copy)] pub enum Extend { Pad, Repeat, Reflect }
pub type PaintId = usize;

pub enum PaintError {
    ParseError(ReadError),
    GlyphNotFound(GlyphId),
    PaintCycleDetected,
    DepthLimitExceeded,
}
pub enum PaintCachedColorGlyph { Ok, Unimplemented }

pub enum ResolvedPaint {
    ColrLayers { range: Range<usize> },
    Solid { palette_index: u16, alpha: f32 },
    Glyph { glyph_id: GlyphId16, paint: Paint },
    ColrGlyph { glyph_id: GlyphId16 },
    Transform { xx: f32, paint: Paint },
    Translate { dx: f32, paint: Paint },
    Composite { source_paint: Paint, mode: CompositeMode, backdrop_paint: Paint },
}

// ghost nesting stack
pub enum Scope { Transform, Clip, Layer }

pub struct Obs { pub stack: Seq<Scope>, pub mismatch: bool }

pub open spec fn pushed(o: Obs, k: Scope) -> Obs { Obs { stack: o.stack.push(k), mismatch: o.mismatch } }
pub open spec fn popped(o: Obs, k: Scope) -> Obs {
    if o.stack.len() == 0 { Obs { stack: o.stack, mismatch: true } }
    else { Obs { stack: o.stack.drop_last(), mismatch: o.mismatch || o.stack.last() != k } }
}

// Abstract "skeleton" of a painter: everything about it that no callback may change.
// Clients have an arbitrary skeleton with muted_of == false is NOT assumed: it is whatever the client says.
pub broadcast proof fn lemma_pop_push(o: Obs, k: Scope)
    ensures #[trigger] popped(pushed(o, k), k) == o
{
    assert(o.stack.push(k).drop_last() =~= o.stack);
}

pub struct Skel { pub code: int }
pub uninterp spec fn muted_of(s: Skel) -> bool;
pub uninterp spec fn wrap(cur: Skel, fut: Skel, fut_root: Obs) -> Skel;
// axioms: `wrap` is an injective constructor of muted skeletons (exists: finite trees)
pub uninterp spec fn unwrap_cur(s: Skel) -> Skel;
pub uninterp spec fn unwrap_fut(s: Skel) -> Skel;
pub uninterp spec fn unwrap_root(s: Skel) -> Obs;
#[verifier::external_body]
pub broadcast proof fn axiom_wrap(a: Skel, b: Skel, c: Obs)
    ensures
        muted_of(#[trigger] wrap(a, b, c)),
        unwrap_cur(wrap(a, b, c)) == a,
        unwrap_fut(wrap(a, b, c)) == b,
        unwrap_root(wrap(a, b, c)) == c,
{}

pub trait ColorPainter {
    // nesting state observed by the root client painter
    spec fn root(&self) -> Obs;
    #[verifier::prophetic]
    spec fn skel(&self) -> Skel;

    fn push_transform(&mut self, transform: Transform)
        ensures final(self).skel() == old(self).skel(),
            final(self).root() == (if !muted_of(old(self).skel()) { pushed(old(self).root(), Scope::Transform) } else { old(self).root() });
    fn pop_transform(&mut self)
        ensures final(self).skel() == old(self).skel(),
            final(self).root() == (if !muted_of(old(self).skel()) { popped(old(self).root(), Scope::Transform) } else { old(self).root() });
    fn push_clip_glyph(&mut self, glyph_id: GlyphId)
        ensures final(self).skel() == old(self).skel(),
            final(self).root() == (if !muted_of(old(self).skel()) { pushed(old(self).root(), Scope::Clip) } else { old(self).root() });
    fn push_clip_box(&mut self, clip_box: BBox)
        ensures final(self).skel() == old(self).skel(),
            final(self).root() == (if !muted_of(old(self).skel()) { pushed(old(self).root(), Scope::Clip) } else { old(self).root() });
    fn pop_clip(&mut self)
        ensures final(self).skel() == old(self).skel(),
            final(self).root() == (if !muted_of(old(self).skel()) { popped(old(self).root(), Scope::Clip) } else { old(self).root() });
    fn push_layer(&mut self, composite_mode: CompositeMode)
        ensures final(self).skel() == old(self).skel(),
            final(self).root() == (if !muted_of(old(self).skel()) { pushed(old(self).root(), Scope::Layer) } else { old(self).root() });
    fn pop_layer_with_mode(&mut self, composite_mode: CompositeMode)
        ensures final(self).skel() == old(self).skel(),
            final(self).root() == (if !muted_of(old(self).skel()) { popped(old(self).root(), Scope::Layer) } else { old(self).root() });
    fn fill(&mut self, brush: Brush)
        ensures final(self).skel() == old(self).skel(), final(self).root() == old(self).root();
    fn fill_glyph(&mut self, glyph_id: GlyphId, brush_transform: Option<Transform>, brush: Brush)
        ensures final(self).skel() == old(self).skel(), final(self).root() == old(self).root();
    fn paint_cached_color_glyph(&mut self, glyph: GlyphId) -> (r: Result<PaintCachedColorGlyph, PaintError>)
        ensures final(self).skel() == old(self).skel(), final(self).root() == old(self).root();
}

pub const MAX_TRAVERSAL_DEPTH: usize = 64;

#[verifier::external_body] pub struct PaintDecycler { _p: u8 }
#[verifier::external_body] pub struct DecyclerGuard<'a> { decycler: &'a mut PaintDecycler }
pub enum DecyclerError { DepthLimitExceeded, CycleDetected }
impl PaintDecycler {
    #[verifier::external_body]
    pub fn enter(&mut self, node_id: usize) -> Result<DecyclerGuard<'_>, DecyclerError> { unimplemented!() }
}
impl From<DecyclerError> for PaintError {
    #[verifier::external_body]
    fn from(value: DecyclerError) -> Self {
        match value {
            DecyclerError::CycleDetected => Self::PaintCycleDetected,
            DecyclerError::DepthLimitExceeded => Self::DepthLimitExceeded,
        }
    }
}
impl<'a> core::ops::Deref for DecyclerGuard<'a> {
    type Target = PaintDecycler;
    #[verifier::external_body]
    fn deref(&self) -> &Self::Target { self.decycler }
}
impl<'a> core::ops::DerefMut for DecyclerGuard<'a> {
    #[verifier::external_body]
    fn deref_mut(&mut self) -> &mut Self::Target { self.decycler }
}


pub fn traverse_with_callbacks(
    paint: &ResolvedPaint,
    instance: &ColrInstance,
    painter: &mut impl ColorPainter,
    decycler: &mut PaintDecycler,
    resolved_stops: &mut ColorStopVec,
    recurse_depth: usize,
) -> (res: Result<(), PaintError>)
    ensures
        final(painter).skel() == old(painter).skel(),
        muted_of(old(painter).skel()) ==> final(painter).root() == old(painter).root(),
        !muted_of(old(painter).skel()) ==> old(painter).root().stack.is_prefix_of(final(painter).root().stack),
        !muted_of(old(painter).skel()) && res.is_ok() ==> final(painter).root() == old(painter).root(),
    decreases MAX_TRAVERSAL_DEPTH - recurse_depth
{
    broadcast use axiom_wrap, lemma_pop_push;
    if recurse_depth >= MAX_TRAVERSAL_DEPTH {
        return Err(PaintError::DepthLimitExceeded);
    }
    match paint {
        ResolvedPaint::Transform {
            paint: next_paint, ..
        }
        | ResolvedPaint::Translate {
            paint: next_paint, ..
        } => {
            painter.push_transform(paint.try_into()?);
            let result = traverse_with_callbacks(
                &resolve_paint(instance, next_paint)?,
                instance,
                painter,
                decycler,
                resolved_stops,
                recurse_depth + 1,
            );
            painter.pop_transform();
            result
        }
        ResolvedPaint::ColrLayers { range } => {
            for layer_index in range.clone()
                invariant painter.root() == old(painter).root(), painter.skel() == old(painter).skel(), recurse_depth < MAX_TRAVERSAL_DEPTH,
            {
                // Perform cycle detection with paint id here, second part of the tuple.
                let (layer_paint, paint_id) = (*instance).v1_layer(layer_index)?;
                let mut cycle_guard = decycler.enter(paint_id)?;
                traverse_with_callbacks(
                    &resolve_paint(instance, &layer_paint)?,
                    instance,
                    painter,
                    &mut cycle_guard,
                    resolved_stops,
                recurse_depth + 1,
                )?;
            }
            Ok(())
        }
        ResolvedPaint::Composite {
            source_paint,
            mode,
            backdrop_paint,
        } => {
            painter.push_layer(CompositeMode::SrcOver);
            let mut result = traverse_with_callbacks(
                &resolve_paint(instance, backdrop_paint)?,
                instance,
                painter,
                decycler,
                resolved_stops,
                recurse_depth + 1,
            );
            result?;
            painter.push_layer(*mode);
            result = traverse_with_callbacks(
                &resolve_paint(instance, source_paint)?,
                instance,
                painter,
                decycler,
                resolved_stops,
                recurse_depth + 1,
            );
            painter.pop_layer_with_mode(*mode);
            painter.pop_layer_with_mode(CompositeMode::SrcOver);
            result
        }
        ResolvedPaint::Glyph { glyph_id, paint } => {
            let glyph_id = (*glyph_id).into();
            let mut optimizer = CollectFillGlyphPainter::new(painter, glyph_id);
            let ghost o0 = optimizer;
            let mut result = traverse_with_callbacks(
                &resolve_paint(instance, paint)?,
                instance,
                &mut optimizer,
                decycler,
                resolved_stops,
                recurse_depth + 1,
            );

            // In case the optimization was not successful, just push a clip, and continue unoptimized traversal.
            if !optimizer.optimization_success {
                painter.push_clip_glyph(glyph_id);
                result = traverse_with_callbacks(
                    &resolve_paint(instance, paint)?,
                    instance,
                    painter,
                    decycler,
                    resolved_stops,
                recurse_depth + 1,
                );
                painter.pop_clip();
            }

            result
        }
        ResolvedPaint::ColrGlyph { glyph_id } => {
            let glyph_id = (*glyph_id).into();
            match (*instance).v1_base_glyph(glyph_id)? {
                Some((base_glyph, base_glyph_paint_id)) => {
                    let mut cycle_guard = decycler.enter(base_glyph_paint_id)?;
                    let draw_result = painter.paint_cached_color_glyph(glyph_id)?;
                    match draw_result {
                        PaintCachedColorGlyph::Ok => Ok(()),
                        PaintCachedColorGlyph::Unimplemented => {
                            let clipbox = get_clipbox_font_units(instance, glyph_id);

                            if let Some(rect) = clipbox {
                                painter.push_clip_box(rect);
                            }

                            let result = traverse_with_callbacks(
                                &resolve_paint(instance, &base_glyph)?,
                                instance,
                                painter,
                                &mut cycle_guard,
                                resolved_stops,
                recurse_depth + 1,
                            );
                            if clipbox.is_some() {
                                painter.pop_clip();
                            }
                            result
                        }
                    }
                }
                None => Err(PaintError::GlyphNotFound(glyph_id)),
            }
        }
        _ => Ok(())
    }
}

#[verifier::external_body]
pub fn resolve_paint(instance: &ColrInstance, paint: &Paint) -> Result<ResolvedPaint, PaintError> { unimplemented!() }
impl From<GlyphId16> for GlyphId {
    #[verifier::external_body]
    fn from(v: GlyphId16) -> Self { GlyphId(v.0 as u32) }
}
#[verifier::external_body]
pub fn get_clipbox_font_units(instance: &ColrInstance, glyph_id: GlyphId) -> Option<BBox> { unimplemented!() }

pub struct CollectFillGlyphPainter<'a, Q: ColorPainter> {
    pub brush_transform: Option<Transform>,
    pub glyph_id: GlyphId,
    pub parent_painter: &'a mut Q,
    pub optimization_success: bool,
}

impl<'a, Q: ColorPainter> CollectFillGlyphPainter<'a, Q> {
    fn new(parent_painter: &'a mut Q, glyph_id: GlyphId) -> (r: Self)
        ensures *r.parent_painter == *old(parent_painter), *final(r.parent_painter) == *final(parent_painter),
    {
        Self {
            brush_transform: None,
            glyph_id,
            parent_painter,
            optimization_success: true,
        }
    }
}

impl<Q: ColorPainter> ColorPainter for CollectFillGlyphPainter<'_, Q> {
    open spec fn root(&self) -> Obs { self.parent_painter.root() }
    #[verifier::prophetic]
    open spec fn skel(&self) -> Skel {
        wrap(self.parent_painter.skel(), final(self.parent_painter).skel(), final(self.parent_painter).root())
    }

    fn push_transform(&mut self, transform: Transform)
    {
        broadcast use axiom_wrap;
        if self.optimization_success {
            match self.brush_transform {
                None => {
                    self.brush_transform = Some(transform);
                }
                Some(ref mut existing_transform) => {
                    mul_assign_transform(existing_transform, transform);
                }
            }
        }
    }

    fn pop_transform(&mut self)
    {
        broadcast use axiom_wrap;
    }

    fn fill(&mut self, brush: Brush)
    {
        broadcast use axiom_wrap;
        if self.optimization_success {
            self.parent_painter
                .fill_glyph(self.glyph_id, self.brush_transform, brush);
        }
    }

    fn fill_glyph(&mut self, glyph_id: GlyphId, brush_transform: Option<Transform>, brush: Brush)
    {
        broadcast use axiom_wrap;
    }

    fn push_clip_glyph(&mut self, _g: GlyphId)
    {
        broadcast use axiom_wrap;
        self.optimization_success = false;
    }

    fn push_clip_box(&mut self, _b: BBox)
    {
        broadcast use axiom_wrap;
        self.optimization_success = false;
    }

    fn pop_clip(&mut self)
    {
        broadcast use axiom_wrap;
        self.optimization_success = false;
    }

    fn push_layer(&mut self, _m: CompositeMode)
    {
        broadcast use axiom_wrap;
        self.optimization_success = false;
    }

    fn pop_layer_with_mode(&mut self, _m: CompositeMode)
    {
        broadcast use axiom_wrap;
        self.optimization_success = false;
    }

    fn paint_cached_color_glyph(&mut self, glyph: GlyphId) -> (r: Result<PaintCachedColorGlyph, PaintError>)
    {
        broadcast use axiom_wrap;
        Ok(PaintCachedColorGlyph::Unimplemented)
    }
}

#[verifier::external_body]
fn mul_assign_transform(a: &mut Transform, b: Transform) { unimplemented!() }

impl ColrInstance {
    #[verifier::external_body]
    pub fn v1_base_glyph(&self, glyph_id: GlyphId) -> Result<Option<(Paint, PaintId)>, PaintError> { unimplemented!() }

    #[verifier::external_body]
    pub fn v1_layer(&self, index: usize) -> Result<(Paint, PaintId), PaintError> { unimplemented!() }
}
impl TryFrom<&ResolvedPaint> for Transform {
    type Error = PaintError;
    #[verifier::external_body]
    fn try_from(paint: &ResolvedPaint) -> Result<Self, Self::Error> { unimplemented!() }
}

}
fn main() {}
