use vstd::prelude::*;
verus! {

#[derive(Debug)]
pub enum ReadError { OutOfBounds, Other }

#[derive(Clone, Copy)]
pub struct FontData<'a> { pub bytes: &'a [u8] }

#[derive(Clone, Copy)]
pub struct Cursor<'a> { pub pos: usize, pub data: FontData<'a> }

pub struct TableRef<'a, T> { pub shape: T, pub data: FontData<'a> }

// Scalar::read for u16 (font-types): Some iff slice.len() == 2, big-endian value
#[verifier::external_body]
pub fn u16_read(slice: &[u8]) -> (r: Option<u16>)
    ensures r.is_some() == (slice@.len() == 2),
        r.is_some() ==> r.unwrap() as int == slice@[0] as int * 256 + slice@[1] as int
{ unimplemented!() }

pub const U16_RAW_BYTE_LEN: usize = 2;

impl<'a> FontData<'a> {
    pub fn len(&self) -> (r: usize) ensures r == self.bytes@.len() {
        self.bytes.len()
    }

    /// Read a scalar at the provided location in the data.  (T := u16)
    pub fn read_at(&self, offset: usize) -> (r: Result<u16, ReadError>)
        ensures
            r.is_ok() == (offset as int + 2 <= self.bytes@.len()),
            r.is_ok() ==> r.unwrap() as int == self.bytes@[offset as int] as int * 256 + self.bytes@[offset as int + 1] as int,
    {
        let end = offset
            .checked_add(U16_RAW_BYTE_LEN)
            .ok_or(ReadError::OutOfBounds)?;
        self.bytes
            .get(offset..end)
            .and_then(u16_read)
            .ok_or(ReadError::OutOfBounds)
    }

    #[verifier::external_body]
    fn check_in_bounds(&self, offset: usize) -> (r: Result<(), ReadError>)
        ensures r.is_ok() == (offset <= self.bytes@.len())
    {
        self.bytes
            .get(..offset)
            .ok_or(ReadError::OutOfBounds)
            .map(|_| ())
    }
}

impl<'a> Cursor<'a> {
    pub fn advance_by(&mut self, n_bytes: usize)
        ensures final(self).data == old(self).data,
            final(self).pos as int == (if old(self).pos + n_bytes > usize::MAX { usize::MAX as int } else { old(self).pos + n_bytes }),
    {
        self.pos = self.pos.saturating_add(n_bytes);
    }

    #[verifier::external_body]
    pub fn position(&self) -> (r: Result<usize, ReadError>)
        ensures r.is_ok() == (self.pos <= self.data.bytes@.len()), r.is_ok() ==> r.unwrap() == self.pos
    {
        self.data.check_in_bounds(self.pos).map(|_| self.pos)
    }

    pub fn finish<T>(self, shape: T) -> (r: Result<TableRef<'a, T>, ReadError>)
        ensures r.is_ok() == (self.pos <= self.data.bytes@.len()),
            r.is_ok() ==> r.unwrap().data == self.data && r.unwrap().shape == shape
    {
        let data = self.data;
        data.check_in_bounds(self.pos)?;
        Ok(TableRef { data, shape })
    }
}

}
fn main() {}
