// appended to write-fonts/src/tables/variations.rs of a scratch copy; read-fonts gets a one-line
// #[cfg(kani)] accessor `PackedDeltas::verif_new` for its crate-private constructor.
#[cfg(kani)]
mod verif_proofs {
    use super::*;
    use crate::write::TableWriter;
    use crate::FontWrite;
    use read_fonts::FontData;

    fn fixed_random_state() -> std::hash::RandomState {
        unsafe { core::mem::transmute::<(u64, u64), std::hash::RandomState>((0u64, 0u64)) }
    }
    static mut SINK: [u8; 32] = [0; 32];
    static mut SINK_LEN: usize = 0;
    fn write_slice_sink(_w: &mut TableWriter, bytes: &[u8]) {
        unsafe {
            let mut i = 0;
            while i < bytes.len() {
                SINK[SINK_LEN + i] = bytes[i];
                i += 1;
            }
            SINK_LEN += bytes.len();
        }
    }

    #[kani::proof]
    #[kani::unwind(6)]
    #[kani::stub(std::hash::RandomState::new, fixed_random_state)]
    #[kani::stub(TableWriter::write_slice, write_slice_sink)]
    fn packed_deltas_roundtrip_2() {
        let a: i32 = kani::any();
        let b: i32 = kani::any();
        let pd = PackedDeltas::new(vec![a, b]);
        let mut w = TableWriter::default();
        pd.write_into(&mut w);
        let (bytes, n) = unsafe { (SINK, SINK_LEN) };
        assert!(n <= 10);
        let r = read_fonts::tables::variations::PackedDeltas::verif_new(FontData::new(&bytes[..n]), 2);
        let mut it = r.iter();
        assert!(it.next() == Some(a));
        assert!(it.next() == Some(b));
    }
}
