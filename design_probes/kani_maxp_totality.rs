#[cfg(kani)]
mod proofs {
    use read_fonts::{FontData, FontRead, tables::maxp::Maxp};

    #[kani::proof]
    #[kani::unwind(2)]
    fn maxp_total() {
        let buf: [u8; 40] = kani::any();
        let len: usize = kani::any();
        kani::assume(len <= 40);
        let data = FontData::new(&buf[..len]);
        if let Ok(t) = Maxp::read(data) {
            let _ = t.version();
            let _ = t.num_glyphs();
            let _ = t.max_points();
            let _ = t.max_contours();
            let _ = t.max_component_depth();
            let _ = t.max_storage();
        }
    }
}
