use vstd::prelude::*;
verus! {

pub open spec fn is_rha_nonneg(n: int, d: int, q: int) -> bool {
    2 * q * d <= 2 * n + d && 2 * n + d < 2 * (q + 1) * d
}
pub open spec fn abs(x: int) -> int { if x < 0 { -x } else { x } }

pub struct Fixed(pub i32);

impl Fixed {
    // body verbatim from rustc-expanded font-types `impl Fixed { pub const fn mul_div }`
    pub const fn mul_div(&self, a: Self, b: Self) -> (r: Self)
        requires
            b.0 != 0 ==> 2 * (abs(self.0 as int) * abs(a.0 as int)) + abs(b.0 as int) < 2 * 0x80000000 * abs(b.0 as int),
        ensures
            b.0 == 0 ==> r.0 == (if (self.0 < 0) != (a.0 < 0) { -0x7FFFFFFFi32 } else { 0x7FFFFFFFi32 }),
            b.0 != 0 ==> is_rha_nonneg(abs(self.0 as int) * abs(a.0 as int), abs(b.0 as int),
                if ((self.0 < 0) != (a.0 < 0)) != (b.0 < 0) { -(r.0 as int) } else { r.0 as int }),
    {
        let mut sign = 1;
        let mut su = self.0 as u64;
        let mut au = a.0 as u64;
        let mut bu = b.0 as u64;
        proof {
            let x = self.0; let y = a.0; let z = b.0;
            assert(x >= 0 ==> x as u64 == x as u32 as u64 && (x as u64) < 0x8000_0000u64) by(bit_vector);
            assert(y >= 0 ==> (y as u64) < 0x8000_0000u64) by(bit_vector);
            assert(z >= 0 ==> (z as u64) < 0x8000_0000u64) by(bit_vector);
            assert(x < 0 ==> 0u64.wrapping_sub(x as u64) == (-(x as i64)) as u64 && 0u64.wrapping_sub(x as u64) <= 0x8000_0000u64) by(bit_vector);
            assert(y < 0 ==> 0u64.wrapping_sub(y as u64) == (-(y as i64)) as u64 && 0u64.wrapping_sub(y as u64) <= 0x8000_0000u64) by(bit_vector);
            assert(z < 0 ==> 0u64.wrapping_sub(z as u64) == (-(z as i64)) as u64 && 0u64.wrapping_sub(z as u64) <= 0x8000_0000u64) by(bit_vector);
        }
        if self.0 < 0 {
            su = 0u64.wrapping_sub(su);
            sign = -1;
        }
        if a.0 < 0 {
            au = 0u64.wrapping_sub(au);
            sign = -sign;
        }
        if b.0 < 0 {
            bu = 0u64.wrapping_sub(bu);
            sign = -sign;
        }
        assert(su as int == abs(self.0 as int));
        assert(au as int == abs(a.0 as int));
        assert(bu as int == abs(b.0 as int));
        let result = if bu > 0 {
            proof {
                let n = su as int * au as int;
                let bi = bu as int;
                assert(0 <= n <= 0x4000_0000_0000_0000) by(nonlinear_arith)
                    requires n == su as int * au as int, 0 <= su as int <= 0x8000_0000, 0 <= au as int <= 0x8000_0000;
                assert(bu >> 1 == bu / 2) by(bit_vector);
                let x = n + bi / 2;
                let qi = x / bi;
                assert(x == bi * qi + x % bi && 0 <= x % bi < bi) by(nonlinear_arith) requires bi > 0, qi == x / bi;
                assert(2 * qi * bi <= 2 * n + bi && 2 * n + bi < 2 * (qi + 1) * bi) by(nonlinear_arith)
                    requires x == bi * qi + x % bi, 0 <= x % bi < bi, x == n + bi / 2, bi > 0;
                assert(qi < 0x80000000) by(nonlinear_arith)
                    requires 2 * qi * bi <= 2 * n + bi, 2 * n + bi < 2 * 0x80000000 * bi, bi > 0;
                assert(qi >= 0) by(nonlinear_arith) requires 2 * n + bi < 2 * (qi + 1) * bi, n >= 0, bi > 0;
            }
            su.wrapping_mul(au).wrapping_add(bu >> 1) / bu
        } else {
            0x7FFFFFFF
        };
        Self(if sign < 0 {
            -(result as i32)
        } else {
            result as i32
        })
    }
}

}
fn main() {}
