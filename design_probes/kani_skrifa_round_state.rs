// appended to skrifa/src/outline/glyf/hint/round.rs of a scratch copy; FAILS on the pinned tree (28 overflow/division checks)
#[cfg(kani)]
mod verif_proofs {
    use super::*;

    fn any_mode() -> RoundMode {
        match kani::any::<u8>() % 8 {
            0 => RoundMode::Grid, 1 => RoundMode::HalfGrid, 2 => RoundMode::DoubleGrid,
            3 => RoundMode::DownToGrid, 4 => RoundMode::UpToGrid, 5 => RoundMode::Off,
            6 => RoundMode::Super, _ => RoundMode::Super45,
        }
    }

    #[kani::proof]
    fn round_never_panics() {
        let st = RoundState { mode: any_mode(), threshold: kani::any(), phase: kani::any(), period: kani::any() };
        let d: i32 = kani::any();
        let _ = st.round(F26Dot6::from_bits(d));
    }
}
