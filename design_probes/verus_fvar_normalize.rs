use vstd::prelude::*;
use vstd::std_specs::cmp::*;
use core::cmp::Ordering;
verus! {

pub open spec fn is_rha_nonneg(n: int, d: int, q: int) -> bool {
    2 * q * d <= 2 * n + d && 2 * n + d < 2 * (q + 1) * d
}

pub assume_specification[ i32::saturating_sub ](a: i32, b: i32) -> (r: i32)
    ensures r as int == (if a - b > 0x7FFF_FFFF { 0x7FFF_FFFFint } else if a - b < -0x8000_0000 { -0x8000_0000int } else { a - b });

#[derive(Copy, Clone)]
pub struct Fixed(pub i32);

impl PartialEq for Fixed { fn eq(&self, other: &Fixed) -> bool { self.0 == other.0 } }
impl Eq for Fixed {}
impl PartialOrd for Fixed {
    fn partial_cmp(&self, other: &Fixed) -> Option<Ordering> { PartialOrd::partial_cmp(&self.0, &other.0) }
}
impl Ord for Fixed {
    fn cmp(&self, other: &Fixed) -> Ordering { Ord::cmp(&self.0, &other.0) }
}
impl PartialEqSpecImpl for Fixed {
    open spec fn obeys_eq_spec() -> bool { true }
    open spec fn eq_spec(&self, other: &Fixed) -> bool { self.0 == other.0 }
}
impl PartialOrdSpecImpl for Fixed {
    open spec fn obeys_partial_cmp_spec() -> bool { true }
    open spec fn partial_cmp_spec(&self, other: &Fixed) -> Option<Ordering> { if self.0 < other.0 { Some(Ordering::Less) } else if self.0 == other.0 { Some(Ordering::Equal) } else { Some(Ordering::Greater) } }
}
impl OrdSpecImpl for Fixed {
    open spec fn obeys_cmp_spec() -> bool { true }
    open spec fn cmp_spec(&self, other: &Fixed) -> Ordering { if self.0 < other.0 { Ordering::Less } else if self.0 == other.0 { Ordering::Equal } else { Ordering::Greater } }
}

impl Fixed {
    pub const ZERO: Self = Self(0);
    pub const ONE: Self = Self(1 << 16);

    pub const fn saturating_sub(self, other: Self) -> (r: Self)
        ensures r.0 as int == (if self.0 - other.0 > 0x7FFF_FFFF { 0x7FFF_FFFFint } else if self.0 - other.0 < -0x8000_0000 { -0x8000_0000int } else { self.0 - other.0 })
    {
        Self(self.0.saturating_sub(other.0))
    }

    fn neg(self) -> (r: Self)
        requires self.0 != i32::MIN
        ensures r.0 == -self.0
    {
        Self(-self.0)
    }

    // body verbatim from font-types/src/fixed.rs `impl Div for Fixed`
    fn div(self, other: Self) -> (r: Self)
        requires
            self.0 != i32::MIN, other.0 != i32::MIN,
            other.0 != 0 ==> ({
                let a = if self.0 < 0 { -(self.0 as int) } else { self.0 as int };
                let b = if other.0 < 0 { -(other.0 as int) } else { other.0 as int };
                2 * (a * 65536) + b < 2 * 0x80000000 * b
            }),
        ensures
            other.0 == 0 ==> r.0 == (if self.0 < 0 { -0x7FFFFFFFi32 } else { 0x7FFFFFFFi32 }),
            other.0 != 0 ==> ({
                let a = if self.0 < 0 { -(self.0 as int) } else { self.0 as int };
                let b = if other.0 < 0 { -(other.0 as int) } else { other.0 as int };
                let neg = (self.0 < 0) != (other.0 < 0);
                (2 * (a * 65536) + b < 2 * 0x80000000 * b) ==> is_rha_nonneg(a * 65536, b, if neg { -(r.0 as int) } else { r.0 as int })
            }),
            // corollaries used by callers (ratios of magnitudes)
            other.0 != 0 ==> ({
                let a = if self.0 < 0 { -(self.0 as int) } else { self.0 as int };
                let b = if other.0 < 0 { -(other.0 as int) } else { other.0 as int };
                let neg = (self.0 < 0) != (other.0 < 0);
                &&& (a <= b ==> -65536 <= r.0 <= 65536)
                &&& (a == b ==> r.0 == (if neg { -65536i32 } else { 65536i32 }))
                &&& (a == 0 ==> r.0 == 0)
                &&& (!neg ==> r.0 >= 0) &&& (neg ==> r.0 <= 0)
            }),
    {
        let mut sign = 1;
        let mut a = self.0;
        let mut b = other.0;
        if a < 0 {
            a = -a;
            sign = -1;
        }
        if b < 0 {
            b = -b;
            sign = -sign;
        }
        let q = if b == 0 {
            0x7FFFFFFF
        } else {
            proof {
                assert((a as u64) << 16 == (a as u64) * 65536) by(bit_vector) requires 0 <= a <= 0x7FFFFFFF;
                assert((b as u64) >> 1 == (b as u64) / 2) by(bit_vector);
                let n = a as int * 65536;
                let bi = b as int;
                let x = n + bi / 2;
                let qi = x / bi;
                assert(x == bi * qi + x % bi && 0 <= x % bi < bi) by(nonlinear_arith) requires bi > 0, qi == x / bi;
                assert(2 * qi * bi <= 2 * n + bi && 2 * n + bi < 2 * (qi + 1) * bi) by(nonlinear_arith)
                    requires x == bi * qi + x % bi, 0 <= x % bi < bi, x == n + bi / 2, bi > 0;
                assert(qi < 0x80000000) by(nonlinear_arith)
                    requires 2 * qi * bi <= 2 * n + bi, 2 * n + bi < 2 * 0x80000000 * bi, bi > 0;
                assert(qi >= 0) by(nonlinear_arith) requires 2 * n + bi < 2 * (qi + 1) * bi, n >= 0, bi > 0;
                assert(a as int <= bi ==> qi <= 65536) by(nonlinear_arith)
                    requires 2 * qi * bi <= 2 * n + bi, n == a as int * 65536, bi > 0;
                assert(a as int == bi ==> qi == 65536) by(nonlinear_arith)
                    requires 2 * qi * bi <= 2 * n + bi, 2 * n + bi < 2 * (qi + 1) * bi, n == a as int * 65536, bi > 0;
                assert(a as int == 0 ==> qi == 0) by(nonlinear_arith)
                    requires 2 * qi * bi <= 2 * n + bi, n == a as int * 65536, bi > 0, qi >= 0;
            }
            ((((a as u64) << 16) + ((b as u64) >> 1)) / (b as u64)) as u32
        };
        Self(if sign < 0 { -(q as i32) } else { q as i32 })
    }
}

pub struct VariationAxisRecord { pub min: Fixed, pub def: Fixed, pub max: Fixed }

impl VariationAxisRecord {
    fn min_value(&self) -> (r: Fixed) ensures r == self.min { self.min }
    fn default_value(&self) -> (r: Fixed) ensures r == self.def { self.def }
    fn max_value(&self) -> (r: Fixed) ensures r == self.max { self.max }

    /// body verbatim from read-fonts/src/tables/fvar.rs (operators spelled as the re-homed methods)
    pub fn normalize(&self, mut value: Fixed) -> (r: Fixed)
        ensures
            -65536 <= r.0 <= 65536,
            (self.min.0 <= self.def.0 <= self.max.0 && value.0 == self.def.0) ==> r.0 == 0,
            (self.min.0 < self.def.0 <= self.max.0 && value.0 <= self.min.0) ==> r.0 == -65536,
            (self.min.0 <= self.def.0 < self.max.0 && value.0 >= self.max.0) ==> r.0 == 65536,
    {
        use core::cmp::Ordering::*;
        proof { assert(1i32 << 16 == 65536i32) by(bit_vector); }
        let min_value = self.min_value();
        let default_value = self.default_value();
        // Make sure max is >= min to avoid potential panic in clamp.
        let max_value = self.max_value().max(min_value);
        value = value.clamp(min_value, max_value);
        value = match value.cmp(&default_value) {
            Less => {
                proof {
                    let a = default_value.0 as int - value.0 as int;
                    let b = default_value.0 as int - min_value.0 as int;
                    let a1: int = if a > 0x7FFF_FFFF { 0x7FFF_FFFF } else { a };
                    let b1: int = if b > 0x7FFF_FFFF { 0x7FFF_FFFF } else { b };
                    assert(0 < a1 <= b1);
                    assert(2 * (a1 * 65536) + b1 < 2 * 0x80000000 * b1) by(nonlinear_arith) requires 0 < a1 <= b1;
                }
                ((default_value.saturating_sub(value)).div(default_value.saturating_sub(min_value))).neg()
            }
            Greater => {
                proof {
                    let a = value.0 as int - default_value.0 as int;
                    let b = max_value.0 as int - default_value.0 as int;
                    let a1: int = if a > 0x7FFF_FFFF { 0x7FFF_FFFF } else { a };
                    let b1: int = if b > 0x7FFF_FFFF { 0x7FFF_FFFF } else { b };
                    assert(0 < a1 <= b1);
                    assert(2 * (a1 * 65536) + b1 < 2 * 0x80000000 * b1) by(nonlinear_arith) requires 0 < a1 <= b1;
                }
                (value.saturating_sub(default_value)).div(max_value.saturating_sub(default_value))
            }
            Equal => Fixed::ZERO,
        };
        value.clamp(Fixed::ONE.neg(), Fixed::ONE)
    }
}

}
fn main() {}
