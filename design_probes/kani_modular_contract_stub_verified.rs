// woven attribute on the real fn:
//   #[cfg_attr(kani, kani::ensures(|r: &Result<(), ReadError>| r.is_ok() == (offset <= self.bytes.len())))]
//   fn check_in_bounds(&self, offset: usize) -> Result<(), ReadError>
#[cfg(kani)]
mod verif_proofs {
    use super::*;

    impl kani::Arbitrary for ReadError {
        fn any() -> Self {
            match kani::any::<u8>() % 4 {
                0 => ReadError::OutOfBounds,
                1 => ReadError::InvalidArrayLen,
                2 => ReadError::ValidationError,
                _ => ReadError::NullOffset,
            }
        }
    }

    #[kani::proof_for_contract(FontData::check_in_bounds)]
    fn check_in_bounds_contract() {
        let buf: [u8; 16] = kani::any();
        let len: usize = kani::any();
        kani::assume(len <= 16);
        let d = FontData::new(&buf[..len]);
        let off: usize = kani::any();
        let _ = d.check_in_bounds(off);
    }

    // caller verified against the callee's CONTRACT only
    #[kani::proof]
    #[kani::stub_verified(FontData::check_in_bounds)]
    fn cursor_position_uses_contract() {
        let buf: [u8; 16] = kani::any();
        let len: usize = kani::any();
        kani::assume(len <= 16);
        let d = FontData::new(&buf[..len]);
        let mut c = d.cursor();
        let n: usize = kani::any();
        c.advance_by(n);
        let p = c.position();
        assert!(p.is_ok() == (n <= len));
        if let Ok(p) = p { assert!(p == n); }
    }
}
