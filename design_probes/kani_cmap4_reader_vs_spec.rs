// src/lib.rs of a scratch crate with path dependencies on /repo/read-fonts and /repo/font-types.
// SUCCESS in 70 s: Cmap4::map_codepoint == spec4 for any <= 36 bytes, <= 2 segments, any code point.
#[cfg(kani)]
mod proofs {
    use read_fonts::{FontData, FontRead, tables::cmap::Cmap4};

    // OpenType format 4 lookup, from the spec text, over the parsed arrays
    fn spec4(t: &Cmap4, cp: u16) -> Option<u16> {
        let n = (t.seg_count_x2() / 2) as usize;
        let end = t.end_code(); let start = t.start_code();
        let delta = t.id_delta(); let ro = t.id_range_offsets(); let gia = t.glyph_id_array();
        let mut i = 0;
        while i < n {
            if i >= end.len() || i >= start.len() || i >= delta.len() || i >= ro.len() { return None; }
            if end[i].get() >= cp {
                if start[i].get() > cp { return None; }
                let r = ro[i].get();
                if r == 0 { return Some((cp as i32 + delta[i].get() as i32) as u16); }
                let idx = (r as usize / 2 + (cp - start[i].get()) as usize).checked_sub(ro.len() - i);
                let idx = match idx { Some(x) => x, None => 0 };
                if idx >= gia.len() { return None; }
                let g = gia[idx].get();
                if g == 0 { return None; }
                return Some((g as i32 + delta[i].get() as i32) as u16);
            }
            i += 1;
        }
        None
    }

    #[kani::proof]
    #[kani::unwind(4)]
    fn cmap4_reader_matches_spec() {
        let buf: [u8; 36] = kani::any();
        let len: usize = kani::any();
        kani::assume(len <= 36);
        let Ok(t) = Cmap4::read(FontData::new(&buf[..len])) else { return; };
        kani::assume(t.seg_count_x2() <= 4);
        // segments sorted by end code (what the binary search relies on)
        let end = t.end_code();
        kani::assume(end.len() < 2 || end[0].get() < end[1].get());
        let st = t.start_code();
        kani::assume(st.len() < 2 || end.len() < 2 || st[1].get() > end[0].get());
        let cp: u16 = kani::any();
        let got = t.map_codepoint(cp).map(|g| g.to_u32() as u16);
        assert!(got == spec4(&t, cp));
        kani::cover!(got.is_some());
    }
}
