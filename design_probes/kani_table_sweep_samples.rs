#[cfg(kani)]
mod proofs {
    use read_fonts::{FontData, FontRead, tables::os2::Os2, tables::cmap::Cmap, tables::name::Name};

    #[kani::proof]
    #[kani::unwind(3)]
    fn os2_total() {
        let buf: [u8; 104] = kani::any();
        let len: usize = kani::any();
        kani::assume(len <= 104);
        if let Ok(t) = Os2::read(FontData::new(&buf[..len])) {
            let _ = t.version(); let _ = t.x_avg_char_width(); let _ = t.us_weight_class();
            let _ = t.panose_10(); let _ = t.ul_unicode_range_1(); let _ = t.ach_vend_id();
            let _ = t.s_typo_ascender(); let _ = t.us_win_descent();
            let _ = t.ul_code_page_range_1(); let _ = t.ul_code_page_range_2();
            let _ = t.sx_height(); let _ = t.s_cap_height(); let _ = t.us_default_char();
            let _ = t.us_break_char(); let _ = t.us_max_context();
            let _ = t.us_lower_optical_point_size(); let _ = t.us_upper_optical_point_size();
        }
    }

    #[kani::proof]
    #[kani::unwind(4)]
    fn cmap_header_total() {
        let buf: [u8; 48] = kani::any();
        let len: usize = kani::any();
        kani::assume(len <= 48);
        if let Ok(t) = Cmap::read(FontData::new(&buf[..len])) {
            let _ = t.version(); let _ = t.num_tables();
            let recs = t.encoding_records();
            if let Some(r) = recs.first() {
                let _ = r.platform_id(); let _ = r.encoding_id();
                let _ = r.subtable(t.offset_data()).map(|s| s.language());
            }
        }
    }

    #[kani::proof]
    #[kani::unwind(4)]
    fn name_total() {
        let buf: [u8; 48] = kani::any();
        let len: usize = kani::any();
        kani::assume(len <= 48);
        if let Ok(t) = Name::read(FontData::new(&buf[..len])) {
            let _ = t.version(); let _ = t.count(); let _ = t.storage_offset();
            let recs = t.name_record();
            if let Some(r) = recs.first() {
                let _ = r.name_id(); let _ = r.length(); let _ = r.string_offset();
                let _ = r.string(t.string_data()).map(|s| s.chars().next());
            }
            let _ = t.lang_tag_count(); let _ = t.lang_tag_record();
        }
    }
}
