#[cfg(kani)]
mod proofs {
    use font_types::{Fixed, F2Dot14, F26Dot6};

    #[kani::proof]
    fn f2dot14_f32_roundtrip() {
        let x: i16 = kani::any();
        let v = F2Dot14::from_bits(x);
        assert!(F2Dot14::from_f32(v.to_f32()) == v);
    }

    #[kani::proof]
    fn fixed_f64_roundtrip() {
        let x: i32 = kani::any();
        let v = Fixed::from_bits(x);
        assert!(Fixed::from_f64(v.to_f64()) == v);
    }

    #[kani::proof]
    fn f26dot6_f64_roundtrip() {
        let x: i32 = kani::any();
        let v = F26Dot6::from_bits(x);
        assert!(F26Dot6::from_f64(v.to_f64()) == v);
    }

    #[kani::proof]
    fn fixed_to_f2dot14_spec() {
        let x: i32 = kani::any();
        let r = Fixed::from_bits(x).to_f2dot14();
        // spec: add 2, arithmetic shift right 2, truncate to 16 bits
        let exact = ((x as i64 + 2).div_euclid(4)) as i16;
        kani::assume((x as i64 + 2).div_euclid(4) >= i16::MIN as i64 && (x as i64 + 2).div_euclid(4) <= i16::MAX as i64);
        assert!(r.to_bits() == exact);
    }
}
