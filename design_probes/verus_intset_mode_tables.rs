use vstd::prelude::*;
verus! {

#[verifier::external_body]
pub struct BitSet { _p: u8 }

impl BitSet {
    pub uninterp spec fn view(&self) -> ISet<u32>;

    #[verifier::external_body]
    pub fn insert(&mut self, val: u32) -> (r: bool)
        ensures final(self).view() == old(self).view().insert(val), r == !old(self).view().contains(val)
    { unimplemented!() }

    #[verifier::external_body]
    pub fn remove(&mut self, val: u32) -> (r: bool)
        ensures final(self).view() == old(self).view().remove(val), r == old(self).view().contains(val)
    { unimplemented!() }

    #[verifier::external_body]
    pub fn union(&mut self, other: &BitSet)
        ensures final(self).view() == old(self).view().union(other.view())
    { unimplemented!() }
    #[verifier::external_body]
    pub fn intersect(&mut self, other: &BitSet)
        ensures final(self).view() == old(self).view().intersect(other.view())
    { unimplemented!() }
    #[verifier::external_body]
    pub fn subtract(&mut self, other: &BitSet)
        ensures final(self).view() == old(self).view().difference(other.view())
    { unimplemented!() }
    #[verifier::external_body]
    pub fn reversed_subtract(&mut self, other: &BitSet)
        ensures final(self).view() == other.view().difference(old(self).view())
    { unimplemented!() }
    #[verifier::external_body]
    pub const fn empty() -> (r: BitSet)
        ensures r.view() == ISet::<u32>::empty()
    { unimplemented!() }
}

pub enum Membership {
    Inclusive(BitSet),
    Exclusive(BitSet),
}

pub struct IntSet(pub Membership);

impl IntSet {
    pub open spec fn view(&self) -> ISet<u32> {
        match self.0 {
            Membership::Inclusive(s) => s.view(),
            Membership::Exclusive(s) => s.view().complement(),
        }
    }

    pub fn insert(&mut self, val: u32) -> (r: bool)
        ensures final(self).view() == old(self).view().insert(val), r == !old(self).view().contains(val)
    {
        match &mut self.0 {
            Membership::Inclusive(s) => s.insert(val),
            Membership::Exclusive(s) => s.remove(val),
        }
    }

    #[verifier::external_body]
    pub fn invert(&mut self)
        ensures final(self).view() == old(self).view().complement()
    {
        let reuse_storage = match &mut self.0 {
            Membership::Inclusive(s) | Membership::Exclusive(s) => {
                std::mem::replace(s, BitSet::empty())
            }
        };
        self.0 = match &mut self.0 {
            Membership::Inclusive(_) => Membership::Exclusive(reuse_storage),
            Membership::Exclusive(_) => Membership::Inclusive(reuse_storage),
        };
    }

    pub fn union(&mut self, other: &IntSet)
        ensures final(self).view() == old(self).view().union(other.view())
    {
        match (&mut self.0, &other.0) {
            (Membership::Inclusive(a), Membership::Inclusive(b)) => a.union(b),
            (Membership::Inclusive(a), Membership::Exclusive(b)) => {
                a.reversed_subtract(b);
                self.invert();
            }
            (Membership::Exclusive(a), Membership::Inclusive(b)) => a.subtract(b),
            (Membership::Exclusive(a), Membership::Exclusive(b)) => a.intersect(b),
        }
    }
}

}
fn main() {}
