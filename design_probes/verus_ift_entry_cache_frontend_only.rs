use vstd::prelude::*;
verus! {

#[verifier::external_body] pub struct SubsetDefinition { _p: u8 }
#[verifier::external_body] pub struct Cache { _p: u8 }

pub struct Entry {
    pub child_indices: Vec<usize>,
    pub conjunctive_child_match: bool,
    pub own: bool, // stands for the opaque Entry::intersects(subset_definition) result source
}

impl Entry {
    pub uninterp spec fn own_intersects(&self, d: &SubsetDefinition) -> bool;
    #[verifier::external_body]
    fn intersects(&self, subset_definition: &SubsetDefinition) -> (r: bool)
        ensures r == self.own_intersects(subset_definition)
    { unimplemented!() }
}

// well-formedness established by decode_format2_entry: children refer only to prior entries
pub open spec fn entries_wf(entries: Seq<Entry>) -> bool {
    forall|i: int, k: int| 0 <= i < entries.len() && 0 <= k < entries[i].child_indices@.len()
        ==> (#[trigger] entries[i].child_indices@[k]) < i
}

// the IFT spec's "check entry intersection", as a recursive spec function
pub open spec fn spec_intersects(entries: Seq<Entry>, idx: int, d: &SubsetDefinition) -> bool
    decreases idx, 1int
{
    if idx < 0 || idx >= entries.len() { false } else {
        let e = entries[idx];
        if !e.own_intersects(d) { false }
        else if e.child_indices@.len() == 0 { true }
        else if e.conjunctive_child_match { spec_all(entries, idx, e.child_indices@.len() as int, d) }
        else { spec_some(entries, idx, e.child_indices@.len() as int, d) }
    }
}
pub open spec fn spec_all(entries: Seq<Entry>, idx: int, n: int, d: &SubsetDefinition) -> bool
    decreases idx, 0int, n
{
    if n <= 0 || idx < 0 || idx >= entries.len() || n > entries[idx].child_indices@.len() { true } else {
        let c = entries[idx].child_indices@[n - 1] as int;
        spec_all(entries, idx, n - 1, d) && (c < idx && spec_intersects(entries, c, d))
    }
}
pub open spec fn spec_some(entries: Seq<Entry>, idx: int, n: int, d: &SubsetDefinition) -> bool
    decreases idx, 0int, n
{
    if n <= 0 || idx < 0 || idx >= entries.len() || n > entries[idx].child_indices@.len() { false } else {
        let c = entries[idx].child_indices@[n - 1] as int;
        spec_some(entries, idx, n - 1, d) || (c < idx && spec_intersects(entries, c, d))
    }
}

pub struct EntryIntersectionCache<'a> {
    pub entries: &'a [Entry],
    pub cache: Cache,
}

impl Cache {
    // ghost: the cache only ever holds correct answers
    pub uninterp spec fn view(&self) -> Map<usize, bool>;
    #[verifier::external_body]
    fn get(&self, k: &usize) -> (r: Option<&bool>)
        ensures match r { Some(b) => self@.dom().contains(*k) && self@[*k] == *b, None => !self@.dom().contains(*k) }
    { unimplemented!() }
    #[verifier::external_body]
    fn insert(&mut self, k: usize, v: bool)
        ensures final(self)@ == old(self)@.insert(k, v)
    { unimplemented!() }
}

impl EntryIntersectionCache<'_> {
    pub open spec fn inv(&self, d: &SubsetDefinition) -> bool {
        entries_wf(self.entries@) &&
        forall|k: usize| #[trigger] self.cache@.dom().contains(k) ==> self.cache@[k] == spec_intersects(self.entries@, k as int, d)
    }

    fn intersects(&mut self, index: usize, subset_definition: &SubsetDefinition) -> (r: bool)
        requires old(self).inv(subset_definition)
        ensures final(self).inv(subset_definition), final(self).entries == old(self).entries,
            r == spec_intersects(old(self).entries@, index as int, subset_definition)
        decreases index, 2int
    {
        if let Some(result) = self.cache.get(&index) {
            return *result;
        }

        let Some(entry) = self.entries.get(index) else {
            return false;
        };

        let result = self.compute_intersection(entry, subset_definition);
        self.cache.insert(index, result);
        result
    }

    fn compute_intersection(
        &mut self,
        entry: &Entry,
        subset_definition: &SubsetDefinition,
    ) -> (r: bool)
    {
        // See: https://w3c.github.io/IFT/Overview.html#abstract-opdef-check-entry-intersection
        if !entry.intersects(subset_definition) {
            return false;
        }

        if entry.child_indices.is_empty() {
            return true;
        }

        if entry.conjunctive_child_match {
            self.all_children_intersect(entry, subset_definition)
        } else {
            self.some_children_intersect(entry, subset_definition)
        }
    }

    fn all_children_intersect(
        &mut self,
        entry: &Entry,
        subset_definition: &SubsetDefinition,
    ) -> bool {
        for child_index in entry.child_indices.iter() {
            if !self.intersects(*child_index, subset_definition) {
                return false;
            }
        }
        true
    }

    fn some_children_intersect(
        &mut self,
        entry: &Entry,
        subset_definition: &SubsetDefinition,
    ) -> bool {
        for child_index in entry.child_indices.iter() {
            if self.intersects(*child_index, subset_definition) {
                return true;
            }
        }
        false
    }
}
}
fn main() {}
