use vstd::prelude::*;
use std::collections::BTreeMap;
use core::cmp::{max, min};
use core::ops::RangeInclusive;
use vstd::std_specs::cmp::OrdSpec;
verus! {

pub assume_specification<Idx>[ RangeInclusive::<Idx>::start ](r: &RangeInclusive<Idx>) -> (s: &Idx)
    ensures *s == r@.start;
pub assume_specification<Idx>[ RangeInclusive::<Idx>::end ](r: &RangeInclusive<Idx>) -> (s: &Idx)
    ensures *s == r@.end;

pub assume_specification<T>[ core::cmp::min ](a: T, b: T) -> (r: T)
    where T: core::cmp::Ord + core::marker::Destruct
    ensures T::obeys_cmp_spec() ==> r == (if b.cmp_spec(&a) == core::cmp::Ordering::Less { b } else { a });
pub assume_specification<T>[ core::cmp::max ](a: T, b: T) -> (r: T)
    where T: core::cmp::Ord + core::marker::Destruct
    ensures T::obeys_cmp_spec() ==> r == (if b.cmp_spec(&a) == core::cmp::Ordering::Less { a } else { b });

pub struct RangeSet {
    ranges: BTreeMap<u32, u32>,
}

// abstract membership of the range map
pub open spec fn covers(m: Map<u32, u32>, x: u32) -> bool {
    exists|s: u32| #[trigger] m.dom().contains(s) && s <= x <= m[s]
}

// representation invariant: each range well-formed, ranges pairwise disjoint and non-adjacent
pub open spec fn wf(m: Map<u32, u32>) -> bool {
    &&& forall|s: u32| #[trigger] m.dom().contains(s) ==> s <= m[s]
    &&& forall|s: u32, t: u32| #[trigger] m.dom().contains(s) && #[trigger] m.dom().contains(t) && s < t ==> (m[s] as int) + 1 < t as int
}

fn ranges_overlap_or_adjacent(a_start: u32, a_end: u32, b_start: u32, b_end: u32) -> (r: bool)
    ensures r == ((a_start <= b_end && b_start <= a_end) || (a_end as int + 1 == b_start as int) || (b_end as int + 1 == a_start as int) || (b_start as int + 1 == a_end as int) || (a_start as int + 1 == b_end as int))
{
    (a_start <= b_end && b_start <= a_end)
        || (are_adjacent(a_end, b_start))
        || (are_adjacent(b_end, a_start))
}

#[verifier::external_body]
fn are_adjacent(a: u32, rhs: u32) -> (r: bool)
    ensures r == (a as int + 1 == rhs as int || rhs as int + 1 == a as int)
{ unimplemented!() }

fn range_is_subset(a_start: u32, a_end: u32, b_start: u32, b_end: u32) -> (r: bool)
    ensures r == (a_start >= b_start && a_end <= b_end)
{
    a_start >= b_start && a_end <= b_end
}

impl RangeSet {
    #[verifier::external_body]
    fn next_range(&self, start: u32) -> (r: Option<(u32, u32)>)
        ensures
            match r {
                Some((s, e)) => self.ranges@.dom().contains(s) && self.ranges@[s] == e && s >= start
                    && forall|t: u32| #[trigger] self.ranges@.dom().contains(t) && t >= start ==> t >= s,
                None => forall|t: u32| #[trigger] self.ranges@.dom().contains(t) ==> t < start,
            }
    { unimplemented!() }

    #[verifier::external_body]
    fn prev_range(&self, start: u32) -> (r: Option<(u32, u32)>)
        ensures
            match r {
                Some((s, e)) => self.ranges@.dom().contains(s) && self.ranges@[s] == e && s < start
                    && forall|t: u32| #[trigger] self.ranges@.dom().contains(t) && t < start ==> t <= s,
                None => forall|t: u32| #[trigger] self.ranges@.dom().contains(t) ==> t >= start,
            }
    { unimplemented!() }

    fn insert(&mut self, range: RangeInclusive<u32>)
        requires wf(old(self).ranges@), old(self).ranges@.dom().finite()
        ensures
            wf(final(self).ranges@),
            forall|x: u32| #![trigger covers(final(self).ranges@, x)] #![trigger covers(old(self).ranges@, x)] covers(final(self).ranges@, x) == (covers(old(self).ranges@, x) || (range@.start <= x <= range@.end)),
    {
        if range.end() < range.start() {
            // ignore or malformed ranges.
            return;
        }

        let mut start = *range.start();
        let mut end = *range.end();
        let ghost m0 = self.ranges@;

        // There may be up to one intersecting range prior to this new range, check for it and merge if needed.
        if let Some((prev_start, prev_end)) = self.prev_range(start) {
            if range_is_subset(start, end, prev_start, prev_end) {
                proof {
                    assert forall|x: u32| covers(m0, x) == (covers(m0, x) || (range@.start <= x <= range@.end)) by {
                        if range@.start <= x <= range@.end { assert(m0.dom().contains(prev_start) && prev_start <= x <= m0[prev_start]); }
                    }
                }
                return;
            }
            if ranges_overlap_or_adjacent(start, end, prev_start, prev_end) {
                start = min(start, prev_start);
                end = max(end, prev_end);
                self.ranges.remove(&prev_start);
                proof {
                    let m1 = self.ranges@;
                    assert forall|x: u32| #![trigger covers(m0, x)] #![trigger covers(m1, x)] (covers(m0, x) || (range@.start <= x <= range@.end)) == (covers(m1, x) || (start <= x <= end)) by {
                        if covers(m0, x) {
                            let s = choose|s: u32| #[trigger] m0.dom().contains(s) && s <= x <= m0[s];
                            if s != prev_start { assert(m1.dom().contains(s) && s <= x <= m1[s]); }
                        }
                        if covers(m1, x) {
                            let s = choose|s: u32| #[trigger] m1.dom().contains(s) && s <= x <= m1[s];
                            assert(m0.dom().contains(s) && s <= x <= m0[s]);
                        }
                        if start <= x <= end && !(range@.start <= x <= range@.end) {
                            assert(m0.dom().contains(prev_start) && prev_start <= x <= m0[prev_start]);
                        }
                    }
                }
            }
        };

        // There may be one or more ranges proceeding this new range that intersect, find and merge them as needed.
        loop
            invariant
                wf(self.ranges@), start <= end, m0 == old(self).ranges@,
                forall|x: u32| #![trigger covers(m0, x)] #![trigger covers(self.ranges@, x)] (covers(m0, x) || (range@.start <= x <= range@.end)) == (covers(self.ranges@, x) || (start <= x <= end)),
                forall|s: u32| #[trigger] self.ranges@.dom().contains(s) && s < start ==> (self.ranges@[s] as int) + 1 < start as int,
                self.ranges@.dom().finite(),
            decreases self.ranges@.dom().len()
        {
            let ghost m1 = self.ranges@;
            let Some((next_start, next_end)) = self.next_range(start) else {
                // No existing ranges which might overlap, can now insert the current range
                self.ranges.insert(start, end);
                proof {
                    let m2 = self.ranges@;
                    assert forall|x: u32| #![trigger covers(m1, x)] #![trigger covers(m2, x)] (covers(m1, x) || (start <= x <= end)) == covers(m2, x) by {
                        if covers(m1, x) {
                            let s = choose|s: u32| #[trigger] m1.dom().contains(s) && s <= x <= m1[s];
                            assert(s != start);
                            assert(m2.dom().contains(s) && s <= x <= m2[s]);
                        }
                        if start <= x <= end { assert(m2.dom().contains(start) && start <= x <= m2[start]); }
                        if covers(m2, x) {
                            let s = choose|s: u32| #[trigger] m2.dom().contains(s) && s <= x <= m2[s];
                            if s != start { assert(m1.dom().contains(s) && s <= x <= m1[s]); }
                        }
                    }
                }
                return;
            };

            if range_is_subset(start, end, next_start, next_end) {
                proof {
                    assert forall|x: u32| covers(m1, x) == (covers(m1, x) || (start <= x <= end)) by {
                        if start <= x <= end { assert(m1.dom().contains(next_start) && next_start <= x <= m1[next_start]); }
                    }
                }
                return;
            }
            if ranges_overlap_or_adjacent(start, end, next_start, next_end) {
                let ghost (s0, e0) = (start, end);
                start = min(start, next_start);
                end = max(end, next_end);
                self.ranges.remove(&next_start);
                proof {
                    let m2 = self.ranges@;
                    assert(start == s0);
                    assert forall|x: u32| #![trigger covers(m1, x)] #![trigger covers(m2, x)] (covers(m1, x) || (s0 <= x <= e0)) == (covers(m2, x) || (start <= x <= end)) by {
                        if covers(m1, x) {
                            let s = choose|s: u32| #[trigger] m1.dom().contains(s) && s <= x <= m1[s];
                            if s != next_start { assert(m2.dom().contains(s) && s <= x <= m2[s]); }
                        }
                        if covers(m2, x) {
                            let s = choose|s: u32| #[trigger] m2.dom().contains(s) && s <= x <= m2[s];
                            assert(m1.dom().contains(s) && s <= x <= m1[s]);
                        }
                        if start <= x <= end && !(s0 <= x <= e0) {
                            assert(m1.dom().contains(next_start) && next_start <= x <= m1[next_start]);
                        }
                    }
                    assert(m2.dom().len() < m1.dom().len());
                }
            } else {
                self.ranges.insert(start, end);
                proof {
                    let m2 = self.ranges@;
                    assert forall|x: u32| #![trigger covers(m1, x)] #![trigger covers(m2, x)] (covers(m1, x) || (start <= x <= end)) == covers(m2, x) by {
                        if covers(m1, x) {
                            let s = choose|s: u32| #[trigger] m1.dom().contains(s) && s <= x <= m1[s];
                            assert(s != start);
                            assert(m2.dom().contains(s) && s <= x <= m2[s]);
                        }
                        if start <= x <= end { assert(m2.dom().contains(start) && start <= x <= m2[start]); }
                        if covers(m2, x) {
                            let s = choose|s: u32| #[trigger] m2.dom().contains(s) && s <= x <= m2[s];
                            if s != start { assert(m1.dom().contains(s) && s <= x <= m1[s]); }
                        }
                    }
                }
                return;
            }
        }
    }
}
}
fn main() {}
