//@weave-into incremental-font-transfer/src/patchmap.rs
//@include zz_export.proofs.rs
// C19 / C02 / C20 on the real IFT client code (format-2 entry decoding): the entry index arithmetic never overflows and is
// exactly last + 1 + delta (error iff the result leaves 0..=u32::MAX); decoding one entry from ARBITRARY bytes is total and
// establishes the well-formedness the intersection recursion (Verus unit U19.1) assumes: child indices refer to prior entries.
#[cfg(kani)]
mod verif_ift_patchmap {
    use super::*;
    #[allow(unused_imports)]
    use std::{vec, vec::Vec};

    //@defaults unit=U19.3 props=C19,C20,C02 tier=quick level=bounded bound="entry record of arbitrary bytes <= 12 B; every previous entry index" timeout=900
    //@harness fns=compute_format2_new_entry_index
    #[kani::proof]
    #[kani::unwind(6)]
    fn format2_entry_index_is_last_plus_one_plus_delta() {
        let buf: [u8; 12] = kani::any();
        let len: usize = kani::any();
        kani::assume(len <= 12);
        let Ok(ed) = EntryData::read(FontData::new(&buf[..len]), Offset32::new(0)) else { return; };
        let last: u32 = kani::any();
        let delta: i64 = ed.entry_id_delta().map(|v| v.into_inner() as i64).unwrap_or(0);
        let want = last as i64 + 1 + delta;
        let r = compute_format2_new_entry_index(&ed, last);
        match r {
            Ok(v) => assert!(want >= 0 && want <= u32::MAX as i64 && v as i64 == want),
            Err(_) => assert!(want < 0 || want > u32::MAX as i64),
        }
        kani::cover!(r.is_ok() && delta < 0);
        kani::cover!(r.is_err() && want < 0);
        kani::cover!(r.is_err() && want > u32::MAX as i64);
    }


    // NOTE: harnesses for intersect_format1_feature_map (format-1 feature map intersection) did not finish: arbitrary header bytes + a
    // requested tag set + one pre-existing entry (2400 s); a fixed header with a feature map of 21 arbitrary bytes (1800 s); a fixed
    // table in which only the first-new-entry index is symbolic (16 GB); three concrete index values (> 13 min, 10 GB, stopped).
    // Kept, unclaimed, in attic/c19_format1_feature_map.proofs.rs.txt. Writing them exposed genuine defect F9 (u16 arithmetic on
    // font-controlled entry indices), which is demonstrated by a native replay instead (findings/F9_feature_map_overflow.rs).
    // NOTE: Kani harnesses for Entry::design_space_intersects (two axes, HashMap<Tag, RangeSet<Fixed>> on both sides) did not finish in
    // 1800 s even with a single symbolic value; the function is proved in the Verus unit U19.5 instead (attic/c19_design_space_intersects.proofs.rs.txt).
    // NOTE: a harness decoding one whole entry (decode_format2_entry on <= 12 arbitrary bytes after one prior entry) did not
    // finish in 1800 s (String / HashMap / sparse-bit-set decoding) and was removed: that the decoder establishes entries_wf stays
    // an ASSUMPTION of unit U19.1.
    //@assume kani: std::hash::RandomState::new (getrandom syscall) replaced by a fixed state (HashMap of design-space ranges)
    fn fixed_state() -> std::hash::RandomState { write_fonts::verif_fixed_random_state() }
}
