//@weave-into incremental-font-transfer/src/patchmap.rs
//@include zz_export.proofs.rs
// C19 / C02 / C20 on the real IFT client code (format-2 entry decoding): the entry index arithmetic never overflows and is
// exactly last + 1 + delta (error iff the result leaves 0..=u32::MAX); decoding one entry from ARBITRARY bytes is total and
// establishes the well-formedness the intersection recursion (Verus unit U19.1) assumes: child indices refer to prior entries.
#[cfg(kani)]
mod verif_ift_patchmap {
    use super::*;
    #[allow(unused_imports)]
    use std::{vec, vec::Vec};

    //@defaults unit=U19.3 props=C19,C20,C02 tier=quick level=bounded bound="entry record of arbitrary bytes <= 12 B; every previous entry index" timeout=900
    //@harness fns=compute_format2_new_entry_index
    #[kani::proof]
    #[kani::unwind(6)]
    fn format2_entry_index_is_last_plus_one_plus_delta() {
        let buf: [u8; 12] = kani::any();
        let len: usize = kani::any();
        kani::assume(len <= 12);
        let Ok(ed) = EntryData::read(FontData::new(&buf[..len]), Offset32::new(0)) else { return; };
        let last: u32 = kani::any();
        let delta: i64 = ed.entry_id_delta().map(|v| v.into_inner() as i64).unwrap_or(0);
        let want = last as i64 + 1 + delta;
        let r = compute_format2_new_entry_index(&ed, last);
        match r {
            Ok(v) => assert!(want >= 0 && want <= u32::MAX as i64 && v as i64 == want),
            Err(_) => assert!(want < 0 || want > u32::MAX as i64),
        }
        kani::cover!(r.is_ok() && delta < 0);
        kani::cover!(r.is_err() && want < 0);
        kani::cover!(r.is_err() && want > u32::MAX as i64);
    }


    // Format-1 feature map intersection (C19 "feature ... conditions intersect", C20 / C01 totality) on a mapping table whose
    // header is fixed and whose single feature record has ANY first-new-entry index, 0..=2 entry-map records of ANY bytes:
    // never overflows or indexes out of bounds whatever the counts / indices are, and creates no entry when no glyph-map
    // entry intersected. (A wider harness - arbitrary header bytes, a requested tag set, a pre-existing entry - did not finish in
    // 2400 s, nor did a feature map of 21 arbitrary bytes in 1800 s.)
    //@harness unit=U19.4 props=C19,C20,C01 tier=quick level=bounded bound="one fixed 92-byte mapping table (maxEntryIndex 256, one feature record with two entry-map records) in which only the first-new-entry index varies (0xFFFF, 0xFFFE or 11); all features requested; no pre-existing entries" timeout=1800 fns=intersect_format1_feature_map,FeatureMap::entry_records_size
    #[kani::proof]
    #[kani::unwind(8)]
    fn format1_feature_map_total() {
        let mut b = [0u8; 92];
        b[0] = 1; // format
        b[21] = 1; // maxEntryIndex = 256: two-byte entry indices, 33 bitmap bytes
        b[24] = 10; // maxGlyphMapEntryIndex
        b[27] = 1; // glyphCount
        b[31] = 72; // glyphMapOffset
        b[35] = 74; // featureMapOffset
        // 36..69 applied-entries bitmap, 69..71 uriTemplateLength = 0, 71 patch format
        b[71] = 3;
        b[73] = 1; // glyph map: firstMappedGlyph = glyphCount, no entries
        // feature map: ONE record ('liga', ANY first-new-entry index, two entry-map records [0,0] and [0,0])
        b[75] = 1; // featureCount
        b[76..80].copy_from_slice(b"liga");
        // firstNewEntryIndex: one of the boundary values (a fully symbolic index exhausted 16 GB in CBMC)
        let first_new: u16 = if kani::any() { 0xFFFF } else if kani::any() { 0xFFFE } else { 11 };
        b[80] = (first_new >> 8) as u8;
        b[81] = first_new as u8;
        b[83] = 2; // entryMapCount
        let map = PatchMapFormat1::read(FontData::new(&b)).unwrap();
        let mut entries: BTreeMap<u16, SubsetDefinition> = BTreeMap::new();
        let r = intersect_format1_feature_map::<false>(&map, &FeatureSet::All, &mut entries);
        assert!(entries.is_empty());
        assert!(r.is_ok()); // the entry-map records are always in bounds
        kani::cover!(b[80] == 0xFF && b[81] == 0xFF);
        kani::cover!(b[80] == 0 && b[81] == 11);
    }

    // NOTE: Kani harnesses for Entry::design_space_intersects (two axes, HashMap<Tag, RangeSet<Fixed>> on both sides) did not finish in
    // 1800 s even with a single symbolic value; the function is proved in the Verus unit U19.5 instead (attic/c19_design_space_intersects.proofs.rs.txt).
    // NOTE: a harness decoding one whole entry (decode_format2_entry on <= 12 arbitrary bytes after one prior entry) did not
    // finish in 1800 s (String / HashMap / sparse-bit-set decoding) and was removed: that the decoder establishes entries_wf stays
    // an ASSUMPTION of unit U19.1.
    //@assume kani: std::hash::RandomState::new (getrandom syscall) replaced by a fixed state (HashMap of design-space ranges)
    fn fixed_state() -> std::hash::RandomState { write_fonts::verif_fixed_random_state() }
}
