//@weave-into read-fonts/src/tables/variations.rs
// C10 ("the region-weighted sum of deltas ... at region boundaries"), U10.6: the scalar of ONE tuple variation on ONE axis, for
// EVERY peak / intermediate start / intermediate end / coordinate (all F2Dot14 values), classified against the OpenType tent
// function: an axis whose peak is 0 is ignored; at coord == peak the scalar is exactly 1 (also when the peak coincides with
// the start or end of an explicit intermediate region); outside the (open) support the tuple does not apply; strictly inside it
// the scalar is a positive fraction <= 1. (The exact quotient is the contract of Fixed::mul_div, Verus unit U15.7.)
#[cfg(kani)]
mod verif_c10_tuple_scalar {
    use super::*;
    use crate::tables::gvar::GlyphDelta;
    use crate::{FontData, FontReadWithArgs};

    //@harness unit=U10.6 props=C10,C11,C20 tier=quick level=bounded bound="one axis; every peak / start / end / coordinate value; embedded peak with or without an intermediate region" timeout=1800 fns=TupleVariation::compute_scalar,TupleVariation::peak,TupleVariationHeader::intermediate_tuples
    #[kani::proof]
    #[kani::unwind(4)]
    fn tuple_scalar_one_axis_matches_tent_classification() {
        let (peak, start, end, coord): (i16, i16, i16, i16) = kani::any();
        let inter: bool = kani::any();
        let flags: u16 = 0x8000 | if inter { 0x4000 } else { 0 };
        let p = peak.to_be_bytes();
        let s = start.to_be_bytes();
        let e = end.to_be_bytes();
        let f = flags.to_be_bytes();
        let bytes = [0u8, 0, f[0], f[1], p[0], p[1], s[0], s[1], e[0], e[1]];
        let len = if inter { 10 } else { 6 };
        let header = TupleVariationHeader::read_with_args(FontData::new(&bytes[..len]), &1).unwrap();
        let tv: TupleVariation<GlyphDelta> = TupleVariation {
            axis_count: 1,
            header,
            shared_tuples: None,
            serialized_data: FontData::new(&[]),
            shared_point_numbers: None,
            _marker: std::marker::PhantomData,
        };
        let coords = [F2Dot14::from_bits(coord)];
        let r = tv.compute_scalar(&coords);
        let (peak, start, end, coord) = (peak as i32, start as i32, end as i32, coord as i32);
        if peak == 0 || coord == peak {
            assert!(r == Some(Fixed::ONE));
        } else if coord == 0 {
            assert!(r.is_none());
        } else {
            let (lo, hi) = if inter { (start, end) } else { (peak.min(0), peak.max(0)) };
            if inter && (coord <= lo || coord >= hi) {
                assert!(r.is_none());
            }
            if !inter && (coord < lo || coord > hi) {
                assert!(r.is_none());
            }
            if let Some(v) = r {
                assert!(v > Fixed::ZERO);
            }
        }
        kani::cover!(inter && coord == peak && peak == end && peak != 0);
        kani::cover!(inter && r.is_some() && coord != peak);
        kani::cover!(!inter && r.is_some() && coord != peak && peak != 0);
    }
}
