//@weave-into read-fonts/src/collections/int_set/sparse_bit_set.rs
// C14 codec (U14.7): decoding ARBITRARY bytes as a sparse bit set never panics; every member of the result respects the
// bias and the maximum, and the unread remainder is a suffix of the input. Bounded: <= 3 input bytes.
#[cfg(kani)]
mod verif_c14_sparse {
    use super::*;
    #[allow(unused_imports)]
    use std::{vec, vec::Vec};

    //@defaults unit=U14.7 props=C14,C01 tier=thorough level=bounded bound="any input of <=3 bytes, any bias and maximum" timeout=2400
    //@harness fns=IntSet::from_sparse_bit_set_bounded,IntSet::decode_sparse_bit_set_nodes
    #[kani::proof]
    #[kani::unwind(10)]
    fn sparse_bit_set_decode_total() {
        let buf: [u8; 3] = kani::any();
        let len: usize = kani::any();
        kani::assume(len <= 3);
        let bias: u32 = kani::any();
        let max: u32 = kani::any();
        let r = IntSet::<u32>::from_sparse_bit_set_bounded(&buf[..len], bias, max);
        if let Ok((set, rest)) = &r {
            assert!(rest.len() <= len);
            let q: u32 = kani::any();
            if set.contains(q) { assert!(q <= max && q >= bias); }
        }
        kani::cover!(r.is_err());
        kani::cover!(matches!(r, Ok((ref s, _)) if !s.is_empty()));
    }
}
