//@weave-into read-fonts/src/tables/layout.rs
// C16 reader half + C01/C20 (U16.6): Coverage and ClassDef lookups on ARBITRARY table bytes against linear-scan
// transcriptions of the OpenType definitions (tables sorted as the format requires; at most 2 ranges / 3 glyphs),
// for every query glyph; and totality (no overflow, no index panic) on unsorted / overlapping data.
#[cfg(kani)]
mod verif_layout_lookups {
    use super::*;
    use crate::{FontData, FontRead};
    #[allow(unused_imports)]
    use std::{vec, vec::Vec};

    //@defaults unit=U16.6 props=C16,C01,C20 tier=quick level=bounded bound="any bytes <=16 B (<=3 glyphs / <=2 range records), every query glyph" timeout=900
    //@harness fns=CoverageTable::get,CoverageFormat1::get,CoverageFormat2::get
    #[kani::proof]
    #[kani::unwind(6)]
    fn coverage_get_matches_spec() {
        let buf: [u8; 16] = kani::any();
        let len: usize = kani::any();
        kani::assume(len <= 16);
        let Ok(t) = CoverageTable::read(FontData::new(&buf[..len])) else { return; };
        let q: u16 = kani::any();
        match &t {
            CoverageTable::Format1(f) => {
                let g = f.glyph_array();
                kani::assume(g.len() <= 3);
                // format 1: sorted glyph list; the coverage index is the position in the list
                if g.len() >= 2 { kani::assume(g[0].get() < g[1].get()); }
                if g.len() == 3 { kani::assume(g[1].get() < g[2].get()); }
                let got = t.get(GlyphId16::new(q));
                let mut expect = None;
                let mut i = 0;
                while i < g.len() { if g[i].get().to_u16() == q { expect = Some(i as u16); } i += 1; }
                assert!(got == expect);
                kani::cover!(got == Some(2));
            }
            CoverageTable::Format2(f) => {
                let r = f.range_records();
                kani::assume(r.len() <= 2);
                let mut i = 0;
                while i < r.len() { kani::assume(r[i].start_glyph_id() <= r[i].end_glyph_id()); i += 1; }
                if r.len() == 2 { kani::assume(r[0].end_glyph_id() < r[1].start_glyph_id()); }
                let got = t.get(GlyphId16::new(q));
                // format 2: coverage index = startCoverageIndex + (glyph - startGlyphID), modulo 2^16 as stored
                let mut expect = None;
                let mut i = 0;
                while i < r.len() {
                    let (s, e) = (r[i].start_glyph_id().to_u16(), r[i].end_glyph_id().to_u16());
                    if s <= q && q <= e { expect = Some(r[i].start_coverage_index().wrapping_add(q - s)); }
                    i += 1;
                }
                assert!(got == expect);
                kani::cover!(got.is_some() && r.len() == 2);
                kani::cover!(r.len() == 1 && r[0].start_coverage_index() as u32 + q as u32 > 0xFFFF && got.is_some());
            }
        }
        let big: u32 = kani::any();
        if big > 0xFFFF { assert!(t.get(GlyphId::new(big)).is_none()); }
    }
    //@harness fns=ClassDef::get,ClassDefFormat1::get,ClassDefFormat2::get
    #[kani::proof]
    #[kani::unwind(6)]
    fn classdef_get_matches_spec() {
        let buf: [u8; 16] = kani::any();
        let len: usize = kani::any();
        kani::assume(len <= 16);
        let Ok(t) = ClassDef::read(FontData::new(&buf[..len])) else { return; };
        let q: u16 = kani::any();
        let got = t.get(GlyphId16::new(q));
        match &t {
            ClassDef::Format1(f) => {
                let a = f.class_value_array();
                kani::assume(a.len() <= 3);
                let s = f.start_glyph_id().to_u16();
                // class of glyph s + i is classValueArray[i]; everything else is class 0
                let expect = if q >= s && ((q - s) as usize) < a.len() { a[(q - s) as usize].get() } else { 0 };
                assert!(got == expect);
                kani::cover!(got != 0);
            }
            ClassDef::Format2(f) => {
                let r = f.class_range_records();
                kani::assume(r.len() <= 2);
                let mut i = 0;
                while i < r.len() { kani::assume(r[i].start_glyph_id() <= r[i].end_glyph_id()); i += 1; }
                if r.len() == 2 { kani::assume(r[0].end_glyph_id() < r[1].start_glyph_id()); }
                let mut expect = 0;
                let mut i = 0;
                while i < r.len() {
                    if r[i].start_glyph_id().to_u16() <= q && q <= r[i].end_glyph_id().to_u16() { expect = r[i].class(); }
                    i += 1;
                }
                assert!(got == expect);
                kani::cover!(got != 0 && r.len() == 2);
            }
        }
    }
    //@harness fns=CoverageTable::get,ClassDef::get,ClassRangeRecord::population note="totality on ANY bytes (unsorted, overlapping, backwards ranges)"
    #[kani::proof]
    #[kani::unwind(6)]
    fn coverage_classdef_total() {
        let buf: [u8; 16] = kani::any();
        let len: usize = kani::any();
        kani::assume(len <= 16);
        let q: u16 = kani::any();
        if let Ok(t) = CoverageTable::read(FontData::new(&buf[..len])) {
            if let CoverageTable::Format2(f) = &t { kani::assume(f.range_records().len() <= 2); }
            if let CoverageTable::Format1(f) = &t { kani::assume(f.glyph_array().len() <= 3); }
            let _ = t.get(GlyphId16::new(q));
        }
        if let Ok(c) = ClassDef::read(FontData::new(&buf[..len])) {
            if let ClassDef::Format2(f) = &c { kani::assume(f.class_range_records().len() <= 2); let r = f.class_range_records(); if !r.is_empty() { let _ = r[0].population(); } }
            if let ClassDef::Format1(f) = &c { kani::assume(f.class_value_array().len() <= 3); }
            let _ = c.get(GlyphId16::new(q));
        }
        kani::cover!(len == 16);
    }
}
