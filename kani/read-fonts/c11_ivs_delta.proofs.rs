//@weave-into read-fonts/src/tables/variations.rs
// C11 ("the delta evaluated at any location equals the sum over regions of the specified tent scalar times the delta"), U11.7:
// ItemVariationStore::compute_delta on a store with ONE region on ONE axis and one 16-bit delta, for EVERY start / peak / end /
// coordinate / delta value, classified against the OpenType region scalar: an axis whose region is ignored by the specification
// (start > peak, peak > end, peak == 0, or start < 0 < end) contributes the full delta at EVERY location - the default location
// included; at coord == peak the delta is exact; outside [start, end] it is 0; inside, the result lies between 0 and the delta.
// (The exact quotient is the contract of Fixed::mul_div, Verus unit U15.7.)
#[cfg(kani)]
mod verif_c11_ivs_delta {
    use super::*;
    use crate::{FontData, FontRead};

    //@harness unit=U11.7 props=C11,C20 tier=quick level=bounded bound="one region, one axis, one item with one 16-bit delta; every start / peak / end / coordinate / delta value; explicit one-element coordinate slice" timeout=1800 fns=ItemVariationStore::compute_delta,VariationRegion::compute_scalar,ItemVariationData::delta_set
    #[kani::proof]
    #[kani::unwind(4)]
    fn ivs_delta_one_region_matches_tent_classification() {
        let (start, peak, end, coord, delta): (i16, i16, i16, i16, i16) = kani::any();
        let (s, p, e, d) = (start.to_be_bytes(), peak.to_be_bytes(), end.to_be_bytes(), delta.to_be_bytes());
        #[rustfmt::skip]
        let bytes: [u8; 32] = [
            0, 1, 0, 0, 0, 12, 0, 1, 0, 0, 0, 22,          // format 1, region list at 12, one ItemVariationData at 22
            0, 1, 0, 1, s[0], s[1], p[0], p[1], e[0], e[1], // axisCount 1, regionCount 1, (start, peak, end)
            0, 1, 0, 1, 0, 1, 0, 0, d[0], d[1],             // itemCount 1, wordDeltaCount 1, regionIndexCount 1, region 0, delta
        ];
        let ivs = ItemVariationStore::read(FontData::new(&bytes)).unwrap();
        let coords = [F2Dot14::from_bits(coord)];
        let r = ivs.compute_delta(DeltaSetIndex { outer: 0, inner: 0 }, &coords);
        let Ok(r) = r else {
            assert!(false, "a well-formed store evaluates");
            return;
        };
        let (start, peak, end, coord, delta) = (start as i32, peak as i32, end as i32, coord as i32, delta as i32);
        let ignored = start > peak || peak > end || peak == 0 || (start < 0 && end > 0);
        if ignored || coord == peak {
            assert!(r == delta);
        } else if coord < start || coord > end {
            assert!(r == 0);
        } else {
            assert!(if delta >= 0 { 0 <= r && r <= delta } else { delta <= r && r <= 0 });
        }
        // no coordinates at all is the default location of a font without variations: no deltas
        assert!(ivs.compute_delta(DeltaSetIndex { outer: 0, inner: 0 }, &[]) == Ok(0));
        // an index outside the store: no panic; an error or no delta (the property does not say which)
        assert!(matches!(ivs.compute_delta(DeltaSetIndex { outer: 1, inner: 0 }, &coords), Err(_) | Ok(0)));
        kani::cover!(ignored && coord == 0 && delta != 0);
        kani::cover!(!ignored && coord != peak && r != 0 && r != delta);
        kani::cover!(!ignored && coord > end);
    }
}
