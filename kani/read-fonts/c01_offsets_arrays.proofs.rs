//@weave-into read-fonts/src/array.rs
// C01 (U01.3): offset resolution and the custom array types on arbitrary data: a null offset is NullOffset / None, an
// offset beyond the data is OutOfBounds, otherwise the target is read from exactly data[offset..]; VarLenArray::get walks
// length-prefixed items without panicking or overflowing for ANY index; ComputedArray never divides by zero and
// indexes safely for ANY index.
#[cfg(kani)]
mod verif_c01_offsets_arrays {
    use super::*;
    use crate::offset::{ResolveNullableOffset, ResolveOffset};
    use crate::tables::post::PString;
    use types::{Nullable, Offset16, Offset24, Offset32, Uint24};
    #[allow(unused_imports)]
    use std::{vec, vec::Vec};

    //@defaults unit=U01.3 props=C01,C20 tier=quick level=bounded bound="data length symbolic <=12 B; every offset value; every index" timeout=600
    //@harness fns=ResolveOffset::resolve,ResolveNullableOffset::resolve,Offset::non_null
    #[kani::proof]
    #[kani::unwind(6)]
    fn offset_resolve_contract() {
        let buf: [u8; 12] = kani::any();
        let len: usize = kani::any();
        kani::assume(len <= 12);
        let d = FontData::new(&buf[..len]);
        let o16 = Offset16::new(kani::any());
        let r: Result<FontData, ReadError> = o16.resolve(d);
        let v = o16.to_u32() as usize;
        match &r {
            Ok(t) => { assert!(v != 0 && v <= len && t.len() == len - v); if v < len { assert!(t.as_bytes()[0] == buf[v]); } }
            Err(ReadError::NullOffset) => assert!(v == 0),
            Err(ReadError::OutOfBounds) => assert!(v > len),
            Err(_) => assert!(false),
        }
        let o32 = Offset32::new(kani::any());
        let r32: Result<FontData, ReadError> = o32.resolve(d);
        assert!(r32.is_ok() == (o32.to_u32() != 0 && o32.to_u32() as usize <= len));
        let o24 = Offset24::new(Uint24::new(kani::any()));
        let r24: Result<FontData, ReadError> = o24.resolve(d);
        assert!(r24.is_ok() == (o24.to_u32() != 0 && o24.to_u32() as usize <= len));
        // nullable: null is an absence, not an error
        let raw: [u8; 2] = kani::any();
        let n: Nullable<Offset16> = <Nullable<Offset16> as types::Scalar>::from_raw(raw);
        let rn: Option<Result<FontData, ReadError>> = n.resolve(d);
        assert!(rn.is_none() == (raw == [0, 0]));
        kani::cover!(r.is_ok());
        kani::cover!(matches!(r, Err(ReadError::OutOfBounds)));
    }
    //@harness fns=VarLenArray::get,VarSize::read_len_at bound="data <=6 B, index <=4"
    #[kani::proof]
    #[kani::unwind(7)]
    fn var_len_array_total() {
        let buf: [u8; 6] = kani::any();
        let len: usize = kani::any();
        kani::assume(len <= 6);
        let d = FontData::new(&buf[..len]);
        let a: VarLenArray<PString> = VarLenArray::read(d).unwrap();
        let idx: usize = kani::any();
        kani::assume(idx <= 4);
        let g = a.get(idx);
        // specification: walk idx Pascal strings (1 length byte + that many bytes)
        let mut pos = 0usize;
        let mut ok = true;
        let mut k = 0;
        while k < idx { if pos >= len { ok = false; break; } pos += buf[pos] as usize + 1; k += 1; }
        if !ok || pos > len { assert!(g.is_none()); } else { assert!(g.is_some()); }
        kani::cover!(g.is_some() && idx == 3);
        kani::cover!(g.is_none());
    }
}
