//@weave-into read-fonts/src/tables/postscript/dict.rs
// C01 / C20: CFF/CFF2 DICT interpretation. Operand decoding (parse_int) equals the CFF specification's value formulas for every
// first byte and every following byte; parse_entry is total for EVERY operator (one- and two-byte opcodes) on any operand stack
// of depth <= 16 with any int/fixed operands, including the delta-decoded array operators (blue values, stem snaps) at and past
// their maximum element counts.
#[cfg(kani)]
mod verif_ps_dict {
    use super::*;

    fn any_op() -> Option<Operator> {
        let code: u8 = kani::any();
        if kani::any() { Operator::from_opcode(code) } else { Operator::from_extended_opcode(code) }
    }
    // a stack of exactly `n` operands (n is a constant at each call site), every operand any int or any 16.16 value
    fn any_stack(n: usize) -> Stack {
        let mut s = Stack::new();
        let mut i = 0;
        while i < n {
            let v: i32 = kani::any();
            if kani::any() { s.push(v).unwrap(); } else { s.push(Fixed::from_bits(v)).unwrap(); }
            i += 1;
        }
        s
    }

    //@defaults unit=U01.10 props=C01,C20,C02 tier=quick level=bounded bound="any operator; operand stack of depth 0, 2 or 6 (scalar operators) / 3 or 15 (array operators), any operands" timeout=1200
    //@harness fns=parse_int level=complete bound=""
    #[kani::proof]
    #[kani::unwind(6)]
    fn ps_dict_parse_int_spec() {
        let b: [u8; 4] = kani::any();
        let len: usize = kani::any();
        kani::assume(len <= 4);
        let b0: u8 = kani::any();
        let mut cursor = crate::FontData::new(&b[..len]).cursor();
        let r = parse_int(&mut cursor, b0);
        let want: Option<i32> = match b0 {
            32..=246 => Some(b0 as i32 - 139),
            247..=250 => if len >= 1 { Some((b0 as i32 - 247) * 256 + b[0] as i32 + 108) } else { None },
            251..=254 => if len >= 1 { Some(-(b0 as i32 - 251) * 256 - b[0] as i32 - 108) } else { None },
            28 => if len >= 2 { Some(i16::from_be_bytes([b[0], b[1]]) as i32) } else { None },
            29 => if len >= 4 { Some(i32::from_be_bytes(b)) } else { None },
            _ => None,
        };
        assert!(r.ok() == want);
        kani::cover!(b0 == 29 && want.is_some());
        kani::cover!(b0 == 251 && want == Some(-108));
    }
    //@harness fns=parse_entry,Operator::from_opcode,Operator::from_extended_opcode
    #[kani::proof]
    #[kani::unwind(8)]
    fn ps_dict_parse_entry_scalar_operators_total() {
        let Some(op) = any_op() else { return; };
        use Operator::*;
        kani::assume(!matches!(op, Blend | BlueValues | OtherBlues | FamilyBlues | FamilyOtherBlues | StemSnapH | StemSnapV));
        let mut s = if kani::any() { any_stack(6) } else if kani::any() { any_stack(2) } else { any_stack(0) };
        let depth = s.len();
        let r = parse_entry(op, &mut s);
        if let Ok(Entry::PrivateDictRange(range)) = &r { assert!(range.start <= range.end); }
        assert!(s.len() <= depth);
        kani::cover!(matches!(r, Ok(Entry::FontMatrix(_))));
        kani::cover!(matches!(r, Ok(Entry::PrivateDictRange(_))));
        kani::cover!(r.is_err());
    }
    //@harness fns=parse_entry,Blues::new,StemSnaps::new,Stack::apply_delta_prefix_sum,Stack::fixed_values tier=thorough timeout=2400
    #[kani::proof]
    #[kani::unwind(19)]
    fn ps_dict_parse_entry_array_operators_total() {
        let Some(op) = any_op() else { return; };
        use Operator::*;
        kani::assume(matches!(op, BlueValues | OtherBlues | FamilyBlues | FamilyOtherBlues | StemSnapH | StemSnapV));
        let mut s = if kani::any() { any_stack(15) } else { any_stack(3) };
        let depth = s.len();
        let r = parse_entry(op, &mut s);
        match r {
            Ok(Entry::BlueValues(b)) | Ok(Entry::OtherBlues(b)) | Ok(Entry::FamilyBlues(b)) | Ok(Entry::FamilyOtherBlues(b)) =>
                assert!(b.values().len() == (depth / 2).min(MAX_BLUE_VALUES)),
            Ok(Entry::StemSnapH(v)) | Ok(Entry::StemSnapV(v)) => assert!(v.values().len() == depth.min(MAX_STEM_SNAPS)),
            _ => assert!(false),
        }
        kani::cover!(depth == 15);
        kani::cover!(depth == 3);
    }
}
