//@weave-into read-fonts/src/tables/postscript/dict.rs
// C01 / C20: CFF/CFF2 DICT interpretation. Operand decoding (parse_int) equals the CFF specification's value formulas for every
// first byte and every following byte. (Harnesses for parse_entry over every operator exhausted 24 GB in CBMC and are kept,
// unclaimed, in attic/c01_ps_dict_parse_entry.proofs.rs.txt.)
#[cfg(kani)]
mod verif_ps_dict {
    use super::*;

    //@defaults unit=U01.10 props=C01,C20,C02 tier=quick level=complete timeout=1200
    //@harness fns=parse_int level=complete bound=""
    #[kani::proof]
    #[kani::unwind(6)]
    fn ps_dict_parse_int_spec() {
        let b: [u8; 4] = kani::any();
        let len: usize = kani::any();
        kani::assume(len <= 4);
        let b0: u8 = kani::any();
        let mut cursor = crate::FontData::new(&b[..len]).cursor();
        let r = parse_int(&mut cursor, b0);
        let want: Option<i32> = match b0 {
            32..=246 => Some(b0 as i32 - 139),
            247..=250 => if len >= 1 { Some((b0 as i32 - 247) * 256 + b[0] as i32 + 108) } else { None },
            251..=254 => if len >= 1 { Some(-(b0 as i32 - 251) * 256 - b[0] as i32 - 108) } else { None },
            28 => if len >= 2 { Some(i16::from_be_bytes([b[0], b[1]]) as i32) } else { None },
            29 => if len >= 4 { Some(i32::from_be_bytes(b)) } else { None },
            _ => None,
        };
        assert!(r.ok() == want);
        kani::cover!(b0 == 29 && want.is_some());
        kani::cover!(b0 == 251 && want == Some(-108));
    }
}
