//@weave-into read-fonts/src/tables/cmap.rs
// C08 reader half (U08.2, U08.3) + C01/C20 totality of the hand-written cmap helpers.
// spec4 / spec12 are executable transcriptions of the OpenType lookup rules (linear scan, written from the
// specification text - independent of the binary search and iterator code under proof). Table bytes are fully
// symbolic; bounded in the number of segments / groups only.
#[cfg(kani)]
mod verif_cmap_reader {
    use super::*;
    use crate::{FontData, FontRead};
    #[allow(unused_imports)]
    use std::{vec, vec::Vec};

    // OpenType format 4: first segment whose endCode >= c; miss if startCode > c; idRangeOffset == 0 => (c + idDelta)
    // mod 65536; otherwise glyphIdArray[idRangeOffset/2 + (c - startCode) - (segCount - i)], 0 => missing, else + idDelta
    fn spec4(t: &Cmap4, cp: u16) -> Option<u16> {
        let n = (t.seg_count_x2() / 2) as usize;
        let end = t.end_code(); let start = t.start_code();
        let delta = t.id_delta(); let ro = t.id_range_offsets(); let gia = t.glyph_id_array();
        let mut i = 0;
        while i < n {
            if i >= end.len() || i >= start.len() || i >= delta.len() || i >= ro.len() { return None; }
            if end[i].get() >= cp {
                if start[i].get() > cp { return None; }
                let r = ro[i].get();
                if r == 0 { return Some((cp as i32 + delta[i].get() as i32) as u16); }
                let idx = (r as usize / 2 + (cp - start[i].get()) as usize).checked_sub(ro.len() - i);
                let idx = match idx { Some(x) => x, None => 0 };
                if idx >= gia.len() { return None; }
                let g = gia[idx].get();
                if g == 0 { return None; }
                return Some((g as i32 + delta[i].get() as i32) as u16);
            }
            i += 1;
        }
        None
    }

    //@defaults unit=U08.2 props=C08,C01 tier=quick level=bounded bound="any bytes <=36 B forming <=2 segments (sorted by end code, as the format requires); every code point" timeout=900
    //@harness fns=Cmap4::map_codepoint,Cmap4::lookup_glyph_id
    #[kani::proof]
    #[kani::unwind(4)]
    fn cmap4_reader_matches_spec() {
        let buf: [u8; 36] = kani::any();
        let len: usize = kani::any();
        kani::assume(len <= 36);
        let Ok(t) = Cmap4::read(FontData::new(&buf[..len])) else { return; };
        kani::assume(t.seg_count_x2() <= 4);
        let end = t.end_code();
        kani::assume(end.len() < 2 || end[0].get() < end[1].get());
        let st = t.start_code();
        kani::assume(st.len() < 2 || end.len() < 2 || st[1].get() > end[0].get());
        let cp: u16 = kani::any();
        // the full 32-bit glyph id is compared: a format-4 answer is a 16-bit glyph id (no stray high bits)
        let got = t.map_codepoint(cp).map(|g| g.to_u32());
        assert!(got == spec4(&t, cp).map(|g| g as u32));
        let big: u32 = kani::any();
        if big > 0xFFFF { assert!(t.map_codepoint(big).is_none()); }
        kani::cover!(got.is_some() && t.seg_count_x2() == 4);
        kani::cover!(got.is_none());
    }
    //@harness fns=Cmap4::map_codepoint note="totality only: ANY bytes (unsorted, overlapping, inconsistent counts), <=3 segments" bound="any bytes <=40 B, segCountX2<=6"
    #[kani::proof]
    #[kani::unwind(5)]
    fn cmap4_map_total() {
        let buf: [u8; 40] = kani::any();
        let len: usize = kani::any();
        kani::assume(len <= 40);
        let Ok(t) = Cmap4::read(FontData::new(&buf[..len])) else { return; };
        kani::assume(t.seg_count_x2() <= 6);
        let cp: u32 = kani::any();
        let _ = t.map_codepoint(cp);
        kani::cover!(t.seg_count_x2() == 6);
    }
    //@harness fns=Cmap4Iter::next,Cmap4Iter::new,Cmap4::code_range,Cmap4::iter tier=thorough timeout=2400 note="inductive step of: iteration over ANY segment list (unsorted / overlapping / backwards) is strictly ascending in code point, below 0x10000 and agrees with the owning segment's lookup. State invariant P(m): every pair yielded so far is < m, m <= cur_range.start and m <= cur_range.end; one next() from ANY state satisfying P(m) yields c >= m and re-establishes P(c+1). The initial state satisfies P(0)." bound="any bytes <=40 B, <=3 segments each spanning <=3 code points; iterator state symbolic"
    #[kani::proof]
    #[kani::unwind(16)]
    fn cmap4_iter_step_invariant() {
        let buf: [u8; 40] = kani::any();
        let len: usize = kani::any();
        kani::assume(len <= 40);
        let Ok(t) = Cmap4::read(FontData::new(&buf[..len])) else { return; };
        kani::assume(t.seg_count_x2() <= 6);
        let end = t.end_code(); let st = t.start_code();
        let mut i = 0;
        while i < 3 {
            if i < end.len() && i < st.len() {
                // small spans keep one call finite for the model checker; order/overlap are unconstrained
                kani::assume(end[i].get() as u32 + 1 <= st[i].get() as u32 + 3);
            }
            i += 1;
        }
        // initial state satisfies P(0)
        let it0 = t.iter();
        assert!(it0.cur_range_ix == 0);
        // any state satisfying P(m)
        let a: u32 = kani::any(); let b: u32 = kani::any(); let m: u32 = kani::any();
        kani::assume(a <= 0x10000 && b <= 0x10000 && (a >= b || b - a <= 3));
        kani::assume(m <= a && m <= b);
        let ix: usize = kani::any();
        kani::assume(ix <= 3);
        let sc: u16 = kani::any();
        kani::assume(sc as u32 <= a); // cur_start_code is the value cur_range.start had when the segment was entered
        let mut it = Cmap4Iter { subtable: t.clone(), cur_range: a..b, cur_start_code: sc, cur_range_ix: ix };
        let r = it.next();
        assert!(it.cur_range_ix >= ix); // progress measure: (segment index, range start) never goes back
        assert!(it.cur_range.end >= b);
        match r {
            Some((c, g)) => {
                assert!(c <= 0xFFFF);
                assert!(c >= m); // never revisits or goes backwards
                assert!(c + 1 <= it.cur_range.start && c + 1 <= it.cur_range.end); // P(c+1)
                if it.cur_range_ix > ix || it.cur_start_code as u32 <= c {
                    assert!(it.cur_range_ix < 3);
                }
                if it.cur_range_ix > ix { assert!(t.lookup_glyph_id(c as u16, it.cur_range_ix, it.cur_start_code) == Some(g)); }
            }
            None => { assert!(it.cur_range_ix >= end.len().min(st.len())); }
        }
        kani::cover!(r.is_some() && it.cur_range_ix == ix + 2);
        kani::cover!(r.is_none());
        kani::cover!(r.is_some() && it.cur_range_ix == ix);
    }

    // OpenType format 12: the group containing c (groups sorted, non-overlapping) => startGlyphID + (c - startCharCode)
    fn spec12(t: &Cmap12, cp: u32) -> Option<u32> {
        let groups = t.groups();
        let mut i = 0;
        while i < groups.len() {
            let g = &groups[i];
            if g.start_char_code() <= cp && cp <= g.end_char_code() {
                return Some(g.start_glyph_id().wrapping_add(cp - g.start_char_code()));
            }
            i += 1;
        }
        None
    }
    //@defaults unit=U08.3 props=C08,C01 tier=quick level=bounded bound="any bytes <=40 B forming <=2 groups (sorted, non-overlapping); every code point" timeout=900
    //@harness fns=Cmap12::map_codepoint,Cmap12::lookup_glyph_id
    #[kani::proof]
    #[kani::unwind(4)]
    fn cmap12_reader_matches_spec() {
        let buf: [u8; 40] = kani::any();
        let len: usize = kani::any();
        kani::assume(len <= 40);
        let Ok(t) = Cmap12::read(FontData::new(&buf[..len])) else { return; };
        let groups = t.groups();
        kani::assume(groups.len() <= 2);
        if groups.len() == 2 { kani::assume(groups[0].end_char_code() < groups[1].start_char_code()); }
        let cp: u32 = kani::any();
        let got = t.map_codepoint(cp).map(|g| g.to_u32());
        assert!(got == spec12(&t, cp));
        kani::cover!(got.is_some() && groups.len() == 2);
        kani::cover!(got.is_none() && groups.len() == 2);
    }
    //@harness fns=Cmap12Iter::next,Cmap12::group,Cmap12::iter,Cmap12::iter_with_limits timeout=1200 note="inductive step, as for format 4: P(m): every pair yielded so far is < m <= cur_group.range.start and m <= cur_group.range.end" bound="any bytes <=52 B, <=3 groups each spanning <=3 code points; limits and iterator state symbolic"
    #[kani::proof]
    #[kani::unwind(16)]
    fn cmap12_iter_step_invariant() {
        let buf: [u8; 52] = kani::any();
        let len: usize = kani::any();
        kani::assume(len <= 52);
        let Ok(t) = Cmap12::read(FontData::new(&buf[..len])) else { return; };
        let groups = t.groups();
        kani::assume(groups.len() <= 3);
        let mut i = 0;
        while i < groups.len() {
            kani::assume(groups[i].end_char_code() as u64 + 1 <= groups[i].start_char_code() as u64 + 3);
            i += 1;
        }
        let limits = if kani::any() { Some(Cmap12IterLimits { max_char: kani::any(), glyph_count: kani::any() }) } else { None };
        let a: u64 = kani::any(); let b: u64 = kani::any(); let m: u64 = kani::any();
        kani::assume(a <= 0x1_0000_0000 && b <= 0x1_0000_0000 && (a >= b || b - a <= 3));
        kani::assume(m <= a && m <= b);
        let ix: usize = kani::any();
        kani::assume(ix <= 3);
        let sc: u32 = kani::any(); let sg: u32 = kani::any();
        let mut it = Cmap12Iter { subtable: t.clone(), cur_group: Some(Cmap12Group { range: a..b, start_code: sc, start_glyph_id: sg }), cur_group_ix: ix, limits };
        let r = it.next();
        assert!(it.cur_group_ix >= ix);
        match r {
            Some((c, g)) => {
                assert!(c as u64 >= m);
                let gr = it.cur_group.as_ref().unwrap();
                assert!(c as u64 + 1 <= gr.range.start && c as u64 + 1 <= gr.range.end.max(gr.range.start));
                assert!(gr.range.end >= b || gr.range.end <= gr.range.start);
                assert!(g.to_u32() == gr.start_glyph_id.wrapping_add(c.wrapping_sub(gr.start_code)));
                if it.cur_group_ix > ix {
                    if let Some(l) = limits { assert!(c <= l.max_char && g.to_u32() < l.glyph_count); }
                }
            }
            None => { assert!(it.cur_group_ix >= groups.len()); }
        }
        kani::cover!(r.is_some() && it.cur_group_ix == ix + 2);
        kani::cover!(r.is_none());
    }

    // completeness of the enumeration on ONE group (C08 "enumerating the mappings yields exactly the input pairs"): with limits
    // (max_char = the maximum valid character, INCLUSIVE; glyph_count) the pairs are exactly those of the group with c <= max_char
    // and glyph < glyph_count, ascending. Checked on the first two items for every start / end / glyph / limit value.
    //@harness fns=Cmap12::iter_with_limits,Cmap12Iter::next,Cmap12::group timeout=1200 bound="one group with any start / end / start glyph; any limits; first 2 items" note="taken from the property (inclusive maximum character), not from the code"
    #[kani::proof]
    #[kani::unwind(6)]
    fn cmap12_single_group_enumeration_exact() {
        let (s0, e0, g0, max_char, glyph_count): (u32, u32, u32, u32, u32) = kani::any();
        kani::assume(s0 <= e0);
        let mut b = [0u8; 28];
        b[1] = 12;
        b[7] = 28;
        b[15] = 1;
        b[16..20].copy_from_slice(&s0.to_be_bytes());
        b[20..24].copy_from_slice(&e0.to_be_bytes());
        b[24..28].copy_from_slice(&g0.to_be_bytes());
        let t = Cmap12::read(FontData::new(&b)).unwrap();
        let mut it = t.iter_with_limits(Cmap12IterLimits { max_char, glyph_count });
        let first = it.next().map(|(c, g)| (c, g.to_u32()));
        let second = it.next().map(|(c, g)| (c, g.to_u32()));
        let want = |k: u64| {
            let c = s0 as u64 + k;
            let g = g0 as u64 + k;
            (c <= e0 as u64 && c <= max_char as u64 && g < glyph_count as u64).then_some((c as u32, g as u32))
        };
        assert!(first == want(0));
        if first.is_some() {
            assert!(second == want(1));
        }
        kani::cover!(first.is_some() && s0 == max_char);
        kani::cover!(first.is_some() && second.is_none());
        kani::cover!(first.is_none());
    }

    // OpenType format 14: the selector record for `sel` (records sorted by selector); a code point inside one of the
    // record's Default UVS ranges => use the default mapping; else its Non-Default UVS mapping => that glyph; else none
    fn spec14(t: &Cmap14, cp: u32, sel: u32) -> Option<MapVariant> {
        let recs = t.var_selector();
        let mut i = 0;
        while i < recs.len() {
            let rec = &recs[i];
            if rec.var_selector().to_u32() == sel {
                if let Some(Ok(d)) = rec.default_uvs(t.offset_data()) {
                    let rs = d.ranges();
                    let mut k = 0;
                    while k < rs.len() {
                        let start = rs[k].start_unicode_value().to_u32();
                        if start <= cp && cp <= start + rs[k].additional_count() as u32 { return Some(MapVariant::UseDefault); }
                        k += 1;
                    }
                }
                let nd = rec.non_default_uvs(t.offset_data())?.ok()?;
                let ms = nd.uvs_mapping();
                let mut k = 0;
                while k < ms.len() {
                    if ms[k].unicode_value().to_u32() == cp { return Some(MapVariant::Variant(GlyphId::from(ms[k].glyph_id()))); }
                    k += 1;
                }
                return None;
            }
            i += 1;
        }
        None
    }
    //@harness unit=U08.5 props=C08,C01 tier=thorough level=bounded bound="any bytes <=56 B forming <=2 selector records (sorted), <=2 default ranges and <=2 non-default mappings per record (sorted); every code point and selector" timeout=2400 fns=Cmap14::map_variant
    #[kani::proof]
    #[kani::unwind(5)]
    fn cmap14_reader_matches_spec() {
        let buf: [u8; 56] = kani::any();
        let len: usize = kani::any();
        kani::assume(len <= 56);
        let Ok(t) = Cmap14::read(FontData::new(&buf[..len])) else { return; };
        let recs = t.var_selector();
        kani::assume(recs.len() <= 2);
        if recs.len() == 2 { kani::assume(recs[0].var_selector().to_u32() < recs[1].var_selector().to_u32()); }
        let mut i = 0;
        while i < recs.len() {
            if let Some(Ok(d)) = recs[i].default_uvs(t.offset_data()) {
                let rs = d.ranges();
                kani::assume(rs.len() <= 2);
                if rs.len() == 2 {
                    kani::assume(rs[0].start_unicode_value().to_u32() + (rs[0].additional_count() as u32) < rs[1].start_unicode_value().to_u32());
                }
            }
            if let Some(Ok(nd)) = recs[i].non_default_uvs(t.offset_data()) {
                let ms = nd.uvs_mapping();
                kani::assume(ms.len() <= 2);
                if ms.len() == 2 { kani::assume(ms[0].unicode_value().to_u32() < ms[1].unicode_value().to_u32()); }
            }
            i += 1;
        }
        let cp: u32 = kani::any();
        let sel: u32 = kani::any();
        let got = t.map_variant(cp, sel);
        assert!(got == spec14(&t, cp, sel));
        kani::cover!(recs.len() == 2 && matches!(got, Some(MapVariant::UseDefault)) && sel == recs[0].var_selector().to_u32());
        kani::cover!(recs.len() == 2 && matches!(got, Some(MapVariant::Variant(_))) && sel == recs[1].var_selector().to_u32());
        kani::cover!(got.is_none());
    }
}
