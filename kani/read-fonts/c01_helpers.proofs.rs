//@weave-into read-fonts/src/lib.rs
// C01 (U01.5h): hand-written lookup helpers on ARBITRARY table bytes never panic (no index out of range, no
// overflow, no unwrap on absent data) and give the specified answers where a short specification exists.
#[cfg(kani)]
mod verif_c01_helpers {
    use super::*;
    use crate::tables::{hmtx::Hmtx, loca::Loca, name::Name, post::Post, variations::{PackedDeltas, PackedPointNumbers}};
    use types::{GlyphId, GlyphId16};
    #[allow(unused_imports)]
    use std::{vec, vec::Vec};

    //@defaults unit=U01.5h props=C01,C20 tier=quick level=bounded bound="any table bytes <=24..40 B (per harness), any glyph id / index" timeout=900
    //@harness fns=Loca::read,Loca::get_raw,Loca::len,Loca::all_offsets_are_ascending bound="any bytes <=12 B, both formats, any index"
    #[kani::proof]
    #[kani::unwind(8)]
    fn loca_total_and_spec() {
        let buf: [u8; 12] = kani::any();
        let len: usize = kani::any();
        kani::assume(len <= 12);
        let is_long: bool = kani::any();
        let Ok(l) = Loca::read(FontData::new(&buf[..len]), is_long) else { return; };
        let idx: usize = kani::any();
        let r = l.get_raw(idx);
        let n = if is_long { len / 4 } else { len / 2 };
        assert!(r.is_some() == (idx < n));
        if let Some(v) = r {
            if is_long { assert!(v == u32::from_be_bytes([buf[4 * idx], buf[4 * idx + 1], buf[4 * idx + 2], buf[4 * idx + 3]])); }
            else { assert!(v == 2 * (((buf[2 * idx] as u32) << 8) | buf[2 * idx + 1] as u32)); }
        }
        assert!(l.len() == n.saturating_sub(1));
        let _ = l.all_offsets_are_ascending();
        kani::cover!(r.is_some() && is_long);
        kani::cover!(r.is_none() && !is_long && n > 0);
    }
    //@harness fns=Hmtx::advance,Hmtx::side_bearing,hmtx::advance,hmtx::side_bearing bound="any bytes <=16 B, numberOfHMetrics and numGlyphs any u16, any glyph id"
    #[kani::proof]
    #[kani::unwind(8)]
    fn hmtx_total_and_spec() {
        let buf: [u8; 16] = kani::any();
        let len: usize = kani::any();
        kani::assume(len <= 16);
        let nhm: u16 = kani::any();
        let ng: u16 = kani::any();
        let Ok(h) = Hmtx::read(FontData::new(&buf[..len]), nhm, ng) else { return; };
        let gid = GlyphId::new(kani::any());
        let g = gid.to_u32() as usize;
        let n = nhm as usize;
        let a = h.advance(gid);
        // the advance of glyph g is that of long metric g, or of the LAST long metric for the glyphs beyond
        if n == 0 { assert!(a.is_none()); } else {
            let k = if g < n { g } else { n - 1 };
            assert!(a == Some(((buf[4 * k] as u16) << 8) | buf[4 * k + 1] as u16));
        }
        let sb = h.side_bearing(gid);
        if g < n { assert!(sb == Some((((buf[4 * g + 2] as u16) << 8) | buf[4 * g + 3] as u16) as i16)); }
        else {
            // the extra side bearings declared by numGlyphs - numberOfHMetrics
            let extra = (ng as usize).saturating_sub(n);
            let j = g - n;
            assert!(sb.is_some() == (j < extra));
            if let Some(v) = sb { let o = 4 * n + 2 * j; assert!(v == ((((buf[o] as u16) << 8) | buf[o + 1] as u16) as i16)); }
        }
        kani::cover!(n == 2 && g == 5 && sb.is_some());
        kani::cover!(n == 1 && g == 0);
    }
    //@harness fns=PackedDeltas::consume_all,PackedDeltas::iter,DeltaRunIter::next tier=thorough timeout=2400 bound="any bytes <=6 B; the iteration is followed to its end"
    #[kani::proof]
    #[kani::unwind(70)]
    fn packed_deltas_iter_total() {
        let buf: [u8; 6] = kani::any();
        let len: usize = kani::any();
        kani::assume(len <= 6);
        // keep zero runs short so that the run-length loop stays small for the model checker (a zero run may declare up to 64)
        kani::assume(buf[0] & 0x3F < 4 && buf[1] & 0x3F < 4 && buf[2] & 0x3F < 4 && buf[3] & 0x3F < 4 && buf[4] & 0x3F < 4 && buf[5] & 0x3F < 4);
        let d = PackedDeltas::consume_all(FontData::new(&buf[..len]));
        let mut it = d.iter();
        let mut n = 0;
        while n < 30 {
            if it.next().is_none() { break; }
            n += 1;
        }
        assert!(n < 30); // ends: at most 6 runs of at most 4 values
        kani::cover!(n >= 5);
    }
    //@harness fns=PackedPointNumbers::split_off_front,PackedPointNumbers::iter,PackedPointNumbersIter::next tier=thorough timeout=2400 bound="any bytes <=6 B; iteration followed to its end"
    #[kani::proof]
    #[kani::unwind(12)]
    fn packed_point_numbers_total() {
        let buf: [u8; 6] = kani::any();
        let len: usize = kani::any();
        kani::assume(len <= 6);
        let (p, rest) = PackedPointNumbers::split_off_front(FontData::new(&buf[..len]));
        assert!(rest.len() <= len); // the remainder is a suffix of the input
        let mut it = p.iter();
        let mut n = 0;
        while n < 8 {
            if it.next().is_none() { break; }
            n += 1;
        }
        kani::cover!(n >= 2);
        kani::cover!(n == 0 && len > 0);
    }
    //@harness fns=Post::read,Post::num_names,Post::glyph_name tier=thorough timeout=2400 bound="any bytes <=40 B, any glyph id"
    #[kani::proof]
    #[kani::unwind(10)]
    fn post_glyph_name_total() {
        let buf: [u8; 40] = kani::any();
        let len: usize = kani::any();
        kani::assume(len <= 40);
        let Ok(p) = Post::read(FontData::new(&buf[..len])) else { return; };
        let _ = p.num_names();
        let gid = GlyphId16::new(kani::any());
        let name = p.glyph_name(gid);
        kani::cover!(name.is_some() && buf[0] == 0 && buf[1] == 2);
        kani::cover!(name.is_none());
    }
    //@harness fns=Name::read,NameRecord::string,NameString::chars,CharIter::next bound="any bytes <=30 B, first record, first 3 characters" timeout=1200
    #[kani::proof]
    #[kani::unwind(6)]
    fn name_string_chars_total() {
        let buf: [u8; 30] = kani::any();
        let len: usize = kani::any();
        kani::assume(len <= 30);
        let Ok(n) = Name::read(FontData::new(&buf[..len])) else { return; };
        let recs = n.name_record();
        if recs.is_empty() { return; }
        let Ok(s) = recs[0].string(n.string_data()) else { return; };
        let mut it = s.chars();
        let a = it.next(); let b = it.next(); let c = it.next();
        kani::cover!(c.is_some());
        kani::cover!(a.is_some() && b.is_none());
    }
    // progress ("terminates within time proportional to the input"): a name string of L bytes yields at most L characters, in
    // every encoding, also when L is odd / the last UTF-16 unit is truncated or an unpaired surrogate
    //@harness fns=NameString::chars,CharIter::next,CharIter::bump_u16,CharIter::bump_u8 bound="any bytes <=30 B, first record, strings of <= 5 bytes" timeout=1200
    #[kani::proof]
    #[kani::unwind(9)]
    fn name_string_chars_count_bounded_by_length() {
        let buf: [u8; 30] = kani::any();
        let len: usize = kani::any();
        kani::assume(len <= 30);
        let Ok(n) = Name::read(FontData::new(&buf[..len])) else { return; };
        let recs = n.name_record();
        if recs.is_empty() { return; }
        let l = recs[0].length() as usize;
        kani::assume(l <= 5);
        let Ok(s) = recs[0].string(n.string_data()) else { return; };
        let mut it = s.chars();
        let mut k = 0usize;
        while k <= 5 {
            if it.next().is_none() { break; }
            k += 1;
        }
        assert!(k <= l);
        kani::cover!(k == 5);
        kani::cover!(l == 3 && k == 1);
        kani::cover!(l == 3 && k == 3);
    }
}
