//@weave-into read-fonts/src/tables/glyf.rs
// C01 / C20 (U01.5g): hand-written simple-glyph point decoding on arbitrary bytes: SimpleGlyph::read_points_fast
// and the PointIter behind SimpleGlyph::points never panic (no index out of range, no overflow) whatever the
// flag / repeat / coordinate bytes say.
#[cfg(kani)]
mod verif_glyf_points {
    use super::*;
    use crate::{FontData, FontRead};
    #[allow(unused_imports)]
    use std::{vec, vec::Vec};

    //@defaults unit=U01.5g props=C01,C20,C09 tier=quick level=bounded bound="any bytes <=24 B; glyphs declaring <=3 points for read_points_fast; for the iterator any bytes <=20 B, one contour, any declared point count (first 3 steps)" timeout=900
    //@harness fns=SimpleGlyph::read_points_fast,SimpleGlyph::num_points tier=thorough timeout=2400 bound="any bytes <=20 B, one contour declaring <=2 points"
    #[kani::proof]
    #[kani::unwind(6)]
    fn glyf_read_points_fast_total() {
        let buf: [u8; 20] = kani::any();
        let len: usize = kani::any();
        kani::assume(len <= 20);
        let Ok(g) = SimpleGlyph::read(FontData::new(&buf[..len])) else { return; };
        kani::assume(g.end_pts_of_contours().len() <= 1);
        let n = g.num_points();
        kani::assume(n <= 2);
        let mut points = [Point::<i32>::default(); 2];
        let mut flags = [PointFlags::default(); 2];
        let r = g.read_points_fast(&mut points[..n], &mut flags[..n]);
        kani::cover!(r.is_ok() && n == 2);
        kani::cover!(r.is_err() && n == 2);
    }
    //@harness fns=SimpleGlyph::points,PointIter::next,PointIter::advance_flags,PointIter::advance_points,resolve_coords_len
    #[kani::proof]
    #[kani::unwind(8)]
    fn glyf_point_iter_total() {
        let buf: [u8; 20] = kani::any();
        let len: usize = kani::any();
        kani::assume(len <= 20);
        let Ok(g) = SimpleGlyph::read(FontData::new(&buf[..len])) else { return; };
        kani::assume(g.end_pts_of_contours().len() <= 1);
        let mut it = g.points();
        let a = it.next();
        let b = it.next();
        let c = it.next();
        kani::cover!(c.is_some());
        kani::cover!(a.is_none());
        kani::cover!(a.is_some() && g.num_points() > 255);
    }

    //@harness unit=U09.5 props=C09,C01 tier=quick level=bounded bound="any bytes <=34 B; first 3 components" timeout=900 fns=CompositeGlyph::components,CompositeGlyph::component_glyphs_and_flags,CompositeGlyph::count_and_instructions,ComponentIter::next,ComponentGlyphIdFlagsIter::next note="the full component iterator and the fast (glyph id, flags) iterator walk the same records: same ids, same flags, same count, on arbitrary bytes; the first component's fields are the big-endian fields the format prescribes"
    #[kani::proof]
    #[kani::unwind(6)]
    fn composite_component_iterators_agree() {
        let buf: [u8; 34] = kani::any();
        let len: usize = kani::any();
        kani::assume(len <= 34);
        let Ok(g) = CompositeGlyph::read(FontData::new(&buf[..len])) else { return; };
        let mut a = g.components();
        let mut b = g.component_glyphs_and_flags();
        let mut n = 0;
        while n < 3 {
            let (x, y) = (a.next(), b.next());
            match (&x, &y) {
                (Some(c), Some((gid, fl))) => { assert!(c.glyph == *gid && c.flags == *fl); }
                (None, None) => break,
                // the fast iterator skips argument bytes without reading them, so it may yield a last record whose
                // arguments are truncated; it must never yield fewer records than the full one
                (None, Some(_)) => break,
                (Some(_), None) => assert!(false),
            }
            if n == 0 {
                if let Some(c) = &x {
                    // component records start after the 10-byte glyph header: flags u16, glyph id u16, then arguments
                    assert!(c.flags.bits() == (((buf[10] as u16) << 8) | buf[11] as u16) & CompositeGlyphFlags::all().bits());
                    assert!(c.glyph.to_u16() == ((buf[12] as u16) << 8) | buf[13] as u16);
                }
            }
            n += 1;
        }
        let (count, _instr) = g.count_and_instructions();
        if n < 3 && len <= 34 { assert!(count >= n); }
        kani::cover!(n == 3);
        kani::cover!(n == 1);
    }
}
