//@weave-into read-fonts/src/tables/postscript/stack.rs
// C01 / C20: the CFF/CFF2 operand stack (every charstring and DICT operator goes through it). All operations are total on
// every stack state (any depth 0..=513, any contents, any int/fixed tags) and keep the depth invariant top <= 513; the blend
// operator, whose operand count comes from the font, refuses instead of overflowing or indexing out of range.
#[cfg(kani)]
mod verif_ps_stack {
    use super::*;
    use crate::{FontData, FontRead};
    use types::F2Dot14;

    // every depth, every value; int/fixed tags symbolic at positions 0..=6 and at three further arbitrary positions (a
    // [bool; 513] cannot be made fully symbolic without a 513-iteration validity loop that CBMC would have to unroll)
    fn any_stack(max_top: usize) -> Stack {
        let mut tags = [false; MAX_STACK];
        tags[0] = kani::any(); tags[1] = kani::any(); tags[2] = kani::any(); tags[3] = kani::any();
        tags[4] = kani::any(); tags[5] = kani::any(); tags[6] = kani::any();
        let (j1, j2, j3): (usize, usize, usize) = kani::any();
        kani::assume(j1 < MAX_STACK && j2 < MAX_STACK && j3 < MAX_STACK);
        tags[j1] = kani::any(); tags[j2] = kani::any(); tags[j3] = kani::any();
        let s = Stack { values: kani::any(), value_is_fixed: tags, top: kani::any() };
        kani::assume(s.top <= max_top);
        s
    }

    //@defaults unit=U01.7 props=C01,C20,C02 tier=quick level=bounded bound="every depth 0..=513 and every value; int/fixed tags symbolic at positions 0..=6 and at three arbitrary further positions, false elsewhere" timeout=900
    //@harness fns=Stack::push,Stack::push_impl,Stack::pop,Stack::pop_i32,Stack::pop_fixed,Stack::get_i32,Stack::get_fixed,Stack::len,Stack::is_empty,Stack::clear,Stack::verify_exact_len,Stack::verify_at_least_len,Stack::len_is_odd
    #[kani::proof]
    fn ps_stack_push_pop_get_total() {
        let mut s = any_stack(MAX_STACK);
        let t0 = s.top;
        let v: i32 = kani::any();
        let r = if kani::any() { s.push(v) } else { s.push(Fixed::from_bits(v)) };
        assert!(r.is_ok() == (t0 < MAX_STACK));
        assert!(s.top == if t0 < MAX_STACK { t0 + 1 } else { t0 } && s.top <= MAX_STACK);
        if r.is_ok() { assert!(s.values[t0] == v); }
        let i: usize = kani::any();
        let g = s.get_i32(i);
        let f = s.get_fixed(i);
        assert!(f.is_ok() == (i < MAX_STACK));
        if let Ok(x) = g { assert!(i < MAX_STACK && !s.value_is_fixed[i] && x == s.values[i]); }
        let t1 = s.top;
        let p = if kani::any() { s.pop_i32().map(|_| ()) } else { s.pop_fixed().map(|_| ()) };
        if t1 == 0 { assert!(p.is_err() && s.top == 0); } else { assert!(s.top == t1 - 1); }
        assert!(s.len() == s.top && s.is_empty() == (s.top == 0) && s.len_is_odd() == (s.top % 2 == 1));
        let n: usize = kani::any();
        assert!(s.verify_exact_len(n).is_ok() == (s.top == n));
        assert!(s.verify_at_least_len(n).is_ok() == (s.top >= n));
        s.clear();
        assert!(s.top == 0);
        assert!(s.pop_i32().is_err() && s.pop_fixed().is_err() && s.top == 0);
        kani::cover!(t0 == MAX_STACK);
        kani::cover!(t1 == 1);
        kani::cover!(g.is_ok());
    }
    //@harness fns=Stack::fixed_array
    #[kani::proof]
    #[kani::unwind(6)]
    fn ps_stack_fixed_array_total() {
        let s = any_stack(MAX_STACK);
        let first: usize = kani::any();
        let r = s.fixed_array::<4>(first);
        // usize arithmetic on the caller's index must not overflow either
        assert!(r.is_ok() == (first < s.top && first as u128 + 4 <= s.top as u128));
        if let Ok(a) = r {
            let k: usize = kani::any();
            kani::assume(k < 4);
            let want = if s.value_is_fixed[first + k] { Fixed::from_bits(s.values[first + k]) } else { Fixed::from_i32(s.values[first + k]) };
            assert!(a[k] == want);
        }
        kani::cover!(r.is_ok());
        kani::cover!(first == usize::MAX);
    }
    //@harness fns=Stack::reverse,Stack::apply_delta_prefix_sum,Stack::fixed_values,Stack::number_values level=bounded bound="depth <= 6, any contents" unit=U01.7b
    #[kani::proof]
    #[kani::unwind(8)]
    fn ps_stack_reverse_prefix_sum_small() {
        let mut s = any_stack(6);
        let t = s.top;
        let (v0, f0) = (s.values, s.value_is_fixed);
        s.reverse();
        assert!(s.top == t);
        let k: usize = kani::any();
        kani::assume(k < t);
        assert!(s.values[k] == v0[t - 1 - k] && s.value_is_fixed[k] == f0[t - 1 - k]);
        s.apply_delta_prefix_sum();
        assert!(s.top == t);
        let mut n = 0;
        for _ in s.fixed_values() { n += 1; }
        assert!(n == t);
        let mut m = 0;
        for _ in s.number_values() { m += 1; }
        assert!(m == t);
        kani::cover!(t == 6);
    }

    // ItemVariationStore with one axis, one region (0, 1.0, 1.0) and one data subtable referencing that region
    const IVS: [u8; 30] = [
        0, 1, 0, 0, 0, 12, 0, 1, 0, 0, 0, 22, // format, region list offset, data count, data offset
        0, 1, 0, 1, 0, 0, 0x40, 0, 0x40, 0, // axis count, region count, (start, peak, end)
        0, 0, 0, 0, 0, 1, 0, 0, // item count, word delta count, region index count, region index 0
    ];
    //@harness fns=Stack::apply_blend level=bounded bound="depth <= 3, any contents and tags; variation store with one region (concrete), one concrete coordinate (0.5)" unit=U01.7b tier=thorough timeout=1800
    #[kani::proof]
    #[kani::unwind(5)]
    fn ps_stack_apply_blend_total() {
        let store = crate::tables::variations::ItemVariationStore::read(FontData::new(&IVS)).unwrap();
        let coords = [F2Dot14::from_bits(0x2000)];
        let bs = BlendState::new(store, &coords, 0).unwrap();
        assert!(bs.region_count().unwrap() == 1);
        let mut s = any_stack(3);
        let t = s.top;
        let cnt = if t > 0 { s.values[t - 1] } else { 0 };
        let cnt_is_int = t > 0 && !s.value_is_fixed[t - 1];
        let r = s.apply_blend(&bs);
        assert!(s.top <= MAX_STACK);
        if let Ok(()) = r {
            // count operand popped; `count` targets and `count` deltas consumed; the targets remain
            assert!(cnt_is_int && cnt >= 0 && 2 * (cnt as usize) <= t - 1);
            assert!(s.top == t - 1 - cnt as usize);
        } else {
            assert!(!(cnt_is_int && cnt >= 0 && 2 * (cnt as usize) <= t - 1));
        }
        kani::cover!(r.is_ok() && cnt == 1);
        kani::cover!(r.is_err() && cnt_is_int && cnt < 0);
    }
}
