//@weave-into read-fonts/src/font_data.rs
//@uses check_in_bounds
// C01 (U01.1 / U01.2): the byte-access primitives every parser is built on. For every offset / count / range
// over the WHOLE usize domain (so every wrap-around is covered) and every buffer of symbolic length <= 24:
// a read is Ok/Some exactly when it lies inside the buffer, yields the big-endian decoding of those bytes, and
// never panics; the cursor position is monotone and saturating, and position()/finish() succeed iff pos <= len
// (the invariant behind every unwrap() in the generated table getters).
#[cfg(kani)]
mod verif_c01_font_data {
    use super::*;
    use types::{Fixed, Tag, Uint24};
    #[allow(unused_imports)]
    use std::{vec, vec::Vec};
    const N: usize = 24;

    fn any_data(buf: &[u8; N]) -> (FontData<'_>, usize) {
        let len: usize = kani::any();
        kani::assume(len <= N);
        (FontData::new(&buf[..len]), len)
    }

    //@defaults unit=U01.1 props=C01,C20 tier=quick level=bounded bound="buffer length symbolic <=24 B; offsets, counts, ranges over all of usize" timeout=600
    //@harness fns=FontData::read_at,FontData::read_be_at
    #[kani::proof]
    #[kani::unwind(10)]
    fn fd_read_at_scalars() {
        let buf: [u8; N] = kani::any();
        let (d, len) = any_data(&buf);
        let off: usize = kani::any();
        let in2 = off <= len && len - off >= 2;
        let in3 = off <= len && len - off >= 3;
        let in4 = off <= len && len - off >= 4;
        let in8 = off <= len && len - off >= 8;
        let r8 = d.read_at::<u8>(off);
        assert!(r8.is_ok() == (off < len));
        if let Ok(v) = r8 { assert!(v == buf[off]); } else { assert!(matches!(r8, Err(ReadError::OutOfBounds))); }
        let r16 = d.read_at::<u16>(off);
        assert!(r16.is_ok() == in2);
        if let Ok(v) = r16 { assert!(v == ((buf[off] as u16) << 8) | buf[off + 1] as u16); }
        let ri16 = d.read_at::<i16>(off);
        if let Ok(v) = ri16 { assert!(v as u16 == ((buf[off] as u16) << 8) | buf[off + 1] as u16); }
        let r24 = d.read_at::<Uint24>(off);
        assert!(r24.is_ok() == in3);
        if let Ok(v) = r24 { assert!(v.to_u32() == ((buf[off] as u32) << 16) | ((buf[off + 1] as u32) << 8) | buf[off + 2] as u32); }
        let r32 = d.read_at::<u32>(off);
        assert!(r32.is_ok() == in4);
        if let Ok(v) = r32 { assert!(v == u32::from_be_bytes([buf[off], buf[off + 1], buf[off + 2], buf[off + 3]])); }
        let rf = d.read_at::<Fixed>(off);
        assert!(rf.is_ok() == in4);
        if let Ok(v) = rf { assert!(v.to_bits() == i32::from_be_bytes([buf[off], buf[off + 1], buf[off + 2], buf[off + 3]])); }
        let rt = d.read_at::<Tag>(off);
        assert!(rt.is_ok() == in4);
        let r64 = d.read_at::<i64>(off);
        assert!(r64.is_ok() == in8);
        let b16 = d.read_be_at::<u16>(off);
        assert!(b16.is_ok() == in2);
        if let Ok(v) = b16 { assert!(v.get() == ((buf[off] as u16) << 8) | buf[off + 1] as u16); }
        let b32 = d.read_be_at::<u32>(off);
        assert!(b32.is_ok() == in4);
        kani::cover!(off > usize::MAX - 2);
        kani::cover!(in8);
        kani::cover!(off == len && len > 0);
    }
    //@harness fns=FontData::split_off,FontData::slice,FontData::take_up_to,FontData::len,FontData::is_empty,FontData::as_bytes
    #[kani::proof]
    #[kani::unwind(10)]
    fn fd_split_slice_take() {
        let buf: [u8; N] = kani::any();
        let (mut d, len) = any_data(&buf);
        assert!(d.len() == len && d.is_empty() == (len == 0));
        let pos: usize = kani::any();
        let s = d.split_off(pos);
        assert!(s.is_some() == (pos <= len));
        if let Some(s) = s { assert!(s.len() == len - pos); if pos < len { assert!(s.as_bytes()[0] == buf[pos]); } }
        let a: usize = kani::any(); let b: usize = kani::any();
        let sl = d.slice(a..b);
        assert!(sl.is_some() == (a <= b && b <= len));
        if let Some(sl) = sl { assert!(sl.len() == b - a); if a < b { assert!(sl.as_bytes()[0] == buf[a] && sl.as_bytes()[b - a - 1] == buf[b - 1]); } }
        let sl2 = d.slice(a..=b);
        assert!(sl2.is_some() == (a <= b && b < len || (b < usize::MAX && a == b + 1 && a <= len)));
        let sl3 = d.slice(a..);
        assert!(sl3.is_some() == (a <= len));
        let t = d.take_up_to(pos);
        assert!(t.is_some() == (pos <= len));
        if let Some(t) = t { assert!(t.len() == pos && d.len() == len - pos); } else { assert!(d.len() == len); }
        kani::cover!(a > b);
        kani::cover!(pos == len && len == N);
    }
    //@harness fns=FontData::read_array,FontData::read_ref_at,FontData::check_in_bounds
    #[kani::proof]
    #[kani::unwind(10)]
    fn fd_read_array_ref() {
        let buf: [u8; N] = kani::any();
        let (d, len) = any_data(&buf);
        let a: usize = kani::any(); let b: usize = kani::any();
        let r = d.read_array::<BigEndian<u16>>(a..b);
        let inside = a <= b && b <= len;
        match r {
            Ok(s) => { assert!(inside && (b - a) % 2 == 0 && s.len() == (b - a) / 2); if b - a >= 2 { assert!(s[0].get() == ((buf[a] as u16) << 8) | buf[a + 1] as u16); } }
            Err(ReadError::OutOfBounds) => assert!(!inside),
            Err(ReadError::InvalidArrayLen) => assert!(inside && (b - a) % 2 != 0),
            Err(_) => assert!(false),
        }
        let r4 = d.read_array::<BigEndian<u32>>(a..b);
        match r4 {
            Ok(s) => assert!(inside && (b - a) % 4 == 0 && s.len() == (b - a) / 4),
            Err(ReadError::OutOfBounds) => assert!(!inside),
            Err(ReadError::InvalidArrayLen) => assert!(inside && (b - a) % 4 != 0),
            Err(_) => assert!(false),
        }
        let r1 = d.read_array::<u8>(a..b);
        assert!(r1.is_ok() == inside);
        let off: usize = kani::any();
        let rr = d.read_ref_at::<BigEndian<u32>>(off);
        assert!(rr.is_ok() == (off <= len && len - off >= 4));
        if let Ok(v) = rr { assert!(v.get() == u32::from_be_bytes([buf[off], buf[off + 1], buf[off + 2], buf[off + 3]])); }
        assert!(d.check_in_bounds(off).is_ok() == (off <= len));
        kani::cover!(inside && (b - a) == 6);
        kani::cover!(a > usize::MAX - 3);
    }

    //@defaults unit=U01.2 props=C01,C20 tier=quick level=bounded bound="buffer length symbolic <=24 B; every advance amount / element count over all of usize" timeout=600
    //@harness fns=Cursor::advance,Cursor::advance_by,Cursor::read,Cursor::read_be,Cursor::position,Cursor::remaining_bytes,Cursor::remaining,Cursor::is_empty,Cursor::finish
    #[kani::proof]
    #[kani::unwind(10)]
    fn cursor_contract() {
        let buf: [u8; N] = kani::any();
        let (d, len) = any_data(&buf);
        let mut c = d.cursor();
        assert!(c.pos == 0);
        let n1: usize = kani::any();
        c.advance_by(n1);
        assert!(c.pos == n1); // 0.saturating_add(n1)
        let p0 = c.pos;
        let r = c.read::<u16>();
        // position is monotone and saturating, whether or not the read succeeded
        assert!(c.pos == p0.saturating_add(2));
        assert!(r.is_ok() == (p0 <= len && len - p0 >= 2));
        if let Ok(v) = r { assert!(v == ((buf[p0] as u16) << 8) | buf[p0 + 1] as u16); }
        let p1 = c.pos;
        let rb = c.read_be::<u32>();
        assert!(c.pos == p1.saturating_add(4) && rb.is_ok() == (p1 <= len && len - p1 >= 4));
        c.advance::<Uint24>();
        let p2 = c.pos;
        assert!(p2 == p1.saturating_add(4).saturating_add(3) && p2 >= p1);
        let pos = c.position();
        assert!(pos.is_ok() == (p2 <= len));
        if let Ok(p) = pos { assert!(p == p2); }
        assert!(c.remaining_bytes() == len.saturating_sub(p2));
        assert!(c.is_empty() == (p2 >= len));
        assert!(c.remaining().is_some() == (p2 <= len));
        let f = c.finish(());
        assert!(f.is_ok() == (p2 <= len));
        kani::cover!(n1 > usize::MAX - 3);
        kani::cover!(p2 == len && len > 9);
        kani::cover!(p2 > len && p0 < len);
    }
    //@harness fns=Cursor::read_array,Cursor::read_u32_var
    #[kani::proof]
    #[kani::unwind(10)]
    fn cursor_read_array_u32var() {
        let buf: [u8; N] = kani::any();
        let (d, len) = any_data(&buf);
        let mut c = d.cursor();
        let start: usize = kani::any();
        kani::assume(start <= N + 2);
        c.advance_by(start);
        let n: usize = kani::any();
        let r = c.read_array::<BigEndian<u16>>(n);
        let fits = n <= usize::MAX / 2 && start <= len && n * 2 <= len - start;
        assert!(r.is_ok() == fits);
        if let Ok(s) = r {
            assert!(s.len() == n && c.pos == start + 2 * n);
            if n > 0 { assert!(s[n - 1].get() == ((buf[start + 2 * n - 2] as u16) << 8) | buf[start + 2 * n - 1] as u16); }
        }
        assert!(c.pos >= start); // never moves backwards, even when the multiplication or addition would overflow
        // variable-length u32 (IFT): never panics, consumes 1..=5 bytes on success
        let mut c2 = d.cursor();
        let before = c2.pos;
        let v = c2.read_u32_var();
        if v.is_ok() { assert!(c2.pos > before && c2.pos - before <= 5 && c2.pos <= len); }
        if len == 0 { assert!(v.is_err()); }
        if len > 0 && buf[0] < 0x80 { assert!(matches!(v, Ok(x) if x == buf[0] as u32)); }
        kani::cover!(n > usize::MAX / 2);
        kani::cover!(fits && n == 3);
        kani::cover!(v.is_ok() && c2.pos == 5);
    }

    // ---- modular step: check_in_bounds carries a woven kani::ensures contract (kani/read-fonts/contracts.json);
    // it is proved once against its body, and position()/finish() are then verified against the CONTRACT only
    impl kani::Arbitrary for ReadError {
        fn any() -> Self {
            match kani::any::<u8>() % 4 {
                0 => ReadError::OutOfBounds,
                1 => ReadError::InvalidArrayLen,
                2 => ReadError::ValidationError,
                _ => ReadError::NullOffset,
            }
        }
    }
    //@harness unit=U01.2m props=C01 tier=quick level=bounded bound="buffer length symbolic <=24 B, offset over all of usize" timeout=300 fns=FontData::check_in_bounds contract=check_in_bounds
    #[kani::proof_for_contract(FontData::check_in_bounds)]
    fn check_in_bounds_contract() {
        let buf: [u8; N] = kani::any();
        let (d, _len) = any_data(&buf);
        let off: usize = kani::any();
        let _ = d.check_in_bounds(off);
        kani::cover!(true);
    }
    //@harness unit=U01.2m props=C01 tier=quick level=bounded bound="buffer length symbolic <=24 B, any advance" timeout=300 fns=Cursor::position,Cursor::finish note="callers verified against the callee's contract (kani::stub_verified), not its body"
    #[kani::proof]
    #[kani::stub_verified(FontData::check_in_bounds)]
    fn cursor_position_finish_modular() {
        let buf: [u8; N] = kani::any();
        let (d, len) = any_data(&buf);
        let mut c = d.cursor();
        let n: usize = kani::any();
        c.advance_by(n);
        let p = c.position();
        assert!(p.is_ok() == (n <= len));
        if let Ok(p) = p { assert!(p == n); }
        assert!(c.finish(()).is_ok() == (n <= len));
        kani::cover!(n > len);
        kani::cover!(n == len);
    }
}
