//@weave-into read-fonts/src/lib.rs
//@modpath -
// C01 / C20 (second batch of hand-written lookup helpers): each table is parsed from ARBITRARY bytes of symbolic length and
// its helper is called with arbitrary arguments: no panic, no arithmetic overflow (Kani instruments the overflow checks of
// the fuzzing configuration), and where the format fixes the answer, that answer.
#[cfg(kani)]
mod verif_c01_helpers2 {
    use crate::{FontData, FontRead};
    use types::GlyphId;

    fn bytes<const N: usize>() -> ([u8; N], usize) {
        let b: [u8; N] = kani::any();
        let len: usize = kani::any();
        kani::assume(len <= N);
        (b, len)
    }

    //@defaults unit=U01.8 props=C01,C20,C02 tier=quick level=bounded bound="any table bytes <= 16..28 B (per harness), any glyph id / index" timeout=900
    //@harness fns=postscript::Index::new,Index::count,Index::get_offset,Index::get,Index::size_in_bytes,Index::subr_bias,Index::off_size,read_offset bound="any bytes <= 14 B, CFF and CFF2 headers, any index"
    #[kani::proof]
    #[kani::unwind(8)]
    fn ps_index_total() {
        use crate::tables::postscript::Index;
        let (b, len) = bytes::<14>();
        let Ok(ix) = Index::new(&b[..len], kani::any()) else { return; };
        let i: usize = kani::any();
        let _ = ix.count();
        let _ = ix.subr_bias();
        let _ = ix.off_size();
        let _ = ix.size_in_bytes();
        let off = ix.get_offset(i);
        let item = ix.get(i);
        if let Ok(s) = &item { assert!(s.len() <= len && (i as u64) < ix.count() as u64 && off.is_ok()); }
        kani::cover!(item.is_ok());
        kani::cover!(item.is_err() && ix.count() > 0);
    }
    //@harness fns=FdSelect::font_index bound="any bytes <= 16 B (formats 0, 3, 4), any glyph id"
    #[kani::proof]
    #[kani::unwind(8)]
    fn fd_select_total() {
        use crate::tables::postscript::FdSelect;
        let (b, len) = bytes::<16>();
        let Ok(fds) = FdSelect::read(FontData::new(&b[..len])) else { return; };
        let g: u32 = kani::any();
        let r = fds.font_index(GlyphId::new(g));
        kani::cover!(r.is_some());
        kani::cover!(r.is_none());
    }
    //@harness fns=Svg::glyph_data bound="any bytes <= 26 B (one document record), any glyph id"
    #[kani::proof]
    #[kani::unwind(6)]
    fn svg_glyph_data_total() {
        use crate::tables::svg::Svg;
        let (b, len) = bytes::<26>();
        let Ok(t) = Svg::read(FontData::new(&b[..len])) else { return; };
        let g: u32 = kani::any();
        let r = t.glyph_data(GlyphId::new(g));
        if let Ok(Some(d)) = &r { assert!(d.len() <= len); }
        kani::cover!(matches!(r, Ok(Some(_))));
        kani::cover!(matches!(r, Ok(None)));
    }
    //@harness fns=Strike::glyph_data bound="strike of any bytes <= 20 B, numGlyphs <= 3, any glyph id"
    #[kani::proof]
    #[kani::unwind(6)]
    fn sbix_strike_glyph_data_total() {
        use crate::tables::sbix::Strike;
        use crate::FontReadWithArgs;
        let (b, len) = bytes::<20>();
        let n: u16 = kani::any();
        kani::assume(n <= 3);
        let Ok(s) = Strike::read_with_args(FontData::new(&b[..len]), &n) else { return; };
        let g: u32 = kani::any();
        let r = s.glyph_data(GlyphId::new(g));
        kani::cover!(matches!(r, Ok(Some(_))));
        kani::cover!(r.is_err());
    }
    //@harness fns=Vorg::vertical_origin_y bound="any bytes <= 16 B (<= 2 records), any glyph id"
    #[kani::proof]
    #[kani::unwind(6)]
    fn vorg_total_and_spec() {
        use crate::tables::vorg::Vorg;
        let (b, len) = bytes::<16>();
        let Ok(t) = Vorg::read(FontData::new(&b[..len])) else { return; };
        let g: u32 = kani::any();
        let y = t.vertical_origin_y(GlyphId::new(g));
        let m = t.vert_origin_y_metrics();
        // with sorted records the answer is the record's value, or the default when the glyph has no record
        if m.len() == 2 && m[0].glyph_index().to_u32() < m[1].glyph_index().to_u32() {
            let want = if g == m[0].glyph_index().to_u32() { m[0].vert_origin_y() }
                else if g == m[1].glyph_index().to_u32() { m[1].vert_origin_y() } else { t.default_vert_origin_y() };
            assert!(y == want);
        }
        kani::cover!(m.len() == 2 && y != t.default_vert_origin_y());
    }
    //@harness fns=Hdmx::record_for_size,DeviceRecord::read_with_args bound="any bytes <= 20 B, numGlyphs <= 2, any size"
    #[kani::proof]
    #[kani::unwind(8)]
    fn hdmx_record_for_size_total() {
        use crate::tables::hdmx::Hdmx;
        use crate::FontReadWithArgs;
        let (b, len) = bytes::<20>();
        let n: u16 = kani::any();
        kani::assume(n <= 2);
        let Ok(t) = Hdmx::read_with_args(FontData::new(&b[..len]), &n) else { return; };
        let size: u8 = kani::any();
        let r = t.record_for_size(size);
        if let Some(rec) = &r { assert!(rec.pixel_size() == size && rec.widths().len() == n as usize); }
        kani::cover!(r.is_some());
        kani::cover!(r.is_none());
    }
    //@harness fns=SegmentMaps::apply bound="any bytes <= 14 B (<= 3 axis value maps), any coordinate" timeout=1800 tier=thorough
    #[kani::proof]
    #[kani::unwind(6)]
    fn avar_segment_maps_apply_total() {
        use crate::tables::avar::SegmentMaps;
        let (b, len) = bytes::<14>();
        let Ok(t) = SegmentMaps::read(FontData::new(&b[..len])) else { return; };
        let c: i32 = kani::any();
        let coord = types::Fixed::from_bits(c);
        let r = t.apply(coord);
        let maps = t.axis_value_maps();
        // exact at a map's from-coordinate (first match), identity when there are no maps
        if maps.is_empty() { assert!(r == coord); }
        if !maps.is_empty() && maps[0].from_coordinate().to_fixed() == coord { assert!(r == maps[0].to_coordinate().to_fixed()); }
        kani::cover!(maps.len() == 3);
    }
    //@harness fns=Gvar::data_for_gid,Gvar::data_range_for_gid,Gvar::glyph_variation_data_for_range bound="any bytes <= 28 B, any glyph id, any range"
    #[kani::proof]
    #[kani::unwind(6)]
    fn gvar_data_for_gid_total() {
        use crate::tables::gvar::Gvar;
        let (b, len) = bytes::<28>();
        let Ok(t) = Gvar::read(FontData::new(&b[..len])) else { return; };
        let g: u32 = kani::any();
        let r = t.data_for_gid(GlyphId::new(g));
        if let Ok(Some(d)) = &r { assert!(d.len() <= len); }
        let (s, e): (usize, usize) = kani::any();
        let _ = t.glyph_variation_data_for_range(s..e);
        kani::cover!(matches!(r, Ok(Some(_))));
        kani::cover!(r.is_err());
    }
}
