//@weave-into read-fonts/src/tables/aat.rs
// C01 ("hand-written lookup helpers on a successfully read value never panic"), U01.13: the AAT lookup table (formats 0, 2, 4, 6, 8,
// 10) read from ARBITRARY bytes answers value(glyph) for every glyph id without panicking, for 16- and 32-bit values; a format 2 / 6
// answer is the value of a unit that contains the glyph; a format 0 answer is the big-endian word at the glyph's position.
#[cfg(kani)]
mod verif_c01_aat_lookup {
    use super::*;
    use crate::{FontData, FontRead};

    //@harness unit=U01.13 props=C01,C20 tier=quick level=bounded bound="any bytes <= 24 B (every format; <= 2 units of format 2 / 4 / 6), any glyph id, u16 and u32 values" timeout=1800 fns=Lookup::value,Lookup0::value,Lookup2::value,Lookup4::value,Lookup6::value,Lookup8::value,Lookup10::value,Lookup2::segments,Lookup6::entries
    #[kani::proof]
    #[kani::unwind(6)]
    fn aat_lookup_value_total() {
        let buf: [u8; 24] = kani::any();
        let len: usize = kani::any();
        kani::assume(len <= 24);
        let Ok(lookup) = Lookup::read(FontData::new(&buf[..len])) else { return; };
        let gid: u16 = kani::any();
        let v16 = lookup.value::<u16>(gid);
        let v32 = lookup.value::<u32>(gid);
        let be16 = |o: usize| u16::from_be_bytes([buf[o], buf[o + 1]]);
        match &lookup {
            Lookup::Format0(_) => {
                let pos = 2 + 2 * gid as usize;
                assert!(v16.is_ok() == (pos + 2 <= len));
                if let Ok(v) = v16 { assert!(v == be16(pos)); }
            }
            Lookup::Format2(t) => {
                if let Ok(v) = v16 {
                    // units of 6 bytes (last, first, value) start at byte 12
                    let n = t.n_units() as usize;
                    assert!(n >= 1);
                    let hit = |u: usize| u < n && 12 + 6 * u + 6 <= len && be16(12 + 6 * u + 2) <= gid && gid <= be16(12 + 6 * u) && be16(12 + 6 * u + 4) == v;
                    assert!(hit(0) || hit(1));
                }
            }
            Lookup::Format6(t) => {
                if let Ok(v) = v16 {
                    let n = t.n_units() as usize;
                    let hit = |u: usize| u < n && 12 + 4 * u + 4 <= len && be16(12 + 4 * u) == gid && be16(12 + 4 * u + 2) == v;
                    assert!(hit(0) || hit(1) || hit(2));
                }
            }
            _ => {}
        }
        kani::cover!(matches!(lookup, Lookup::Format2(_)) && v16.is_ok());
        kani::cover!(matches!(lookup, Lookup::Format2(_)) && v16.is_err() && be16(4) == 0);
        kani::cover!(matches!(lookup, Lookup::Format6(_)) && v16.is_ok());
        kani::cover!(matches!(lookup, Lookup::Format4(_)) && v32.is_ok());
        kani::cover!(matches!(lookup, Lookup::Format10(_)) && v32.is_ok());
        kani::cover!(matches!(lookup, Lookup::Format8(_)) && v16.is_ok());
    }
}
