//@weave-into read-fonts/src/tables/glyf.rs
// C09 (composite components survive writing): the flags the composite writer derives from a component's transform and anchor
// (U09.7, complete over every value). The transform form selected by Transform::compute_flags must be able to carry the transform:
// decoding the values that form writes (OpenType: none = identity, WE_HAVE_A_SCALE = xx for both axes, X_AND_Y_SCALE = xx and yy,
// TWO_BY_TWO = all four) gives back exactly the transform. Anchor::compute_flags selects word arguments exactly when a value does
// not fit the byte form, and ARGS_ARE_XY_VALUES exactly for offsets.
#[cfg(kani)]
mod verif_c09_component_flags {
    use super::*;

    //@defaults unit=U09.7 props=C09,C04 tier=quick level=complete timeout=600
    //@harness fns=Transform::compute_flags
    #[kani::proof]
    fn transform_flags_carry_the_transform() {
        let (xx, yx, xy, yy): (i16, i16, i16, i16) = kani::any();
        let t = Transform {
            xx: F2Dot14::from_bits(xx),
            yx: F2Dot14::from_bits(yx),
            xy: F2Dot14::from_bits(xy),
            yy: F2Dot14::from_bits(yy),
        };
        let flags = t.compute_flags();
        let one = F2Dot14::ONE.to_bits();
        // what a reader reconstructs from the form the flags select
        let decoded = if flags == CompositeGlyphFlags::WE_HAVE_A_TWO_BY_TWO {
            (xx, yx, xy, yy)
        } else if flags == CompositeGlyphFlags::WE_HAVE_AN_X_AND_Y_SCALE {
            (xx, 0, 0, yy)
        } else if flags == CompositeGlyphFlags::WE_HAVE_A_SCALE {
            (xx, 0, 0, xx)
        } else {
            assert!(flags == CompositeGlyphFlags::empty());
            (one, 0, 0, one)
        };
        assert!(decoded == (xx, yx, xy, yy));
        kani::cover!(flags == CompositeGlyphFlags::WE_HAVE_AN_X_AND_Y_SCALE && xx == one);
        kani::cover!(flags == CompositeGlyphFlags::empty());
        kani::cover!(flags == CompositeGlyphFlags::WE_HAVE_A_SCALE);
    }
    //@harness fns=Anchor::compute_flags
    #[kani::proof]
    fn anchor_flags_select_a_form_that_fits() {
        let (a, b): (u16, u16) = kani::any();
        let offset: bool = kani::any();
        let anchor = if offset { Anchor::Offset { x: a as i16, y: b as i16 } } else { Anchor::Point { base: a, component: b } };
        let flags = anchor.compute_flags();
        let words = flags.contains(CompositeGlyphFlags::ARG_1_AND_2_ARE_WORDS);
        assert!(flags.contains(CompositeGlyphFlags::ARGS_ARE_XY_VALUES) == offset);
        let fits_bytes = if offset {
            (a as i16) >= -128 && (a as i16) <= 127 && (b as i16) >= -128 && (b as i16) <= 127
        } else {
            a <= 255 && b <= 255
        };
        assert!(words == !fits_bytes);
        // no other bit is set
        assert!((flags - CompositeGlyphFlags::ARG_1_AND_2_ARE_WORDS - CompositeGlyphFlags::ARGS_ARE_XY_VALUES).is_empty());
        kani::cover!(offset && !words);
        kani::cover!(!offset && words);
    }
}
