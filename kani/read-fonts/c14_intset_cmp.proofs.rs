//@weave-into read-fonts/src/collections/int_set/mod.rs
// C14 (U14.4): ordering / equality of IntSet on mixed membership modes equals the lexicographic ordering / equality of the
// ascending member sequences. Sets over the u8 domain built from one range each and optionally inverted
// (so up to two effective ranges per operand, in either storage mode); invert() itself (U14.3k) is checked here too.
#[cfg(kani)]
mod verif_c14_intset_cmp {
    use super::*;
    use core::cmp::Ordering;
    #[allow(unused_imports)]
    use std::{vec, vec::Vec};

    fn mem(a: u8, b: u8, inv: bool, x: u8) -> bool { (a <= x && x <= b) != inv }

    //@defaults unit=U14.4 props=C14 tier=thorough level=bounded bound="u8 domain; s = one symbolic range stored inclusively, t = complement of one symbolic range stored exclusively" timeout=2400
    //@harness fns=IntSet::cmp,IntSet::eq,IntSet::invert,IntSet::insert_range,IntSet::iter_ranges
    #[kani::proof]
    #[kani::unwind(12)]
    fn intset_cmp_mixed_modes() {
        let (a1, b1, a2, b2): (u8, u8, u8, u8) = (kani::any(), kani::any(), kani::any(), kani::any());
        kani::assume(a1 <= b1 && a2 <= b2);
        // mixed storage modes: s stored inclusively, t stored as the complement of its range
        let (i1, i2): (bool, bool) = (false, true);
        let mut s: IntSet<u8> = IntSet::empty();
        s.insert_range(a1..=b1);
        if i1 { s.invert(); assert!(s.is_inverted()); }
        let mut t: IntSet<u8> = IntSet::empty();
        t.insert_range(a2..=b2);
        if i2 { t.invert(); }
        // membership after invert is the complement
        let q: u8 = kani::any();
        assert!(s.contains(q) == mem(a1, b1, i1, q));
        // x = a witness of the least element of the symmetric difference (if any)
        let x: u8 = kani::any();
        let differs = mem(a1, b1, i1, x) != mem(a2, b2, i2, x);
        let mut least = differs;
        let mut y: u16 = 0;
        while y < 256 {
            if (y as u8) < x && mem(a1, b1, i1, y as u8) != mem(a2, b2, i2, y as u8) { least = false; }
            y += 1;
        }
        let c = s.cmp(&t);
        if least {
            // sequences agree below x; the set containing x compares Less iff the other has some element above x
            let s_has = mem(a1, b1, i1, x);
            let mut other_has_more = false;
            let mut z: u16 = 0;
            while z < 256 {
                if (z as u8) > x && (if s_has { mem(a2, b2, i2, z as u8) } else { mem(a1, b1, i1, z as u8) }) { other_has_more = true; }
                z += 1;
            }
            let expect = if s_has { if other_has_more { Ordering::Less } else { Ordering::Greater } }
                         else { if other_has_more { Ordering::Greater } else { Ordering::Less } };
            assert!(c == expect);
            assert!(s != t);
        }
        kani::cover!(least && c == Ordering::Less);
        kani::cover!(least && c == Ordering::Greater);
    }
}
