//@weave-into read-fonts/src/tables.rs
//@features ift
// C01 / C20 / C19 (third batch of hand-written helpers, arbitrary table bytes): the IFT mapping-table helpers the patch
// selection reads (applied-entry bitmap, glyph map iteration, feature-map record sizes, glyph-keyed patch payload iteration)
// and the COLR v0 lookups.
#[cfg(all(kani, feature = "ift"))]
mod verif_c01_helpers3 {
    use crate::{FontData, FontRead, FontReadWithArgs};
    use types::GlyphId;

    fn bytes<const N: usize>() -> ([u8; N], usize) {
        let b: [u8; N] = kani::any();
        let len: usize = kani::any();
        kani::assume(len <= N);
        (b, len)
    }

    //@defaults unit=U01.9 props=C01,C20,C19 tier=quick level=bounded bound="any table bytes <= 20..48 B (per harness)" timeout=1200
    //@harness fns=PatchMapFormat1::is_entry_applied,PatchMapFormat1::entry_count,PatchMapFormat1::uri_template_as_string bound="any bytes <= 44 B; any entry index"
    #[kani::proof]
    #[kani::unwind(6)]
    fn ift_format1_applied_bit_spec() {
        use crate::tables::ift::PatchMapFormat1;
        let (b, len) = bytes::<44>();
        let Ok(t) = PatchMapFormat1::read(FontData::new(&b[..len])) else { return; };
        let e: u16 = kani::any();
        let applied = t.is_entry_applied(e);
        // the applied bit of entry e is bit (e mod 8) of byte e / 8 of the bitmap, false beyond its end
        let bm = t.applied_entries_bitmap();
        let want = match bm.get(e as usize / 8) { Some(byte) => byte & (1u8 << (e % 8)) != 0, None => false };
        assert!(applied == want);
        assert!(t.entry_count() == t.max_entry_index() as u32 + 1);
        kani::cover!(applied);
        kani::cover!(!applied && (e as usize / 8) < bm.len());
    }
    //@harness fns=PatchMapFormat1::gid_to_entry_iter,GidToEntryIter::next bound="any bytes <= 48 B with glyphCount <= 3; whole iteration" timeout=1800 tier=thorough
    #[kani::proof]
    #[kani::unwind(7)]
    fn ift_format1_glyph_map_iteration_total() {
        use crate::tables::ift::PatchMapFormat1;
        let (b, len) = bytes::<48>();
        let Ok(t) = PatchMapFormat1::read(FontData::new(&b[..len])) else { return; };
        kani::assume(t.glyph_count().to_u32() <= 3);
        let mut it = t.gid_to_entry_iter();
        let mut n = 0;
        let mut last: Option<u32> = None;
        while let Some((g, idx)) = it.next() {
            assert!(idx > 0 && g.to_u32() < t.glyph_count().to_u32());
            if let Some(l) = last { assert!(g.to_u32() > l); }
            last = Some(g.to_u32());
            n += 1;
            assert!(n <= 3);
        }
        kani::cover!(n > 0);
    }
    //@harness fns=FeatureMap::entry_records_size bound="any bytes <= 24 B, any max entry index"
    #[kani::proof]
    #[kani::unwind(8)]
    fn ift_feature_map_record_size_total() {
        use crate::tables::ift::FeatureMap;
        let (b, len) = bytes::<24>();
        let max: u16 = kani::any();
        let Ok(t) = FeatureMap::read_with_args(FontData::new(&b[..len]), &max) else { return; };
        let r = t.entry_records_size(max);
        if let Ok(n) = r { assert!(n % 2 == 0); }
        kani::cover!(matches!(r, Ok(n) if n > 0));
    }
    //@harness fns=GlyphPatches::glyph_data_for_table,GlyphDataIterator::next bound="any bytes <= 28 B, both id widths, any table index; first 2 items" timeout=1800
    #[kani::proof]
    #[kani::unwind(8)]
    fn ift_glyph_patches_iteration_total() {
        use crate::tables::ift::{GlyphKeyedFlags, GlyphPatches};
        let (b, len) = bytes::<28>();
        let flags = if kani::any() { GlyphKeyedFlags::WIDE_GLYPH_IDS } else { GlyphKeyedFlags::NONE };
        let Ok(t) = GlyphPatches::read_with_args(FontData::new(&b[..len]), &flags) else { return; };
        let ti: usize = kani::any();
        kani::assume(ti <= 255);
        let mut it = t.glyph_data_for_table(ti);
        let mut prev: Option<u32> = None;
        let mut n = 0;
        while n < 2 {
            match it.next() {
                Some(Ok((g, d))) => {
                    assert!(d.len() <= len);
                    if let Some(p) = prev { assert!(g.to_u32() > p); } // strictly ascending glyph ids or an error
                    prev = Some(g.to_u32());
                }
                Some(Err(_)) => { assert!(it.next().is_none()); break; }
                None => break,
            }
            n += 1;
        }
        kani::cover!(n == 2);
    }
    //@harness fns=Colr::v0_base_glyph,Colr::v0_layer bound="any bytes <= 34 B, any glyph id / layer index"
    #[kani::proof]
    #[kani::unwind(8)]
    fn colr_v0_lookups_total() {
        use crate::tables::colr::Colr;
        let (b, len) = bytes::<34>();
        let Ok(t) = Colr::read(FontData::new(&b[..len])) else { return; };
        let g: u32 = kani::any();
        let r = t.v0_base_glyph(GlyphId::new(g));
        if let Ok(Some(range)) = &r { assert!(range.start <= range.end && range.end - range.start <= 0xFFFF); }
        let i: usize = kani::any();
        let _ = t.v0_layer(i);
        kani::cover!(matches!(r, Ok(Some(_))));
    }
}
