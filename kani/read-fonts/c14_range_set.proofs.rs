//@weave-into read-fonts/src/collections/range_set.rs
// C14 range-set layer, the loop-free helpers under RangeSet::insert and RangeSet::intersection (U14.5k): the contracts the
// Verus unit U14.5 assumes for OrdAdjacency::are_adjacent are discharged here on the real impls for every pair of values of
// every element type the repository instantiates (u32, u16, Fixed); range_intersection / ranges_overlap_or_adjacent /
// range_is_subset against interval arithmetic in a wider integer type; one step of the intersection iterator.
#[cfg(kani)]
mod verif_c14_range_set {
    use super::*;

    //@defaults unit=U14.5k props=C14,C19 tier=quick level=complete timeout=600
    //@harness fns=OrdAdjacency(u32)::are_adjacent
    #[kani::proof]
    fn are_adjacent_u32_exact() {
        let a: u32 = kani::any();
        let b: u32 = kani::any();
        let want = (a as u64 + 1 == b as u64) || (b as u64 + 1 == a as u64);
        assert!(a.are_adjacent(b) == want);
        kani::cover!(a.are_adjacent(b));
        kani::cover!(a == u32::MAX && b == 0 && !a.are_adjacent(b));
    }
    //@harness fns=OrdAdjacency(u16)::are_adjacent
    #[kani::proof]
    fn are_adjacent_u16_exact() {
        let a: u16 = kani::any();
        let b: u16 = kani::any();
        let want = (a as u32 + 1 == b as u32) || (b as u32 + 1 == a as u32);
        assert!(a.are_adjacent(b) == want);
        kani::cover!(a.are_adjacent(b));
        kani::cover!(a == u16::MAX && b == 0 && !a.are_adjacent(b));
    }
    //@harness fns=OrdAdjacency(Fixed)::are_adjacent
    #[kani::proof]
    fn are_adjacent_fixed_exact() {
        let a: i32 = kani::any();
        let b: i32 = kani::any();
        let want = (a as i64 + 1 == b as i64) || (b as i64 + 1 == a as i64);
        assert!(Fixed::from_bits(a).are_adjacent(Fixed::from_bits(b)) == want);
        kani::cover!(Fixed::from_bits(a).are_adjacent(Fixed::from_bits(b)));
        kani::cover!(a == i32::MAX && b == i32::MIN);
    }
    //@harness fns=ranges_overlap_or_adjacent,range_is_subset
    #[kani::proof]
    fn overlap_or_adjacent_and_subset_spec() {
        let (a0, a1, b0, b1): (u32, u32, u32, u32) = kani::any();
        kani::assume(a0 <= a1 && b0 <= b1);
        // two non-empty intervals overlap or touch iff neither lies at least one free element away from the other
        let apart = (a1 as u64 + 1 < b0 as u64) || (b1 as u64 + 1 < a0 as u64);
        assert!(ranges_overlap_or_adjacent(a0, a1, b0, b1) == !apart);
        assert!(range_is_subset(a0, a1, b0, b1) == (b0 <= a0 && a1 <= b1));
        kani::cover!(apart);
        kani::cover!(!apart && a1 < b0);
        kani::cover!(a1 == u32::MAX && b0 == 0 && a0 as u64 > b1 as u64 + 1);
    }
    //@harness fns=range_intersection
    #[kani::proof]
    fn range_intersection_spec() {
        let (a0, a1, b0, b1): (u32, u32, u32, u32) = kani::any();
        let q: u32 = kani::any();
        let r = range_intersection(&(a0..=a1), &(b0..=b1));
        let in_a = a0 <= q && q <= a1;
        let in_b = b0 <= q && q <= b1;
        match &r {
            Some(i) => {
                assert!((*i.start() <= q && q <= *i.end()) == (in_a && in_b));
                assert!(i.start() <= i.end() || a0 > a1 || b0 > b1);
            }
            None => assert!(!(in_a && in_b)),
        }
        // for well-formed (non-empty) operands: Some exactly when they share a point
        if a0 <= a1 && b0 <= b1 {
            assert!(r.is_some() == (a0 <= b1 && b0 <= a1));
        }
        kani::cover!(r.is_some() && in_a && in_b);
        kani::cover!(r.is_none());
    }
    //@harness fns=RangeSet::intersection,IntersectionIter::next,IntersectionIter::step_iterators level=bounded bound="one range per operand, all u32 bounds; two ranges vs one range" unit=U14.5i timeout=900
    #[kani::proof]
    #[kani::unwind(6)]
    fn intersection_iter_small() {
        let (a0, a1, a2, a3, b0, b1): (u32, u32, u32, u32, u32, u32) = kani::any();
        let q: u32 = kani::any();
        // left operand: two sorted, disjoint, non-adjacent ranges (the RangeSet invariant); right operand: one range
        kani::assume(a0 <= a1 && a2 <= a3 && (a1 as u64) + 1 < a2 as u64 && b0 <= b1);
        let left = [a0..=a1, a2..=a3];
        let right = [b0..=b1];
        let mut it = IntersectionIter {
            it_a: left.iter().cloned().peekable(),
            it_b: right.iter().cloned().peekable(),
        };
        let in_left = (a0 <= q && q <= a1) || (a2 <= q && q <= a3);
        let in_right = b0 <= q && q <= b1;
        let mut hit = false;
        let mut last_end: Option<u32> = None;
        let mut n = 0;
        while let Some(r) = it.next() {
            assert!(r.start() <= r.end());
            if let Some(e) = last_end {
                assert!(e < *r.start()); // ascending, disjoint
            }
            last_end = Some(*r.end());
            if *r.start() <= q && q <= *r.end() {
                hit = true;
            }
            n += 1;
            assert!(n <= 2);
        }
        assert!(hit == (in_left && in_right));
        kani::cover!(n == 2);
        kani::cover!(n == 0);
    }
}
