//@weave-into read-fonts/src/collections/int_set/bitset.rs
// C14 middle layer (U14.2): BitSet operations against the mathematical set, on sets whose pages were created by
// the real insert() in EITHER order (so page_map order != pages order, the case compaction must handle).
// Bounded: two members per operand (up to 2 pages each); values symbolic within 3 pages.
#[cfg(kani)]
mod verif_c14_bitset {
    use super::*;
    #[allow(unused_imports)]
    use std::{vec, vec::Vec};

    fn any_val() -> u32 {
        let v: u32 = kani::any();
        kani::assume(v < 3 * 512);
        v
    }
    fn build(v1: u32, v2: u32) -> BitSet {
        let mut s = BitSet::empty();
        s.insert(v1);
        s.insert(v2);
        s
    }
    fn wf(s: &BitSet) -> bool {
        // page_map strictly sorted by major, indices within pages, cached length consistent
        let mut i = 0;
        let mut total = 0u64;
        while i < s.page_map.len() {
            if i + 1 < s.page_map.len() && s.page_map[i].major_value >= s.page_map[i + 1].major_value { return false; }
            if s.page_map[i].index as usize >= s.pages.len() { return false; }
            total += s.pages[s.page_map[i].index as usize].len() as u64;
            i += 1;
        }
        total == s.length
    }

    //@defaults unit=U14.2 props=C14 tier=quick level=bounded bound="sets of 2 members, members in 3 pages, pages created in either order" timeout=900
    //@harness fns=BitSet::insert,BitSet::contains,BitSet::len,BitSet::remove,BitSet::ensure_page_index_for_major
    #[kani::proof]
    #[kani::unwind(5)]
    fn bitset_insert_remove_contains() {
        let (v1, v2) = (any_val(), any_val());
        let mut s = build(v1, v2);
        assert!(wf(&s));
        let q = any_val();
        assert!(s.contains(q) == (q == v1 || q == v2));
        assert!(s.len() == if v1 == v2 { 1 } else { 2 });
        let r = s.remove(q);
        assert!(r == (q == v1 || q == v2));
        let p = any_val();
        assert!(s.contains(p) == ((p == v1 || p == v2) && p != q));
        kani::cover!(v1 / 512 > v2 / 512);
        kani::cover!(v1 / 512 == v2 / 512 && v1 != v2);
    }
    // NOTE: a harness for BitSet::iter_ranges / BitSetRangeIter (two stored pages, members at page edges) exhausted 16 GB in CBMC,
    // also with the set built as a struct literal; kept, unclaimed, in attic/c14_bitset_iter_ranges.proofs.rs.txt (seed C14-4 stays missed).
    // NOTE: harnesses for BitSet::{intersect, union, subtract, reversed_subtract} through the in-place page merge
    // `process` (two operands of two members each) exhausted CBMC's memory (> 16 GB, also with concrete page shapes) and
    // were removed: the page merge stays an ASSUMED contract in the IntSet proof (unit U14.3). Its compaction step is
    // covered below.
    //@harness fns=BitSet::compact,BitSet::compact_pages tier=quick timeout=900 bound="3 stored pages in any storage order (page_map index permutation symbolic), keep-count symbolic" note="compaction used by intersect / reversed_subtract: every kept page_map entry still points at the page it pointed at before, and the kept pages occupy indices 0..new_len (so the following resize cannot cut a live page)"
    #[kani::proof]
    #[kani::unwind(6)]
    fn bitset_compact_keeps_page_identity() {
        // three pages with distinct contents
        let (v0, v1, v2): (u32, u32, u32) = (kani::any(), kani::any(), kani::any());
        kani::assume(v0 < 512 && v1 < 512 && v2 < 512 && v0 != v1 && v1 != v2 && v0 != v2);
        let mut p0 = BitPage::new_zeroes(); p0.insert(v0);
        let mut p1 = BitPage::new_zeroes(); p1.insert(v1);
        let mut p2 = BitPage::new_zeroes(); p2.insert(v2);
        // page_map sorted by major, indices = any permutation of 0..3 (pages created in any order)
        let (i0, i1, i2): (u32, u32, u32) = (kani::any(), kani::any(), kani::any());
        kani::assume(i0 < 3 && i1 < 3 && i2 < 3 && i0 != i1 && i1 != i2 && i0 != i2);
        let mut s = BitSet {
            pages: vec![p0, p1, p2],
            page_map: vec![PageInfo { major_value: 1, index: i0 }, PageInfo { major_value: 5, index: i1 }, PageInfo { major_value: 9, index: i2 }],
            length: 3,
        };
        let vals = [v0, v1, v2];
        let old_idx = [i0, i1, i2];
        let new_len: usize = kani::any();
        kani::assume(new_len <= 3);
        s.compact(new_len);
        let j: usize = kani::any();
        let k: usize = kani::any();
        kani::assume(j < new_len && k < new_len && j != k);
        let nj = s.page_map[j].index as usize;
        // kept pages are packed into the first new_len slots, distinct ...
        assert!(nj < new_len);
        assert!(s.page_map[k].index as usize != nj);
        // ... and entry j still denotes the page it denoted before (the one holding vals[old_idx[j]])
        assert!(s.pages[nj].contains(vals[old_idx[j] as usize]) && s.pages[nj].len() == 1);
        kani::cover!(new_len == 2 && i0 == 2 && i1 == 0);
        kani::cover!(new_len == 3 && i0 == 1);
    }
}
