//@weave-into read-fonts/src/collections/int_set/bitset.rs
// C14 middle layer (U14.2): BitSet operations against the mathematical set, on sets whose pages were created by
// the real insert() in EITHER order (so page_map order != pages order, the case compaction must handle).
// Bounded: two members per operand (up to 2 pages each); values symbolic within 3 pages.
#[cfg(kani)]
mod verif_c14_bitset {
    use super::*;
    #[allow(unused_imports)]
    use std::{vec, vec::Vec};

    fn any_val() -> u32 {
        let v: u32 = kani::any();
        kani::assume(v < 3 * 512);
        v
    }
    fn build(v1: u32, v2: u32) -> BitSet {
        let mut s = BitSet::empty();
        s.insert(v1);
        s.insert(v2);
        s
    }
    fn wf(s: &BitSet) -> bool {
        // page_map strictly sorted by major, indices within pages, cached length consistent
        let mut i = 0;
        let mut total = 0u64;
        while i < s.page_map.len() {
            if i + 1 < s.page_map.len() && s.page_map[i].major_value >= s.page_map[i + 1].major_value { return false; }
            if s.page_map[i].index as usize >= s.pages.len() { return false; }
            total += s.pages[s.page_map[i].index as usize].len() as u64;
            i += 1;
        }
        total == s.length
    }

    //@defaults unit=U14.2 props=C14 tier=thorough level=bounded bound="operands of 2 members each, members in 3 pages, pages created in either order" timeout=1800
    //@harness fns=BitSet::insert,BitSet::contains,BitSet::len,BitSet::remove,BitSet::ensure_page_index_for_major
    #[kani::proof]
    #[kani::unwind(5)]
    fn bitset_insert_remove_contains() {
        let (v1, v2) = (any_val(), any_val());
        let mut s = build(v1, v2);
        assert!(wf(&s));
        let q = any_val();
        assert!(s.contains(q) == (q == v1 || q == v2));
        assert!(s.len() == if v1 == v2 { 1 } else { 2 });
        let r = s.remove(q);
        assert!(r == (q == v1 || q == v2));
        let p = any_val();
        assert!(s.contains(p) == ((p == v1 || p == v2) && p != q));
        kani::cover!(v1 / 512 > v2 / 512);
        kani::cover!(v1 / 512 == v2 / 512 && v1 != v2);
    }
    //@harness fns=BitSet::intersect,BitSet::process,BitSet::compact,BitSet::compact_pages,BitSet::resize
    #[kani::proof]
    #[kani::unwind(10)]
    fn bitset_intersect() {
        let (a1, a2, b1, b2) = (any_val(), any_val(), any_val(), any_val());
        let mut a = build(a1, a2);
        let b = build(b1, b2);
        a.intersect(&b);
        assert!(wf(&a));
        let q = any_val();
        assert!(a.contains(q) == ((q == a1 || q == a2) && (q == b1 || q == b2)));
        kani::cover!(a1 / 512 > a2 / 512 && a.len() == 1);
        kani::cover!(a.len() == 2);
    }
    //@harness fns=BitSet::union,BitSet::process
    #[kani::proof]
    #[kani::unwind(10)]
    fn bitset_union() {
        let (a1, a2, b1, b2) = (any_val(), any_val(), any_val(), any_val());
        let mut a = build(a1, a2);
        let b = build(b1, b2);
        a.union(&b);
        assert!(wf(&a));
        let q = any_val();
        assert!(a.contains(q) == (q == a1 || q == a2 || q == b1 || q == b2));
        kani::cover!(a.len() == 4);
    }
    //@harness fns=BitSet::subtract,BitSet::reversed_subtract,BitSet::process
    #[kani::proof]
    #[kani::unwind(10)]
    fn bitset_subtract_reversed() {
        let (a1, a2, b1, b2) = (any_val(), any_val(), any_val(), any_val());
        let which: bool = kani::any();
        let mut a = build(a1, a2);
        let b = build(b1, b2);
        let q = any_val();
        let in_a = q == a1 || q == a2;
        let in_b = q == b1 || q == b2;
        if which {
            a.subtract(&b);
            assert!(a.contains(q) == (in_a && !in_b));
        } else {
            a.reversed_subtract(&b);
            assert!(a.contains(q) == (in_b && !in_a));
        }
        assert!(wf(&a));
        kani::cover!(which && a.len() == 1);
        kani::cover!(!which && a.len() == 2);
    }
}
