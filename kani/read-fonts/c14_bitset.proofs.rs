//@weave-into read-fonts/src/collections/int_set/bitset.rs
// C14 middle layer (U14.2): BitSet operations against the mathematical set, on sets whose pages were created by
// the real insert() in EITHER order (so page_map order != pages order, the case compaction must handle).
// Bounded: two members per operand (up to 2 pages each); values symbolic within 3 pages.
#[cfg(kani)]
mod verif_c14_bitset {
    use super::*;
    #[allow(unused_imports)]
    use std::{vec, vec::Vec};

    fn any_val() -> u32 {
        let v: u32 = kani::any();
        kani::assume(v < 3 * 512);
        v
    }
    fn build(v1: u32, v2: u32) -> BitSet {
        let mut s = BitSet::empty();
        s.insert(v1);
        s.insert(v2);
        s
    }
    fn wf(s: &BitSet) -> bool {
        // page_map strictly sorted by major, indices within pages, cached length consistent
        let mut i = 0;
        let mut total = 0u64;
        while i < s.page_map.len() {
            if i + 1 < s.page_map.len() && s.page_map[i].major_value >= s.page_map[i + 1].major_value { return false; }
            if s.page_map[i].index as usize >= s.pages.len() { return false; }
            total += s.pages[s.page_map[i].index as usize].len() as u64;
            i += 1;
        }
        total == s.length
    }

    //@defaults unit=U14.2 props=C14 tier=thorough level=bounded bound="operands of 2 members each, members in 3 pages, pages created in either order" timeout=1800
    //@harness fns=BitSet::insert,BitSet::contains,BitSet::len,BitSet::remove,BitSet::ensure_page_index_for_major
    #[kani::proof]
    #[kani::unwind(5)]
    fn bitset_insert_remove_contains() {
        let (v1, v2) = (any_val(), any_val());
        let mut s = build(v1, v2);
        assert!(wf(&s));
        let q = any_val();
        assert!(s.contains(q) == (q == v1 || q == v2));
        assert!(s.len() == if v1 == v2 { 1 } else { 2 });
        let r = s.remove(q);
        assert!(r == (q == v1 || q == v2));
        let p = any_val();
        assert!(s.contains(p) == ((p == v1 || p == v2) && p != q));
        kani::cover!(v1 / 512 > v2 / 512);
        kani::cover!(v1 / 512 == v2 / 512 && v1 != v2);
    }
    //@harness fns=BitSet::intersect,BitSet::process,BitSet::compact,BitSet::compact_pages,BitSet::resize
    #[kani::proof]
    #[kani::unwind(10)]
    fn bitset_intersect() {
        let (a1, a2, b1, b2) = (any_val(), any_val(), any_val(), any_val());
        let mut a = build(a1, a2);
        let b = build(b1, b2);
        a.intersect(&b);
        assert!(wf(&a));
        let q = any_val();
        assert!(a.contains(q) == ((q == a1 || q == a2) && (q == b1 || q == b2)));
        kani::cover!(a1 / 512 > a2 / 512 && a.len() == 1);
        kani::cover!(a.len() == 2);
    }
    //@harness fns=BitSet::union,BitSet::process
    #[kani::proof]
    #[kani::unwind(10)]
    fn bitset_union() {
        let (a1, a2, b1, b2) = (any_val(), any_val(), any_val(), any_val());
        let mut a = build(a1, a2);
        let b = build(b1, b2);
        a.union(&b);
        assert!(wf(&a));
        let q = any_val();
        assert!(a.contains(q) == (q == a1 || q == a2 || q == b1 || q == b2));
        kani::cover!(a.len() == 4);
    }
    //@harness fns=BitSet::subtract,BitSet::reversed_subtract,BitSet::process
    #[kani::proof]
    #[kani::unwind(10)]
    fn bitset_subtract_reversed() {
        let (a1, a2, b1, b2) = (any_val(), any_val(), any_val(), any_val());
        let which: bool = kani::any();
        let mut a = build(a1, a2);
        let b = build(b1, b2);
        let q = any_val();
        let in_a = q == a1 || q == a2;
        let in_b = q == b1 || q == b2;
        if which {
            a.subtract(&b);
            assert!(a.contains(q) == (in_a && !in_b));
        } else {
            a.reversed_subtract(&b);
            assert!(a.contains(q) == (in_b && !in_a));
        }
        assert!(wf(&a));
        kani::cover!(which && a.len() == 1);
        kani::cover!(!which && a.len() == 2);
    }

    //@harness fns=BitSet::compact,BitSet::compact_pages tier=quick timeout=900 bound="3 stored pages in any storage order (page_map index permutation symbolic), keep-count symbolic" note="compaction used by intersect / reversed_subtract: every kept page_map entry still points at the page it pointed at before, and the kept pages occupy indices 0..new_len (so the following resize cannot cut a live page)"
    #[kani::proof]
    #[kani::unwind(6)]
    fn bitset_compact_keeps_page_identity() {
        // three pages with distinct contents
        let (v0, v1, v2): (u32, u32, u32) = (kani::any(), kani::any(), kani::any());
        kani::assume(v0 < 512 && v1 < 512 && v2 < 512 && v0 != v1 && v1 != v2 && v0 != v2);
        let mut p0 = BitPage::new_zeroes(); p0.insert(v0);
        let mut p1 = BitPage::new_zeroes(); p1.insert(v1);
        let mut p2 = BitPage::new_zeroes(); p2.insert(v2);
        // page_map sorted by major, indices = any permutation of 0..3 (pages created in any order)
        let (i0, i1, i2): (u32, u32, u32) = (kani::any(), kani::any(), kani::any());
        kani::assume(i0 < 3 && i1 < 3 && i2 < 3 && i0 != i1 && i1 != i2 && i0 != i2);
        let mut s = BitSet {
            pages: vec![p0, p1, p2],
            page_map: vec![PageInfo { major_value: 1, index: i0 }, PageInfo { major_value: 5, index: i1 }, PageInfo { major_value: 9, index: i2 }],
            length: 3,
        };
        let vals = [v0, v1, v2];
        let old_idx = [i0, i1, i2];
        let new_len: usize = kani::any();
        kani::assume(new_len <= 3);
        s.compact(new_len);
        let j: usize = kani::any();
        let k: usize = kani::any();
        kani::assume(j < new_len && k < new_len && j != k);
        let nj = s.page_map[j].index as usize;
        // kept pages are packed into the first new_len slots, distinct ...
        assert!(nj < new_len);
        assert!(s.page_map[k].index as usize != nj);
        // ... and entry j still denotes the page it denoted before (the one holding vals[old_idx[j]])
        assert!(s.pages[nj].contains(vals[old_idx[j] as usize]) && s.pages[nj].len() == 1);
        kani::cover!(new_len == 2 && i0 == 2 && i1 == 0);
        kani::cover!(new_len == 3 && i0 == 1);
    }
}
