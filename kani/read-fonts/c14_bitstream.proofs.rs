//@weave-into read-fonts/src/collections/int_set/input_bit_stream.rs
// C14 codec layer (U14.6): the bit-stream primitives of the sparse-bit-set decoder. next() returns the next BF-bit
// node, low bits first, and advances by exactly BF bits; the header decodes to (branch factor, height) as the IFT
// specification lays them out; skip_nodes advances by n nodes and reports whether the stream still holds them.
#[cfg(kani)]
mod verif_c14_bitstream {
    use super::*;
    #[allow(unused_imports)]
    use std::{vec, vec::Vec};

    fn step<const BF: u8>() {
        let data: [u8; 6] = kani::any();
        let len: usize = kani::any();
        kani::assume(len <= 6);
        let byte_index: usize = kani::any();
        kani::assume(byte_index <= 7);
        let sub: u32 = kani::any();
        // state invariant: sub_index is a multiple of BF below 8 (only the 2- and 4-bit streams use it)
        kani::assume(sub < 8 && (BF >= 8 && sub == 0 || BF < 8 && sub % BF as u32 == 0));
        let mut s = InputBitStream::<BF> { data: &data[..len], byte_index, sub_index: sub };
        let bit0 = byte_index * 8 + sub as usize;
        let r = s.next();
        let need = (bit0 + BF as usize + 7) / 8; // bytes needed to hold the node
        assert!(r.is_some() == (need <= len));
        if let Some(v) = r {
            // value = the BF bits starting at bit position bit0 (little-endian bit and byte order)
            let mut expect: u32 = 0;
            let mut k = 0;
            while k < BF as usize {
                let b = bit0 + k;
                expect |= (((data[b / 8] >> (b % 8)) & 1) as u32) << k;
                k += 1;
            }
            assert!(v == expect);
            assert!(s.byte_index * 8 + s.sub_index as usize == bit0 + BF as usize);
        }
        kani::cover!(r.is_some() && sub != 0);
        kani::cover!(r.is_none());
    }
    //@defaults unit=U14.6 props=C14,C20 tier=quick level=complete timeout=600
    //@harness fns=InputBitStream<2>::next
    #[kani::proof]
    #[kani::unwind(34)]
    fn bitstream_next_bf2() { step::<2>() }
    //@harness fns=InputBitStream<4>::next
    #[kani::proof]
    #[kani::unwind(34)]
    fn bitstream_next_bf4() { step::<4>() }
    //@harness fns=InputBitStream<8>::next
    #[kani::proof]
    #[kani::unwind(34)]
    fn bitstream_next_bf8() {
        let data: [u8; 6] = kani::any();
        let len: usize = kani::any();
        kani::assume(len <= 6);
        let byte_index: usize = kani::any();
        kani::assume(byte_index <= 7);
        let mut s = InputBitStream::<8> { data: &data[..len], byte_index, sub_index: 0 };
        let r = s.next();
        assert!(r.is_some() == (byte_index < len));
        if let Some(v) = r { assert!(v == data[byte_index] as u32 && s.byte_index == byte_index + 1); }
        kani::cover!(r.is_some());
    }
    //@harness fns=InputBitStream<32>::next
    #[kani::proof]
    #[kani::unwind(34)]
    fn bitstream_next_bf32() {
        let data: [u8; 6] = kani::any();
        let len: usize = kani::any();
        kani::assume(len <= 6);
        let byte_index: usize = kani::any();
        kani::assume(byte_index <= 7);
        let mut s = InputBitStream::<32> { data: &data[..len], byte_index, sub_index: 0 };
        let r = s.next();
        assert!(r.is_some() == (byte_index + 4 <= len));
        if let Some(v) = r {
            assert!(v == u32::from_le_bytes([data[byte_index], data[byte_index + 1], data[byte_index + 2], data[byte_index + 3]]));
            assert!(s.byte_index == byte_index + 4);
        }
        kani::cover!(r.is_some());
    }
    //@harness fns=InputBitStream::decode_header,InputBitStream::from,InputBitStream::skip_nodes,InputBitStream::bytes_consumed
    #[kani::proof]
    fn bitstream_header_and_skip() {
        let data: [u8; 6] = kani::any();
        let len: usize = kani::any();
        kani::assume(len <= 6);
        let h = InputBitStream::<0>::decode_header(&data[..len]);
        assert!(h.is_some() == (len > 0));
        if let Some((bf, height)) = h {
            // IFT: bits 0-1 select the branch factor (2, 4, 8, 32), bits 2-6 the tree height
            let want = match data[0] & 3 { 0 => 2, 1 => 4, 2 => 8, _ => 32 };
            assert!(bf.value() == want && height == (data[0] >> 2) & 0x1F);
        }
        let mut s = InputBitStream::<4>::from(&data[..len]);
        assert!(s.byte_index == 1 && s.sub_index == 0);
        let n: u32 = kani::any();
        kani::assume(n <= 64); // the decoder passes the number of queued nodes, bounded by the nodes the data can describe
        let ok = s.skip_nodes(n);
        let bits = 8 + 4 * n as usize;
        assert!(ok == ((bits + 7) / 8 <= len));
        assert!(s.bytes_consumed() == (bits + 7) / 8);
        kani::cover!(ok && n == 3);
        kani::cover!(!ok);
    }
}
