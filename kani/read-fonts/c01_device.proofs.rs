//@weave-into read-fonts/src/tables/layout.rs
// C01 / C20 / C16: the Device table's packed per-size adjustments. A Device parsed from ARBITRARY bytes (any start/end size,
// any delta format) can be turned into its value iterator without panic or overflow for every start/end size (the size arithmetic
// runs eagerly in Device::iter).
#[cfg(kani)]
mod verif_c01_device {
    use super::*;
    use crate::{FontData, FontRead};

    // creating the iterator alone (the size arithmetic runs eagerly in Device::iter), for EVERY header
    //@harness unit=U01.11 props=C01,C20,C16 tier=quick level=bounded bound="any bytes <= 8 B; iterator construction only" timeout=900 fns=Device::iter
    #[kani::proof]
    #[kani::unwind(4)]
    fn device_iter_construction_total() {
        let b: [u8; 8] = kani::any();
        let len: usize = kani::any();
        kani::assume(len <= 8);
        let Ok(d) = Device::read(FontData::new(&b[..len])) else { return; };
        let _it = d.iter();
        kani::cover!(d.start_size() > d.end_size());
        kani::cover!(d.start_size() == 0 && d.end_size() == 0xFFFF);
    }
    // NOTE: a harness that also drains the iterator and asserts the number of values (endSize - startSize + 1) did not finish in
    // 1800 s (flat_map over closures); kept, unclaimed, in attic/c01_device_counts.proofs.rs.txt.
}
