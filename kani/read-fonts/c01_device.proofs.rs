//@weave-into read-fonts/src/tables/layout.rs
// C01 / C20 / C16: the Device table's packed per-size adjustments. A Device parsed from ARBITRARY bytes (any start/end size,
// any delta format) can be iterated without panic or overflow, and yields exactly endSize - startSize + 1 values when the sizes
// are in order (none when they are inverted) - the OpenType definition of the DeltaValue array.
#[cfg(kani)]
mod verif_c01_device {
    use super::*;
    use crate::{FontData, FontRead};

    // creating the iterator alone (the size arithmetic runs eagerly in Device::iter), for EVERY header
    //@harness unit=U01.11 props=C01,C20,C16 tier=quick level=bounded bound="any bytes <= 8 B; iterator construction only" timeout=900 fns=Device::iter
    #[kani::proof]
    #[kani::unwind(4)]
    fn device_iter_construction_total() {
        let b: [u8; 8] = kani::any();
        let len: usize = kani::any();
        kani::assume(len <= 8);
        let Ok(d) = Device::read(FontData::new(&b[..len])) else { return; };
        let _it = d.iter();
        kani::cover!(d.start_size() > d.end_size());
        kani::cover!(d.start_size() == 0 && d.end_size() == 0xFFFF);
    }
    //@harness unit=U01.11 props=C01,C20,C16 tier=quick level=bounded bound="any bytes <= 8 B (header + <= 1 delta word); first 9 values; exact count asserted for ranges of <= 8 sizes" timeout=1800 fns=Device::iter,iter_packed_values,DeltaFormat::value_count
    #[kani::proof]
    #[kani::unwind(12)]
    fn device_iter_total_and_counts_sizes() {
        let b: [u8; 8] = kani::any();
        let len: usize = kani::any();
        kani::assume(len <= 8);
        let Ok(d) = Device::read(FontData::new(&b[..len])) else { return; };
        let (start, end) = (d.start_size(), d.end_size());
        let local = matches!(d.delta_format(), DeltaFormat::Local2BitDeltas | DeltaFormat::Local4BitDeltas | DeltaFormat::Local8BitDeltas);
        let mut it = d.iter();
        let mut n = 0usize;
        while n < 9 {
            if it.next().is_none() {
                break;
            }
            n += 1;
        }
        let want = if start <= end { (end - start) as usize + 1 } else { 0 };
        if local && want <= 8 {
            assert!(n == want);
        }
        if !local {
            assert!(n == 0);
        }
        kani::cover!(local && n == 8);
        kani::cover!(local && start > end);
        kani::cover!(!local);
    }
}
