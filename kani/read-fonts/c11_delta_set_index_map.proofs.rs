//@weave-into read-fonts/src/tables/variations.rs
// C11 (U11.4): DeltaSetIndexMap::get on ANY table bytes (both formats, every entry format) and ANY index: the entry at
// min(index, mapCount - 1), big-endian, split into outer = entry >> (innerBits), inner = entry & mask - exactly as the
// OpenType text prescribes; an error (never a panic) when the data is too short.
#[cfg(kani)]
mod verif_c11_dsim {
    use super::*;
    use crate::{FontData, FontRead};
    #[allow(unused_imports)]
    use std::{vec, vec::Vec};

    //@defaults unit=U11.4 props=C11,C01,C20 tier=quick level=bounded bound="any bytes <=18 B; every index; every entry format" timeout=900
    //@harness fns=DeltaSetIndexMap::get,EntryFormat::entry_size,EntryFormat::bit_count
    #[kani::proof]
    #[kani::unwind(6)]
    fn delta_set_index_map_get_spec() {
        let buf: [u8; 18] = kani::any();
        let len: usize = kani::any();
        kani::assume(len <= 18);
        let Ok(m) = DeltaSetIndexMap::read(FontData::new(&buf[..len])) else { return; };
        let index: u32 = kani::any();
        let r = m.get(index);
        // independent decoding from the raw bytes
        let fmt = buf[0];
        let entry_format = buf[1];
        let (map_count, data_start): (u32, usize) = if fmt == 0 { (((buf[2] as u32) << 8) | buf[3] as u32, 4) }
            else { (u32::from_be_bytes([buf[2], buf[3], buf[4], buf[5]]), 6) };
        let entry_size = (((entry_format & 0x30) >> 4) + 1) as usize;
        let inner_bits = ((entry_format & 0x0F) + 1) as u32;
        let ix = if map_count == 0 { 0 } else if index < map_count - 1 { index } else { map_count - 1 } as usize;
        let off = data_start + ix * entry_size;
        if let Ok(r) = r {
            assert!(off + entry_size <= len);
            let mut entry: u32 = 0;
            let mut k = 0;
            while k < entry_size { entry = (entry << 8) | buf[off + k] as u32; k += 1; }
            assert!(r.outer == (entry >> inner_bits) as u16);
            assert!(r.inner == (entry & ((1u32 << inner_bits) - 1)) as u16);
        }
        kani::cover!(r.is_ok() && entry_size == 3 && index > map_count);
        kani::cover!(r.is_err());
        kani::cover!(r.is_ok() && fmt == 1);
    }
}
