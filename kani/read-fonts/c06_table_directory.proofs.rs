//@weave-into read-fonts/src/lib.rs
// C06 / C01 (U06.4): opening an sfnt and looking a table up by tag. On ANY bytes (<= 52 B: header + up to 2 records +
// payload) FontRef::new never panics, and for a directory sorted by tag table_data(tag) returns exactly the byte range of
// the record with that tag (when it lies inside the file and its offset is non-null) and nothing for absent tags.
#[cfg(kani)]
mod verif_c06_directory {
    use super::*;
    #[allow(unused_imports)]
    use std::{vec, vec::Vec};

    //@defaults unit=U06.4 props=C06,C01 tier=quick level=bounded bound="any bytes <=52 B, <=2 table records, any tag" timeout=900
    //@harness fns=FontRef::new,FontRef::table_data,TableDirectory::read,FileRef::new
    #[kani::proof]
    #[kani::unwind(5)]
    fn fontref_table_data_matches_directory() {
        let buf: [u8; 52] = kani::any();
        let len: usize = kani::any();
        kani::assume(len <= 52);
        let data = &buf[..len];
        let _ = FileRef::new(data); // total on any bytes
        let Ok(font) = FontRef::new(data) else { return; };
        let recs = font.table_directory.table_records();
        kani::assume(recs.len() <= 2);
        if recs.len() == 2 { kani::assume(recs[0].tag() < recs[1].tag()); } // the format requires records sorted by tag
        let tag = Tag::from_be_bytes(kani::any());
        let got = font.table_data(tag);
        // specification: the record with this tag, if any
        let mut expect: Option<(usize, usize)> = None;
        let mut i = 0;
        while i < recs.len() {
            if recs[i].tag() == tag { expect = Some((recs[i].offset() as usize, recs[i].length() as usize)); }
            i += 1;
        }
        match (got, expect) {
            (Some(d), Some((off, l))) => {
                assert!(off != 0 && off <= len && l <= len - off);
                assert!(d.len() == l);
                if l > 0 { assert!(d.as_bytes()[0] == buf[off] && d.as_bytes()[l - 1] == buf[off + l - 1]); }
            }
            (None, Some((off, l))) => assert!(off == 0 || off > len || l > len - off),
            (Some(_), None) => assert!(false),
            (None, None) => {}
        }
        kani::cover!(got.is_some() && recs.len() == 2 && recs[1].tag() == tag);
        kani::cover!(got.is_none() && expect.is_some());
        kani::cover!(recs.len() == 2 && expect.is_none());
    }
}
