//@weave-into read-fonts/src/collections/int_set/bitpage.rs
// C14, page layer (U14.1): every BitPage operation against the 512-bit mathematical set it denotes,
// INCLUDING the frame (all other bits unchanged) and the cached-length invariant. The page storage is a
// fully symbolic [u64; 8] (all 2^512 pages); loops are bounded by the constant 8 with unwinding assertions on.
#[cfg(kani)]
mod verif_c14_page {
    use super::*;
    #[allow(unused_imports)]
    use std::{vec, vec::Vec};

    fn popcount(storage: &[u64; 8]) -> u32 {
        let mut n = 0u32;
        let mut i = 0;
        while i < 8 { n += storage[i].count_ones(); i += 1; }
        n
    }
    /// any well-formed page: arbitrary bits, cached length consistent (the data-structure invariant)
    fn any_page() -> BitPage {
        let storage: [u64; 8] = kani::any();
        BitPage { storage, length: popcount(&storage) }
    }
    fn bit(storage: &[u64; 8], v: u32) -> bool {
        let v = v & 511;
        (storage[(v / 64) as usize] >> (v % 64)) & 1 == 1
    }

    //@defaults unit=U14.1 props=C14,C20 tier=quick level=complete timeout=300
    //@harness fns=BitPage::insert,BitPage::contains
    #[kani::proof]
    #[kani::unwind(9)]
    fn page_insert() {
        let mut p = any_page();
        let old = p.storage;
        let old_len = p.length;
        let v: u32 = kani::any();
        let w: u32 = kani::any();
        let was = bit(&old, v);
        let r = p.insert(v);
        assert!(r == !was);
        assert!(bit(&p.storage, v));
        assert!(p.length == old_len + (!was) as u32 && p.length == popcount(&p.storage));
        if (w & 511) != (v & 511) { assert!(bit(&p.storage, w) == bit(&old, w)); } // frame
        assert!(p.contains(w) == bit(&p.storage, w));
        kani::cover!(was);
        kani::cover!(!was && v > 512);
    }
    //@harness fns=BitPage::remove
    #[kani::proof]
    #[kani::unwind(9)]
    fn page_remove() {
        let mut p = any_page();
        let old = p.storage;
        let old_len = p.length;
        let v: u32 = kani::any();
        let w: u32 = kani::any();
        let was = bit(&old, v);
        let r = p.remove(v);
        assert!(r == was);
        assert!(!bit(&p.storage, v));
        assert!(p.length == old_len - was as u32 && p.length == popcount(&p.storage));
        if (w & 511) != (v & 511) { assert!(bit(&p.storage, w) == bit(&old, w)); }
        kani::cover!(was);
        kani::cover!(!was);
    }
    //@harness fns=BitPage::insert_range,BitPage::recompute_length
    #[kani::proof]
    #[kani::unwind(9)]
    fn page_insert_range() {
        let mut p = any_page();
        let old = p.storage;
        let first: u32 = kani::any();
        let last: u32 = kani::any();
        kani::assume(first / 512 == last / 512 && first <= last); // the caller's (BitSet) precondition
        let w: u32 = kani::any();
        p.insert_range(first, last);
        let in_range = (w & 511) >= (first & 511) && (w & 511) <= (last & 511);
        assert!(bit(&p.storage, w) == (bit(&old, w) || in_range));
        assert!(p.length == popcount(&p.storage));
        kani::cover!(first & 511 == 0 && last & 511 == 511);
        kani::cover!(first == last);
        kani::cover!((first & 511) / 64 + 2 <= (last & 511) / 64);
    }
    //@harness fns=BitPage::remove_range
    #[kani::proof]
    #[kani::unwind(9)]
    fn page_remove_range() {
        let mut p = any_page();
        let old = p.storage;
        let first: u32 = kani::any();
        let last: u32 = kani::any();
        kani::assume(first / 512 == last / 512 && first <= last);
        let w: u32 = kani::any();
        p.remove_range(first, last);
        let in_range = (w & 511) >= (first & 511) && (w & 511) <= (last & 511);
        assert!(bit(&p.storage, w) == (bit(&old, w) && !in_range));
        assert!(p.length == popcount(&p.storage));
        kani::cover!(first & 511 == 0 && last & 511 == 511);
        kani::cover!(first == last);
    }
    //@harness fns=BitPage::clear,BitPage::len,BitPage::is_empty,BitPage::new_zeroes
    #[kani::proof]
    #[kani::unwind(66)]
    fn page_clear_len_is_empty() {
        let mut p = any_page();
        let w: u32 = kani::any();
        assert!(p.len() == popcount(&p.storage));
        let any_set = p.storage != [0u64; 8];
        assert!(p.is_empty() == !any_set);
        p.clear();
        assert!(!bit(&p.storage, w) && p.len() == 0 && p.is_empty());
        let z = BitPage::new_zeroes();
        assert!(!z.contains(w) && z.len() == 0);
        assert!(BitPage::default() == z);
        kani::cover!(any_set);
    }
    //@harness fns=BitPage::union,BitPage::intersect,BitPage::subtract,BitPage::process
    #[kani::proof]
    #[kani::unwind(66)]
    fn page_union_intersect_subtract() {
        let a = any_page();
        let b = any_page();
        let w: u32 = kani::any();
        let u = BitPage::union(&a, &b);
        let i = BitPage::intersect(&a, &b);
        let s = BitPage::subtract(&a, &b);
        assert!(bit(&u.storage, w) == (bit(&a.storage, w) || bit(&b.storage, w)));
        assert!(bit(&i.storage, w) == (bit(&a.storage, w) && bit(&b.storage, w)));
        assert!(bit(&s.storage, w) == (bit(&a.storage, w) && !bit(&b.storage, w)));
        assert!(u.length == popcount(&u.storage) && i.length == popcount(&i.storage) && s.length == popcount(&s.storage));
        // equality is equality of members
        assert!((a == b) == (a.storage == b.storage));
        kani::cover!(bit(&a.storage, w) && !bit(&b.storage, w));
    }
    //@harness fns=Iter::next,Iter::new,Iter::from
    #[kani::proof]
    fn elem_iter_next() {
        let val: u64 = kani::any();
        let fwd: i32 = kani::any();
        let back: i32 = kani::any();
        kani::assume(fwd >= 0 && fwd <= 64 && back >= -1 && back <= 63); // the iterator's state invariant
        let mut it = Iter { val, forward_index: fwd, backward_index: back };
        let r = it.next();
        let k: i32 = kani::any();
        kani::assume(k >= 0 && k <= 63);
        match r {
            Some(i) => {
                let i = i as i32;
                assert!(i >= fwd && i <= back && (val >> i) & 1 == 1);
                // least such index
                if k >= fwd && k < i { assert!((val >> k) & 1 == 0); }
                assert!(it.forward_index == i + 1 && it.backward_index == back);
            }
            None => {
                if k >= fwd && k <= back { assert!((val >> k) & 1 == 0); }
            }
        }
        assert!(it.forward_index >= 0 && it.forward_index <= 64);
        let n = Iter::new(val);
        assert!(n.forward_index == 0 && n.backward_index == 63 && n.val == val);
        let idx: u32 = kani::any();
        kani::assume(idx <= 64);
        let f = Iter::from(val, idx);
        assert!(f.forward_index == idx as i32 && f.backward_index == 63);
        kani::cover!(r.is_none() && fwd <= back);
        kani::cover!(r == Some(63));
    }
    //@harness fns=Iter::next_back
    #[kani::proof]
    fn elem_iter_next_back() {
        let val: u64 = kani::any();
        let fwd: i32 = kani::any();
        let back: i32 = kani::any();
        kani::assume(fwd >= 0 && fwd <= 64 && back >= -1 && back <= 63);
        let mut it = Iter { val, forward_index: fwd, backward_index: back };
        let r = it.next_back();
        let k: i32 = kani::any();
        kani::assume(k >= 0 && k <= 63);
        match r {
            Some(i) => {
                let i = i as i32;
                assert!(i >= fwd && i <= back && (val >> i) & 1 == 1);
                if k <= back && k > i { assert!((val >> k) & 1 == 0); } // greatest
                assert!(it.backward_index == i - 1 && it.forward_index == fwd);
            }
            None => {
                if k >= fwd && k <= back { assert!((val >> k) & 1 == 0); }
            }
        }
        assert!(it.backward_index >= -1 && it.backward_index <= 63);
        kani::cover!(r.is_none() && fwd <= back);
        kani::cover!(r == Some(0));
    }
    //@harness fns=RangeIter::next,RangeIter::next_range_in_element,BitPage::iter_ranges
    #[kani::proof]
    #[kani::unwind(10)]
    fn page_range_iter_next() {
        let p = any_page();
        let start: u32 = kani::any();
        kani::assume(start <= 512);
        let mut it = p.iter_ranges();
        assert!(it.next_value_to_check == 0);
        it.next_value_to_check = start;
        let r = it.next();
        let k: u32 = kani::any();
        kani::assume(k < 512);
        match &r {
            Some(range) => {
                let (s, e) = (*range.start(), *range.end());
                assert!(start <= s && s <= e && e < 512);
                // s is the least member >= start; [s, e] are all members; the run is maximal
                if k >= start && k < s { assert!(!bit(&p.storage, k)); }
                if k >= s && k <= e { assert!(bit(&p.storage, k)); }
                if e < 511 { assert!(!bit(&p.storage, e + 1)); }
                assert!(it.next_value_to_check == e + 1);
            }
            None => {
                if k >= start { assert!(!bit(&p.storage, k)); }
                assert!(it.next_value_to_check >= 512);
            }
        }
        kani::cover!(r.is_none() && start < 512);
        kani::cover!(matches!(r, Some(ref x) if *x.end() - *x.start() > 130));
    }
    //@harness fns=BitPage::iter timeout=600 note="first element of forward iteration = least member"
    #[kani::proof]
    #[kani::unwind(10)]
    fn page_iter_first() {
        let p = any_page();
        let k: u32 = kani::any();
        kani::assume(k < 512);
        let first = p.iter().next();
        match first {
            Some(f) => { assert!(f < 512 && bit(&p.storage, f)); if k < f { assert!(!bit(&p.storage, k)); } }
            None => assert!(!bit(&p.storage, k)),
        }
        kani::cover!(first.is_some() && first != Some(0));
        kani::cover!(first.is_none());
    }
    //@harness fns=BitPage::iter timeout=600 note="first element of backward iteration = greatest member"
    #[kani::proof]
    #[kani::unwind(10)]
    fn page_iter_last() {
        let p = any_page();
        let k: u32 = kani::any();
        kani::assume(k < 512);
        let last = p.iter().next_back();
        match last {
            Some(l) => { assert!(l < 512 && bit(&p.storage, l)); if k > l { assert!(!bit(&p.storage, k)); } }
            None => assert!(!bit(&p.storage, k)),
        }
        kani::cover!(last.is_some() && last != Some(511));
    }
    //@harness fns=BitPage::iter_after timeout=600 note="first element of iter_after(v) = least member > v within the page"
    #[kani::proof]
    #[kani::unwind(10)]
    fn page_iter_after_first() {
        let p = any_page();
        let v: u32 = kani::any();
        kani::assume(v < 512);
        let k: u32 = kani::any();
        kani::assume(k < 512);
        let first = p.iter_after(v).next();
        match first {
            Some(f) => { assert!(f > v && f < 512 && bit(&p.storage, f)); if k > v && k < f { assert!(!bit(&p.storage, k)); } }
            None => { if k > v { assert!(!bit(&p.storage, k)); } }
        }
        kani::cover!(first.is_some());
        kani::cover!(first.is_none() && v < 500);
    }
}
