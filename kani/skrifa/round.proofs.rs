//@weave-into skrifa/src/outline/glyf/hint/round.rs
// U20.1 (C20, C02): RoundState::round on EVERY 26.6 distance (all 2^32 values), all 8 rounding modes, under the
// data-structure invariant that Engine::super_round establishes for any selector: period in
// {0x16,0x20,0x2D,0x40,0x5A,0x80}, |phase| and |threshold| below 2^10. Kani instruments exactly the checks of
// the fuzzing configuration (overflow, division by zero). Loop-free => complete.
#[cfg(kani)]
mod verif_round {
    use super::*;
    #[allow(unused_imports)]
    use std::{vec, vec::Vec};

    fn any_mode() -> RoundMode {
        match kani::any::<u8>() % 8 {
            0 => RoundMode::Grid, 1 => RoundMode::HalfGrid, 2 => RoundMode::DoubleGrid,
            3 => RoundMode::DownToGrid, 4 => RoundMode::UpToGrid, 5 => RoundMode::Off,
            6 => RoundMode::Super, _ => RoundMode::Super45,
        }
    }
    fn any_wf_state() -> RoundState {
        let st = RoundState { mode: any_mode(), threshold: kani::any(), phase: kani::any(), period: kani::any() };
        kani::assume(st.period == 0x16 || st.period == 0x20 || st.period == 0x2D || st.period == 0x40 || st.period == 0x5A || st.period == 0x80);
        kani::assume(st.phase > -1024 && st.phase < 1024 && st.threshold > -1024 && st.threshold < 1024);
        st
    }

    //@defaults unit=U20.1 props=C20,C02 tier=quick level=complete timeout=600
    //@harness fns=RoundState::round,math::floor,math::round,math::ceil,math::round_pad note="no overflow/division panic for any distance"
    #[kani::proof]
    fn round_total_all_distances() {
        let st = any_wf_state();
        let d: i32 = kani::any();
        let r = st.round(F26Dot6::from_bits(d)).to_bits();
        // sign is never flipped by rounding (FreeType's contract for all modes except Off)
        if !matches!(st.mode, RoundMode::Off | RoundMode::Super | RoundMode::Super45) && d > -0x4000_0000 && d < 0x4000_0000 {
            assert!((d >= 0) == (r >= 0) || r == 0);
        }
        if matches!(st.mode, RoundMode::Off) { assert!(r == d); }
        kani::cover!(matches!(st.mode, RoundMode::Super45) && d < 0);
        kani::cover!(matches!(st.mode, RoundMode::Grid) && d == 33 && r == 64);
    }
    //@harness fns=RoundState::round note="grid modes against their definitions for every distance that is not within 64 units of the i32 limits"
    #[kani::proof]
    fn round_grid_modes_exact() {
        let mut st = RoundState::default();
        st.mode = any_mode();
        let d: i32 = kani::any();
        kani::assume(d > i32::MIN + 128 && d < i32::MAX - 128);
        let r = st.round(F26Dot6::from_bits(d)).to_bits() as i64;
        let m = (d as i64).abs();
        let s = if d < 0 { -1i64 } else { 1 };
        match st.mode {
            RoundMode::Grid => assert!(r == s * ((m + 32) / 64 * 64)),
            RoundMode::HalfGrid => assert!(r == s * (m / 64 * 64 + 32)),
            RoundMode::DoubleGrid => assert!(r == s * ((m + 16) / 32 * 32)),
            RoundMode::DownToGrid => assert!(r == s * (m / 64 * 64)),
            RoundMode::UpToGrid => assert!(r == s * ((m + 63) / 64 * 64)),
            RoundMode::Off => assert!(r == d as i64),
            _ => {}
        }
        kani::cover!(matches!(st.mode, RoundMode::HalfGrid) && d == -1);
        kani::cover!(matches!(st.mode, RoundMode::UpToGrid) && d == 65);
    }
}
