//@weave-into skrifa/src/charmap.rs
// C08 ("no glyph for unmapped characters ... through the low-level table and the high-level character map alike"), U08.6: the
// high-level code point lookup of skrifa's Charmap over a format-4 subtable of ARBITRARY bytes answers exactly what the low-level
// Cmap4 lookup answers (glyph 0 reported as absent), for EVERY u32 code point - in particular nothing above U+FFFF maps - and the
// symbol-font fallback only ever re-tries U+00xx at U+F0xx.
#[cfg(kani)]
mod verif_charmap {
    use super::*;
    use read_fonts::{FontData, FontRead};

    //@harness unit=U08.6 props=C08,C02 tier=quick level=bounded bound="format-4 subtable of any bytes <= 32 B with <= 2 segments; every u32 code point; symbol flag symbolic" timeout=1800 fns=CodepointSubtable::map,CodepointSubtable::map_impl
    #[kani::proof]
    #[kani::unwind(5)]
    fn charmap_format4_agrees_with_table_lookup() {
        let buf: [u8; 32] = kani::any();
        let len: usize = kani::any();
        kani::assume(len <= 32);
        let Ok(t) = Cmap4::read(FontData::new(&buf[..len])) else { return; };
        kani::assume(t.seg_count_x2() <= 4);
        let is_symbol: bool = kani::any();
        let st = CodepointSubtable { subtable: SupportedSubtable::Format4(t.clone()), is_symbol };
        let cp: u32 = kani::any();
        let got = st.map(cp);
        let direct = |c: u32| t.map_codepoint(c).filter(|g| *g != GlyphId::NOTDEF);
        let want = match direct(cp) {
            Some(g) => Some(g),
            None if is_symbol && cp <= 0xFF => direct(cp + 0xF000),
            None => None,
        };
        assert!(got == want);
        if cp > 0xFFFF {
            assert!(got.is_none());
        }
        kani::cover!(got.is_some() && cp > 0xFF);
        kani::cover!(got.is_some() && is_symbol && cp <= 0xFF && direct(cp).is_none());
        kani::cover!(cp > 0xFFFF);
    }
}
