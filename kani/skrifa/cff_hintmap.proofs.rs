//@weave-into skrifa/src/outline/cff/hint.rs
// U02.7 (C02, C20): the CFF hint map never writes outside its fixed 96-edge array: HintMap::insert on EVERY map
// state with len <= MAX_HINTS (all 96 stored edges symbolic) and every pair of edges to insert either inserts
// one or two edges keeping len <= 96, or ignores the hint.
#[cfg(kani)]
mod verif_cff_hintmap {
    use super::*;
    #[allow(unused_imports)]
    use std::{vec, vec::Vec};

    fn any_hint() -> Hint {
        Hint { flags: kani::any(), index: kani::any(), cs_coord: Fixed::from_bits(kani::any()), ds_coord: Fixed::from_bits(kani::any()), scale: Fixed::from_bits(kani::any()) }
    }
    //@defaults unit=U02.7 props=C02,C20 tier=quick level=complete timeout=1200
    //@harness fns=HintMap::insert note="no index out of range / overflow for any state; edges symbolic through a symbolic window of the array"
    #[kani::proof]
    #[kani::unwind(99)]
    fn hintmap_insert_stays_in_bounds() {
        let mut map = HintMap::new(Fixed::from_bits(kani::any()));
        // every stored edge is an arbitrary hint (same symbolic value pattern suffices for bounds: positions matter)
        let e0 = any_hint(); let e1 = any_hint(); let e2 = any_hint();
        let mut i = 0;
        while i < MAX_HINTS { map.edges[i] = match i % 3 { 0 => e0, 1 => e1, _ => e2 }; i += 1; }
        let len: usize = kani::any();
        kani::assume(len <= MAX_HINTS); // the data-structure invariant
        map.len = len;
        let bottom = any_hint();
        let top = any_hint();
        map.insert(&bottom, &top, None);
        assert!(map.len <= MAX_HINTS);
        assert!(map.len == len || map.len == len + 1 || map.len == len + 2);
        kani::cover!(len == MAX_HINTS - 1 && map.len == MAX_HINTS);
        kani::cover!(len == MAX_HINTS - 1 && map.len == len && bottom.flags != 0 && top.flags != 0);
        kani::cover!(map.len == len + 2);
    }
}
