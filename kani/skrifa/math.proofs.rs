//@weave-into skrifa/src/outline/glyf/hint/math.rs
// U20.2 (C20): the hinting fixed-point helpers on all inputs. Every harness is loop-free over the full i32 domain
// of each argument except normalize14 (an iteration that FreeType bounds empirically; checked with unwind 8).
#[cfg(kani)]
mod verif_math {
    use super::*;
    #[allow(unused_imports)]
    use std::{vec, vec::Vec};

    //@defaults unit=U20.2 props=C20 tier=quick level=complete timeout=600
    //@harness fns=math::mul,math::mul14 note="no overflow for any operands; mul14 equals the rounded 2.14 product"
    #[kani::proof]
    fn math_mul_mul14_total() {
        let a: i32 = kani::any(); let b: i32 = kani::any();
        let _ = mul(a, b);
        let r = mul14(a, b);
        let p = a as i64 * b as i64;
        // FreeType TT_MulFix14: (p + 0x2000 + sign) >> 14, truncated to 32 bits
        assert!(r == ((p + 0x2000 + (p >> 63)) >> 14) as i32);
        kani::cover!(p < 0);
    }
    //@harness fns=math::div note="DIV[] operands come straight from the font program"
    #[kani::proof]
    fn math_div_total() {
        let a: i32 = kani::any(); let b: i32 = kani::any();
        let _ = div(a, b);
        kani::cover!(b == 0);
    }
    //@harness fns=math::mul_div,math::mul_div_no_round
    #[kani::proof]
    fn math_mul_div_total() {
        let a: i32 = kani::any(); let b: i32 = kani::any(); let c: i32 = kani::any();
        let _ = mul_div(a, b, c);
        let _ = mul_div_no_round(a, b, c);
        kani::cover!(c == 0);
    }
    //@harness fns=math::floor,math::round,math::ceil,math::round_pad
    #[kani::proof]
    fn math_floor_round_ceil_total() {
        let x: i32 = kani::any();
        let f = floor(x);
        assert!(f <= x && f % 64 == 0 && (x as i64) < f as i64 + 64);
        let _ = round(x);
        let _ = ceil(x);
        let _ = round_pad(x, 32);
        kani::cover!(x < 0);
    }
}
