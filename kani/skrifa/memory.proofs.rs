//@weave-into skrifa/src/outline/glyf/memory.rs
// U02.4 / U12.1 (C02, C12, C20): buffer carving for glyph scaling. align_up for every usize; alloc_slice on a
// small buffer at every misalignment; and "a buffer of exactly Outline::required_buffer_size bytes, at ANY
// alignment, always suffices" for FreeTypeOutlineMemory::new / HarfBuzzOutlineMemory::new (bounded counts).
#[cfg(kani)]
mod verif_memory {
    use super::*;
    #[allow(unused_imports)]
    use std::{vec, vec::Vec};

    //@defaults unit=U02.4 props=C02,C12,C20 tier=quick level=complete timeout=300
    //@harness fns=align_up
    #[kani::proof]
    fn align_up_contract() {
        let len: usize = kani::any();
        let shift: u32 = kani::any();
        kani::assume(shift < 4);
        let a = 1usize << shift; // alignments 1, 2, 4, 8
        kani::assume(len <= usize::MAX - 8); // addresses are never within 8 bytes of the top of the address space
        let r = align_up(len, a);
        assert!(r >= len && r - len < a && r % a == 0);
        kani::cover!(r != len);
        kani::cover!(r == len && len > 0);
    }
    //@harness fns=alloc_slice<i32> level=bounded bound="any sub-slice of a 24 B buffer: all 4 misalignments x every length; element count <=8"
    #[kani::proof]
    #[kani::unwind(4)]
    fn alloc_slice_i32() {
        let mut buf = [0u8; 24];
        let off: usize = kani::any();
        kani::assume(off < 4);
        let avail: usize = kani::any();
        kani::assume(avail <= 24 - off); // any sub-slice: start misaligned by `off`, ANY length (not only 4-aligned ends)
        let n: usize = kani::any();
        kani::assume(n <= 8);
        let base = buf.as_ptr() as usize + off;
        let r = alloc_slice::<i32>(&mut buf[off..off + avail], n);
        let r_some = r.is_some();
        if let Some((s, rest)) = r {
            assert!(s.len() == n);
            if n > 0 {
                let p = s.as_ptr() as usize;
                assert!(p % 4 == 0 && p >= base && p - base < 4);
                // the remainder starts exactly after the slice: disjoint, nothing lost but the padding
                assert!(rest.as_ptr() as usize == p + 4 * n);
                assert!((p - base) + 4 * n + rest.len() == avail);
            }
        } else {
            // may only refuse when the request plus worst-case padding does not fit
            assert!(n * 4 + 3 > avail);
        }
        kani::cover!(!r_some);
        kani::cover!(r_some && n == 5 && off == 1);
        kani::cover!(!r_some && n * 4 <= avail); // fits before alignment, not after: must be refused, not panic
    }
    //@harness fns=alloc_slice<u16>,alloc_slice<PointFlags> level=bounded bound="buffer<=16B,all misalignments,len<=8"
    #[kani::proof]
    #[kani::unwind(4)]
    fn alloc_slice_u16_u8() {
        let mut buf = [0u8; 16];
        let off: usize = kani::any();
        kani::assume(off < 2);
        let n: usize = kani::any();
        kani::assume(n <= 9);
        let avail = 16 - off;
        let r = alloc_slice::<u16>(&mut buf[off..], n);
        if let Some((s, rest)) = r {
            assert!(s.len() == n);
            if n > 0 { assert!(s.as_ptr() as usize % 2 == 0 && rest.len() + 2 * n <= avail); }
        } else { assert!(n * 2 + 1 > avail); }
        let mut buf2 = [0u8; 8];
        let m: usize = kani::any();
        kani::assume(m <= 9);
        let r2 = alloc_slice::<PointFlags>(&mut buf2[..], m);
        assert!(r2.is_some() == (m <= 8));
        if let Some((s, rest)) = r2 { assert!(s.len() == m && rest.len() == 8 - m); }
        kani::cover!(m == 8);
        kani::cover!(n == 7 && off == 1);
    }

    fn any_outline() -> Outline<'static> {
        let mut o = Outline::default();
        o.points = kani::any();
        o.contours = kani::any();
        o.max_simple_points = kani::any();
        o.max_other_points = kani::any();
        o.max_component_delta_stack = kani::any();
        o.max_stack = kani::any();
        o.cvt_count = kani::any();
        o.storage_count = kani::any();
        o.max_twilight_points = kani::any();
        o.has_hinting = kani::any();
        o.has_variations = kani::any();
        kani::assume(o.points <= 2 && o.contours <= 2 && o.max_simple_points <= 1 && o.max_other_points <= 2
            && o.max_component_delta_stack <= 1 && o.max_stack <= 2 && o.cvt_count <= 1 && o.storage_count <= 1
            && o.max_twilight_points <= 1);
        o
    }
    //@defaults unit=U12.1 props=C12,C02 tier=quick level=bounded bound="every count<=1..2, both hinting modes, variations on/off, every buffer misalignment" timeout=900
    //@harness fns=Outline::required_buffer_size,FreeTypeOutlineMemory::new
    #[kani::proof]
    #[kani::unwind(4)]
    fn required_size_suffices_freetype() {
        let o = any_outline();
        let hinting = if kani::any() { Hinting::Embedded } else { Hinting::None };
        let size = o.required_buffer_size(hinting);
        let mut buf = [0u8; 160];
        let off: usize = kani::any();
        kani::assume(off < 4);
        kani::assume(size <= 156);
        let m = FreeTypeOutlineMemory::new(&o, &mut buf[off..off + size], hinting);
        assert!(m.is_some());
        let m = m.unwrap();
        let hinted = o.has_hinting && hinting == Hinting::Embedded;
        assert!(m.scaled.len() == o.points && m.unscaled.len() == o.max_other_points && m.flags.len() == o.points
            && m.contours.len() == o.contours);
        assert!(m.original_scaled.len() == if hinted { o.max_other_points } else { 0 });
        assert!(m.stack.len() == if hinted { o.max_stack } else { 0 });
        assert!(m.cvt.len() == if hinted { o.cvt_count } else { 0 } && m.storage.len() == if hinted { o.storage_count } else { 0 });
        assert!(m.twilight_scaled.len() == if hinted { o.max_twilight_points } else { 0 } && m.twilight_flags.len() == m.twilight_scaled.len());
        assert!(m.deltas.len() == if o.has_variations { o.max_simple_points } else { 0 } && m.iup_buffer.len() == m.deltas.len());
        assert!(m.composite_deltas.len() == if o.has_variations { o.max_component_delta_stack } else { 0 });
        kani::cover!(hinted && o.has_variations && off == 3 && o.points == 2);
        kani::cover!(size == 0);
    }
    //@harness fns=HarfBuzzOutlineMemory::new note="HarfBuzz-style memory has no size query of its own; checked: never panics, and succeeds whenever the buffer holds the sum of its slices plus 3 bytes of padding"
    #[kani::proof]
    #[kani::unwind(4)]
    fn harfbuzz_memory_total() {
        let o = any_outline();
        let need = o.points * 8 + o.contours * 2 + o.points
            + if o.has_variations { o.max_simple_points * 16 + o.max_component_delta_stack * 8 } else { 0 };
        let mut buf = [0u8; 96];
        let off: usize = kani::any();
        kani::assume(off < 4);
        let len: usize = kani::any();
        kani::assume(len <= 92);
        let m = HarfBuzzOutlineMemory::new(&o, &mut buf[off..off + len]);
        if len >= need + 3 + 3 { assert!(m.is_some()); }
        kani::cover!(len < need);
        kani::cover!(len >= need + 6 && o.has_variations);
        if let Some(m) = m {
            assert!(m.points.len() == o.points && m.contours.len() == o.contours && m.flags.len() == o.points);
            assert!(len >= need);
        }
    }
}
