//@weave-into skrifa/src/metrics.rs
// C02 / C20 / C11: GlyphMetrics over an hmtx table of ARBITRARY bytes, any glyph count, any scale factor: advance_width and
// left_side_bearing never panic or overflow, answer None exactly beyond the glyph count, use the last long metric's advance
// beyond the long metrics, and scale by mul_div(value, scale, 64) (FreeType's metric scaling).
#[cfg(kani)]
mod verif_metrics {
    use super::*;
    use read_fonts::{tables::hmtx::Hmtx, FontData, FontReadWithArgs};

    //@defaults unit=U02.9 props=C02,C20,C11 tier=quick level=bounded bound="hmtx of any bytes <= 14 B, numberOfHMetrics <= 3, any glyph count, any 16.16 scale, no HVAR/gvar" timeout=900
    //@harness fns=GlyphMetrics::advance_width,GlyphMetrics::left_side_bearing,GlyphMetrics::glyph_count,FixedScaleFactor::apply tier=thorough timeout=2400
    #[kani::proof]
    #[kani::unwind(6)]
    fn glyph_metrics_total_and_scaled() {
        let b: [u8; 14] = kani::any();
        let len: usize = kani::any();
        kani::assume(len <= 14);
        let n_long: u16 = kani::any();
        kani::assume(n_long <= 3);
        let n_glyphs: u16 = kani::any();
        kani::assume(n_glyphs <= 6);
        let Ok(hmtx) = Hmtx::read_with_args(FontData::new(&b[..len]), &(n_long, n_glyphs)) else { return; };
        let h_metrics = hmtx.h_metrics();
        let scale = Fixed::from_bits(kani::any());
        let m = GlyphMetrics {
            glyph_count: kani::any(),
            fixed_scale: FixedScaleFactor(scale),
            h_metrics,
            default_advance_width: h_metrics.last().map(|m| m.advance.get()).unwrap_or(0),
            lsbs: hmtx.left_side_bearings(),
            hvar: None,
            gvar: None,
            loca_glyf: None,
            coords: &[],
        };
        let g: u32 = kani::any();
        let gid = GlyphId::new(g);
        let a = m.advance_width(gid);
        let l = m.left_side_bearing(gid);
        assert!(a.is_some() == (g < m.glyph_count()) && l.is_some() == (g < m.glyph_count()));
        if let Some(a) = a {
            let raw = match h_metrics.get(g as usize) { Some(x) => x.advance(), None => h_metrics.last().map(|x| x.advance()).unwrap_or(0) } as i32;
            assert!(a == scale.mul_div(Fixed::from_bits(raw), Fixed::from_bits(64)).to_f32());
        }
        if let Some(l) = l {
            let raw = match h_metrics.get(g as usize) {
                Some(x) => x.side_bearing(),
                None => m.lsbs.get((g as usize).saturating_sub(h_metrics.len())).map(|x| x.get()).unwrap_or(0),
            } as i32;
            assert!(l == scale.mul_div(Fixed::from_bits(raw), Fixed::from_bits(64)).to_f32());
        }
        assert!(m.bounds(gid).is_none());
        kani::cover!(a.is_some() && g as usize >= h_metrics.len() && !h_metrics.is_empty());
        kani::cover!(a.is_none());
    }
    //@harness fns=Size::fixed_linear_scale,Size::linear_scale unit=U02.9 bound="any f32 ppem (NaN, infinities included), any units per em"
    #[kani::proof]
    fn size_scale_total() {
        let ppem: f32 = kani::any();
        let upem: u16 = kani::any();
        let s = if kani::any() { Size::new(ppem) } else { Size::unscaled() };
        let f = s.fixed_linear_scale(upem);
        let l = s.linear_scale(upem);
        if s.ppem().is_none() || upem == 0 { assert!(f == Fixed::from_bits(0x10000 * 64) && l == 1.0); }
        kani::cover!(s.ppem().is_some() && upem == 1000);
    }
}
