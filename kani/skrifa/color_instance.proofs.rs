//@weave-into skrifa/src/color/instance.rs
// C20 / C13 on the COLR variation-delta lookup (U20.6): ColrInstance::var_deltas takes its base index straight from a paint
// table (font data). For EVERY base index, any coordinate (over an empty item variation store) it returns N
// deltas without tripping an overflow check; the reserved base 0xFFFFFFFF yields all-zero deltas.
#[cfg(kani)]
mod verif_color_instance {
    use super::*;
    use read_fonts::{types::FWord, FontData, FontRead};

    //@harness unit=U20.6 props=C20,C13,C02 tier=quick level=bounded bound="any var index base; one fixed empty item variation store; one coordinate; N = 3; no DeltaSetIndexMap" timeout=1800 fns=ColrInstance::var_deltas
    #[kani::proof]
    #[kani::unwind(6)]
    fn colr_var_deltas_total_for_every_base() {
        let colr_bytes = [0u8; 14];
        let colr = Colr::read(FontData::new(&colr_bytes)).unwrap();
        // an item variation store without data sets (format 1, region list offset 8, zero ItemVariationData): every lookup
        // fails inside compute_float_delta, which var_deltas maps to a zero delta (symbolic stores exhausted 1800 s in CBMC)
        let ivs: [u8; 12] = [0, 1, 0, 0, 0, 8, 0, 0, 0, 0, 0, 0];
        let var_store = ItemVariationStore::read(FontData::new(&ivs)).unwrap();
        let coords = [F2Dot14::from_bits(kani::any())];
        let inst = ColrInstance { colr, index_map: None, var_store: Some(var_store), coords: &coords };
        let base: u32 = kani::any();
        let d = inst.var_deltas::<3>(base);
        if base == 0xFFFF_FFFF {
            // FloatItemDelta has no PartialEq: observe it through the FWord target (0 + delta)
            let z = FWord::new(0);
            assert!(z.apply_float_delta(d[0]) == 0.0 && z.apply_float_delta(d[1]) == 0.0 && z.apply_float_delta(d[2]) == 0.0);
        }
        kani::cover!(base == 0xFFFF_FFFE);
        kani::cover!(base == 0xFFFF_FFFF);
        kani::cover!(base == 0);
    }
}
