//@weave-into skrifa/src/outline/glyf/hint/engine/mod.rs
// U02.2b (C02, C20): the execution budget of the bytecode interpreter trips and never overflows: for every budget state
// that has not tripped yet (counters <= limit) and every loop-call count the interpreter can pop (<= i32::MAX).
#[cfg(kani)]
mod verif_loop_budget {
    use super::*;
    #[allow(unused_imports)]
    use std::{vec, vec::Vec};

    //@defaults unit=U02.2b props=C02,C20 tier=quick level=complete timeout=300
    //@harness fns=LoopBudget::doing_backward_jump,LoopBudget::doing_loop_call,LoopBudget::reset
    #[kani::proof]
    fn loop_budget_trips_without_overflow() {
        let limit: usize = kani::any();
        let bj: usize = kani::any();
        let lc: usize = kani::any();
        // limit is (points*10).max(50) + (cvt/10).max(50) or 300 + 22*cvt with cvt: u32 => far below 2^40;
        // a budget that has not tripped has counters <= limit (execution stops at the first error)
        kani::assume(limit < (1usize << 40) && bj <= limit && lc <= limit);
        let mut b = LoopBudget { limit, backward_jumps: bj, loop_calls: lc };
        let r = b.doing_backward_jump();
        assert!(r.is_ok() == (bj + 1 <= limit) && b.backward_jumps == bj + 1);
        let count: usize = kani::any();
        kani::assume(count <= i32::MAX as usize); // pop_count_checked yields a non-negative i32
        let r2 = b.doing_loop_call(count);
        assert!(r2.is_ok() == (lc + count <= limit) && b.loop_calls == lc + count);
        b.reset();
        assert!(b.backward_jumps == 0 && b.loop_calls == 0 && b.limit == limit);
        kani::cover!(r.is_err());
        kani::cover!(r2.is_ok() && count > 0);
    }
}
