//@weave-into skrifa/src/variation.rs
// C02 (metadata queries are total on hostile fonts) / C11 (out-of-range user values clamp): AxisCollection over an fvar
// table whose single axis record is ARBITRARY bytes (min > max, default outside the range, any tag) and any f32 setting
// value (NaN and infinities included): len/get/get_by_tag/iter, the f32 accessors and filter never panic, and filter
// returns the setting clamped into [min, max] whenever the axis range is well-formed.
#[cfg(kani)]
mod verif_variation {
    use super::*;
    use read_fonts::{FontData, FontRead};

    fn one_axis_fvar(axis: &[u8; 20]) -> [u8; 36] {
        let mut b = [0u8; 36];
        // version 1.0, axes array offset 16, reserved 2, axis count 1, axis size 20, instance count 0, instance size 8
        b[..16].copy_from_slice(&[0, 1, 0, 0, 0, 16, 0, 2, 0, 1, 0, 20, 0, 0, 0, 8]);
        b[16..].copy_from_slice(axis);
        b
    }

    //@defaults unit=U02.8 props=C02,C11,C20 tier=quick level=bounded bound="fvar with one axis record of arbitrary bytes; one setting with any tag and any f32 value" timeout=900
    //@harness fns=AxisCollection::filter,AxisCollection::len,AxisCollection::get,AxisCollection::get_by_tag,AxisCollection::iter,Axis::min_value,Axis::max_value,Axis::default_value,Axis::tag,Axis::is_hidden
    #[kani::proof]
    #[kani::unwind(10)]
    fn axis_collection_filter_total_and_clamps() {
        let axis: [u8; 20] = kani::any();
        let bytes = one_axis_fvar(&axis);
        let Ok(fvar) = Fvar::read(FontData::new(&bytes)) else { return; };
        let axes = AxisCollection { fvar: Some(fvar), avar: None };
        assert!(axes.len() == 1 && !axes.is_empty());
        let a = axes.get(0).unwrap();
        assert!(axes.get(1).is_none());
        let (min, def, max) = (a.min_value(), a.default_value(), a.max_value());
        assert!(min.is_finite() && def.is_finite() && max.is_finite());
        let _ = a.is_hidden();
        let tag = a.tag();
        assert!(axes.get_by_tag(tag).is_some());
        let sel: [u8; 4] = kani::any();
        let sel = Tag::new(&sel);
        let value: f32 = kani::any();
        let mut it = axes.filter([(sel, value)]);
        let first = it.next();
        assert!(it.next().is_none());
        match first {
            None => assert!(sel != tag),
            Some(s) => {
                assert!(sel == tag && s.selector == tag);
                if min <= max && !value.is_nan() {
                    // clamped into the axis range
                    assert!(s.value >= min && s.value <= max);
                    if value >= min && value <= max { assert!(s.value == value); }
                }
            }
        }
        kani::cover!(first.is_some() && min > max);
        kani::cover!(first.is_some() && value.is_nan());
        kani::cover!(first.is_none());
    }
}
