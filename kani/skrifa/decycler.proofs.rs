//@weave-into skrifa/src/decycler.rs
// U13.3 (C13, C02): Decycler<usize, 64>::enter and the guard's drop, for EVERY state with depth <= 64
// (all 64 stored ids and the new id fully symbolic). Loop-free => complete proof.
#[cfg(kani)]
mod verif_decycler {
    use super::*;
    #[allow(unused_imports)]
    use std::{vec, vec::Vec};

    //@defaults unit=U13.3 props=C13,C02,C20 tier=quick level=complete timeout=300
    //@harness fns=Decycler::enter,DecyclerGuard::drop,DecyclerGuard::deref_mut
    #[kani::proof]
    fn decycler_enter_contract() {
        let node_ids: [usize; 64] = kani::any();
        let depth: usize = kani::any();
        kani::assume(depth <= 64); // the data-structure invariant (established by new(), preserved below)
        let id: usize = kani::any();
        let mut d = Decycler::<usize, 64> { node_ids, depth };
        let k: usize = kani::any();
        kani::assume(k < 64);
        {
            let r = d.enter(id);
            match r {
                Ok(mut guard) => {
                    assert!(depth < 64);
                    assert!(depth == 0 || node_ids[depth / 2] != id);
                    assert!(guard.depth == depth + 1 && guard.depth <= 64);
                    assert!(guard.node_ids[depth] == id);
                    if k != depth { assert!(guard.node_ids[k] == node_ids[k]); } // frame
                    // nested use through DerefMut keeps the invariant
                    let id2: usize = kani::any();
                    let r2 = guard.enter(id2);
                    if let Ok(g2) = &r2 { assert!(g2.depth == depth + 2 && g2.depth <= 64); }
                    drop(r2);
                    assert!(guard.depth == depth + 1);
                }
                Err(DecyclerError::DepthLimitExceeded) => {
                    assert!(depth == 64);
                }
                Err(DecyclerError::CycleDetected) => {
                    assert!(depth > 0 && depth < 64 && node_ids[depth / 2] == id);
                }
            }
        }
        // every guard dropped: depth restored exactly (cannot underflow), stored ids below depth untouched
        assert!(d.depth == depth);
        if k < depth { assert!(d.node_ids[k] == node_ids[k]); }
        kani::cover!(depth == 64);
        kani::cover!(depth == 63);
        kani::cover!(depth == 0);
    }
    //@harness fns=Decycler::new,Decycler::default
    #[kani::proof]
    #[kani::unwind(66)]
    fn decycler_new_contract() {
        let d = Decycler::<usize, 64>::new();
        assert!(d.depth == 0);
        let e = Decycler::<usize, 64>::default();
        assert!(e.depth == 0);
        kani::cover!(true);
    }
}
