//@weave-into skrifa/src/outline/glyf/hint/value_stack.rs
// U02.1 (C02, C20): the TrueType interpreter's value stack never indexes out of range and never panics;
// every operation either performs the documented stack effect or refuses with ValueStackOverflow/Underflow
// (or yields 0 in non-pedantic mode). Contents, current length and the pedantic flag are symbolic;
// bounded in the CAPACITY of the backing slice (<= 5) only.
#[cfg(kani)]
mod verif_value_stack {
    use super::*;
    #[allow(unused_imports)]
    use std::{vec, vec::Vec};
    const CAP: usize = 5;

    fn setup<'a>(buf: &'a mut [i32; CAP]) -> (ValueStack<'a>, usize, usize, bool) {
        let cap: usize = kani::any();
        kani::assume(cap <= CAP);
        let len: usize = kani::any();
        kani::assume(len <= cap); // invariant: len <= values.len()
        let pedantic: bool = kani::any();
        let mut s = ValueStack::new(&mut buf[..cap], pedantic);
        s.len = len;
        (s, cap, len, pedantic)
    }

    //@defaults unit=U02.1 props=C02,C20 tier=quick level=bounded bound="capacity<=5;contents,len,pedantic symbolic" timeout=300
    //@harness fns=ValueStack::push,ValueStack::pop,ValueStack::peek,ValueStack::len,ValueStack::values
    #[kani::proof]
    #[kani::unwind(7)]
    fn vs_push_pop_peek() {
        let mut buf: [i32; CAP] = kani::any();
        let old = buf;
        let (mut s, cap, len, pedantic) = setup(&mut buf);
        let v: i32 = kani::any();
        let r = s.push(v);
        assert!(r.is_ok() == (len < cap));
        match r {
            Ok(()) => { assert!(s.len() == len + 1 && s.values()[len] == v); }
            Err(e) => { assert!(matches!(e, HintErrorKind::ValueStackOverflow) && s.len() == len); }
        }
        let l1 = s.len();
        let top = if l1 > 0 { Some(s.values()[l1 - 1]) } else { None };
        assert!(s.peek() == top && s.len() == l1);
        let p = s.pop();
        match top {
            Some(t) => { assert!(matches!(p, Ok(x) if x == t) && s.len() == l1 - 1); }
            None => {
                assert!(s.len() == 0);
                if pedantic { assert!(matches!(p, Err(HintErrorKind::ValueStackUnderflow))); } else { assert!(matches!(p, Ok(0))); }
            }
        }
        assert!(s.len() <= cap);
        kani::cover!(len == cap && cap > 0);
        kani::cover!(len == 0 && !pedantic);
        // frame: nothing below the touched slot changed
        let k: usize = kani::any();
        if k < len { assert!(s.values.len() == cap && s.values[k] == old[k]); }
    }
    //@harness fns=ValueStack::dup,ValueStack::swap,ValueStack::roll,ValueStack::clear
    #[kani::proof]
    #[kani::unwind(7)]
    fn vs_dup_swap_roll_clear() {
        let mut buf: [i32; CAP] = kani::any();
        let old = buf;
        let (mut s, cap, len, pedantic) = setup(&mut buf);
        let which: u8 = kani::any();
        match which % 4 {
            0 => {
                let r = s.dup();
                if len > 0 && len < cap { assert!(r.is_ok() && s.len() == len + 1 && s.values()[len] == old[len - 1] && s.values()[len - 1] == old[len - 1]); }
                if len == cap && (len > 0 || !pedantic) { assert!(matches!(r, Err(HintErrorKind::ValueStackOverflow))); }
                if len == 0 && pedantic { assert!(matches!(r, Err(HintErrorKind::ValueStackUnderflow)) && s.len() == 0); }
                if len == 0 && !pedantic && cap > 0 { assert!(r.is_ok() && s.len() == 1 && s.values()[0] == 0); }
            }
            1 => {
                let r = s.swap();
                if len >= 2 { assert!(r.is_ok() && s.len() == len && s.values()[len - 1] == old[len - 2] && s.values()[len - 2] == old[len - 1]); }
                if len < 2 && pedantic { assert!(r.is_err()); }
            }
            2 => {
                let r = s.roll();
                // ROLL: a b c -> b c a with c on top before: (c=top) => new top is third
                if len >= 3 {
                    assert!(r.is_ok() && s.len() == len);
                    assert!(s.values()[len - 1] == old[len - 3] && s.values()[len - 2] == old[len - 1] && s.values()[len - 3] == old[len - 2]);
                }
                if len < 3 && pedantic { assert!(r.is_err()); }
            }
            _ => { s.clear(); assert!(s.len() == 0); }
        }
        assert!(s.len() <= cap);
        kani::cover!(which % 4 == 2 && len >= 3);
        kani::cover!(which % 4 == 0 && len == cap);
    }
    //@harness fns=ValueStack::copy_index,ValueStack::move_index
    #[kani::proof]
    #[kani::unwind(7)]
    fn vs_copy_move_index() {
        let mut buf: [i32; CAP] = kani::any();
        let old = buf;
        let (mut s, cap, len, _pedantic) = setup(&mut buf);
        let mv: bool = kani::any();
        let k: usize = kani::any();
        kani::assume(k < CAP);
        if !mv {
            // CINDEX: replace the top (an index k, 1-based from below the top) by a copy of that element
            let r = s.copy_index();
            if len == 0 { assert!(matches!(r, Err(HintErrorKind::ValueStackUnderflow))); }
            else {
                let idx = old[len - 1] as usize; // negative values wrap to huge and must be refused
                if idx <= len - 1 {
                    assert!(r.is_ok() && s.len() == len && s.values()[len - 1] == old[len - 1 - idx]);
                    if k < len - 1 { assert!(s.values()[k] == old[k]); }
                } else { assert!(matches!(r, Err(HintErrorKind::ValueStackUnderflow)) && s.len() == len); }
            }
        } else {
            // MINDEX: pop k; move the k-th element (from the top, 1-based) to the top
            let r = s.move_index();
            if len == 0 { assert!(matches!(r, Err(HintErrorKind::ValueStackUnderflow))); }
            else {
                let idx = old[len - 1] as usize;
                if idx == 0 && len >= 2 {
                    // index 0 (FreeType: ignored / error when pedantic): accepted here; only totality is claimed
                    assert!(r.is_ok() && s.len() == len - 1);
                } else if idx <= len - 1 && len >= 2 {
                    assert!(r.is_ok() && s.len() == len - 1);
                    let e = len - 1 - idx;
                    assert!(s.values()[len - 2] == old[e]);
                    if k < e { assert!(s.values()[k] == old[k]); }
                    if k >= e && k + 1 < len - 1 { assert!(s.values()[k] == old[k + 1]); }
                } else { assert!(r.is_err() && s.len() == len); }
            }
        }
        assert!(s.len() <= cap);
        kani::cover!(mv && len == 4 && old[3] == 2);
        kani::cover!(!mv && len > 0 && old[len - 1] < 0);
    }
    //@harness fns=ValueStack::pop_count_checked,ValueStack::pop_usize,ValueStack::pop_f26dot6,ValueStack::apply_unary,ValueStack::apply_binary
    #[kani::proof]
    #[kani::unwind(7)]
    fn vs_pop_variants_apply() {
        let mut buf: [i32; CAP] = kani::any();
        let old = buf;
        let (mut s, cap, len, pedantic) = setup(&mut buf);
        let which: u8 = kani::any();
        match which % 4 {
            0 => {
                let r = s.pop_count_checked();
                if len > 0 {
                    let v = old[len - 1];
                    if v < 0 && pedantic { assert!(matches!(r, Err(HintErrorKind::InvalidStackValue(x)) if x == v)); }
                    else { assert!(matches!(r, Ok(c) if c == (if v < 0 { 0 } else { v as usize }))); }
                }
            }
            1 => { let r = s.pop_f26dot6(); if len > 0 { assert!(matches!(r, Ok(x) if x.to_bits() == old[len - 1])); } }
            2 => {
                let r = s.apply_unary(|a| Ok(a.wrapping_neg()));
                if len > 0 { assert!(r.is_ok() && s.len() == len && s.values()[len - 1] == old[len - 1].wrapping_neg()); }
            }
            _ => {
                let r = s.apply_binary(|a, b| Ok(a.wrapping_sub(b)));
                if len >= 2 { assert!(r.is_ok() && s.len() == len - 1 && s.values()[len - 2] == old[len - 2].wrapping_sub(old[len - 1])); }
            }
        }
        assert!(s.len() <= cap);
        kani::cover!(which % 4 == 3 && len >= 2);
        kani::cover!(which % 4 == 0 && len > 0 && old[len - 1] < 0 && !pedantic);
    }
}
