//@weave-into skrifa/src/outline/path.rs
// C12 (a successful draw emits a well-formed command sequence: each contour one move, then segments, then one close; all
// coordinates finite) / C02 (total): to_path + contour_to_path on ANY point / flag / contour-end arrays of bounded length,
// both path styles, with a pen that checks the command grammar as it goes.
#[cfg(kani)]
mod verif_path {
    use super::*;

    #[derive(Default)]
    struct GrammarPen { open: bool, moves: u32, closes: u32, segments_in_open: u32, bad: bool, nonfinite: bool }
    impl GrammarPen {
        fn fin(&mut self, v: &[f32]) { let mut i = 0; while i < v.len() { if !v[i].is_finite() { self.nonfinite = true; } i += 1; } }
    }
    impl OutlinePen for GrammarPen {
        fn move_to(&mut self, x: f32, y: f32) { if self.open { self.bad = true; } self.open = true; self.moves += 1; self.fin(&[x, y]); }
        fn line_to(&mut self, x: f32, y: f32) { if !self.open { self.bad = true; } self.segments_in_open += 1; self.fin(&[x, y]); }
        fn quad_to(&mut self, a: f32, b: f32, x: f32, y: f32) { if !self.open { self.bad = true; } self.segments_in_open += 1; self.fin(&[a, b, x, y]); }
        fn curve_to(&mut self, a: f32, b: f32, c: f32, d: f32, x: f32, y: f32) { if !self.open { self.bad = true; } self.segments_in_open += 1; self.fin(&[a, b, c, d, x, y]); }
        fn close(&mut self) { if !self.open { self.bad = true; } self.open = false; self.closes += 1; }
    }

    //@defaults unit=U12.3 props=C12,C02 tier=quick level=bounded bound="<= 3 points (any i32 coordinates, any flag bytes), 1 contour end index (any u16), both path styles" timeout=2400 tier=thorough
    //@harness fns=to_path,contour_to_path,PendingState::emit,ContourPoint::midpoint,ContourPoint::point_f32
    #[kani::proof]
    #[kani::unwind(10)]
    fn to_path_emits_well_formed_commands() {
        let xs: [i32; 3] = kani::any();
        let ys: [i32; 3] = kani::any();
        let fb: [u8; 3] = kani::any();
        let pts = [Point::new(xs[0], ys[0]), Point::new(xs[1], ys[1]), Point::new(xs[2], ys[2])];
        let fl = [PointFlags::from_bits(fb[0]), PointFlags::from_bits(fb[1]), PointFlags::from_bits(fb[2])];
        let ends: [u16; 1] = kani::any();
        let (np, nf, nc): (usize, usize, usize) = kani::any();
        kani::assume(np <= 3 && nf <= 3 && nc <= 1);
        let style = if kani::any() { PathStyle::FreeType } else { PathStyle::HarfBuzz };
        let mut pen = GrammarPen::default();
        let r = to_path(&pts[..np], &fl[..nf], &ends[..nc], style, &mut pen);
        // never a segment or close outside a contour, never a move inside one, all coordinates finite
        assert!(!pen.bad && !pen.nonfinite);
        if r.is_ok() {
            // every contour that was opened was closed exactly once
            assert!(!pen.open && pen.moves == pen.closes && pen.moves as usize <= nc);
        }
        kani::cover!(r.is_ok() && pen.moves == 1);
        kani::cover!(r.is_err());
        kani::cover!(r.is_ok() && pen.segments_in_open >= 2);
    }
}
