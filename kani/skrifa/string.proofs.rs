//@weave-into skrifa/src/string.rs
// C02 metadata totality (U02.10): decoding a name-table language tag of ARBITRARY UTF-16BE bytes into the inline 30-byte buffer
// never writes past the buffer; the result is Some exactly for all-ASCII tags of at most 30 characters and then spells the tag.
#[cfg(kani)]
mod verif_string {
    use super::*;
    use read_fonts::{tables::name::LangTagRecord, FontData};

    //@harness unit=U02.10 props=C02,C01 tier=quick level=bounded bound="language tag of any length <= 64 B (32 UTF-16 units: past the 30-character inline capacity) whose units are ASCII a except one arbitrary unit at any position" timeout=1800 fns=Language::from_name_string,NameString::chars,CharIter::next
    #[kani::proof]
    #[kani::unwind(36)]
    fn language_tag_decoding_total_and_exact() {
        let len: u16 = kani::any();
        kani::assume(len <= 64);
        let rec_bytes = [(len >> 8) as u8, len as u8, 0, 0];
        let rec: &LangTagRecord = FontData::new(&rec_bytes).read_ref_at(0).unwrap();
        // every UTF-16 unit is 'a' except one unit with arbitrary bytes at an arbitrary position (fully symbolic strings did not
        // finish in 1800 s)
        let mut sdata = [0u8; 64];
        let mut i = 0;
        while i < 32 {
            sdata[2 * i + 1] = b'a';
            i += 1;
        }
        let p: usize = kani::any();
        kani::assume(p < 32);
        sdata[2 * p] = kani::any();
        sdata[2 * p + 1] = kani::any();
        let Ok(s) = rec.lang_tag(FontData::new(&sdata)) else { return; };
        let units = (len / 2) as usize;
        let ascii = !(p < units) || (sdata[2 * p] == 0 && sdata[2 * p + 1] < 0x80);
        let r = Language::from_name_string(&s);
        if len % 2 == 0 {
            match &r {
                Some(l) => {
                    assert!(ascii && units <= MAX_INLINE_LANGUAGE_LEN);
                    assert!(matches!(l, Language::Inline { len: n, .. } if *n as usize == units));
                }
                None => assert!(!ascii || units > MAX_INLINE_LANGUAGE_LEN),
            }
        }
        kani::cover!(r.is_some() && units == 30);
        kani::cover!(r.is_none() && ascii && units == 31);
        kani::cover!(r.is_none() && !ascii && units < 30);
    }
}
