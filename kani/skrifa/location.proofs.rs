//@weave-into skrifa/src/instance.rs
// U12.2 (C12): an all-zero location is the default instance: is_default()/effective_coords() (what drawing, metrics and
// colour painting consult) treat an all-zero coordinate vector exactly like no coordinates, and leave any other vector as is.
#[cfg(kani)]
mod verif_location {
    use super::*;
    #[allow(unused_imports)]
    use std::{vec, vec::Vec};

    //@defaults unit=U12.2 props=C12 tier=quick level=bounded bound="coordinate vectors of length <=4, every F2Dot14 value" timeout=300
    //@harness fns=LocationRef::is_default,LocationRef::effective_coords,LocationRef::coords
    #[kani::proof]
    #[kani::unwind(6)]
    fn location_default_iff_all_zero() {
        let raw: [i16; 4] = kani::any();
        let coords = [NormalizedCoord::from_bits(raw[0]), NormalizedCoord::from_bits(raw[1]), NormalizedCoord::from_bits(raw[2]), NormalizedCoord::from_bits(raw[3])];
        let len: usize = kani::any();
        kani::assume(len <= 4);
        let loc = LocationRef::new(&coords[..len]);
        let mut all_zero = true;
        let mut i = 0;
        while i < len { if raw[i] != 0 { all_zero = false; } i += 1; }
        assert!(loc.is_default() == all_zero);
        let eff = loc.effective_coords();
        if all_zero { assert!(eff.is_empty()); } else {
            assert!(eff.len() == len);
            let k: usize = kani::any();
            if k < len { assert!(eff[k] == coords[k]); }
        }
        assert!(loc.coords().len() == len);
        kani::cover!(all_zero && len == 3);
        kani::cover!(!all_zero && len == 4);
    }
}
