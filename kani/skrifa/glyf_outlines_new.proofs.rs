//@weave-into skrifa/src/outline/glyf/mod.rs
// C20 / C02, U20.8: Outlines::new on a font whose 'maxp' table is ARBITRARY bytes (both versions, every limit value): construction
// never overflows or panics, and the interpreter limits it records are the font's values widened exactly as documented
// (maxStackElements + 32 and maxTwilightPoints + 4, saturating at u16::MAX; the other limits verbatim; zero for a version 0.5 maxp).
// The rest of the font (table directory, head, hhea, hmtx, loca, glyf) is a fixed minimal skeleton; numGlyphs is symbolic, so both the
// "hmtx too short -> None" and the "Some" paths are explored.
#[cfg(kani)]
mod verif_outlines_new {
    use super::*;

    const N_TABLES: usize = 6;
    const DIR_END: usize = 12 + 16 * N_TABLES; // 108
    const GLYF_OFF: usize = DIR_END; // 4 B
    const HEAD_OFF: usize = GLYF_OFF + 4; // 54 B (+2 pad)
    const HHEA_OFF: usize = HEAD_OFF + 56; // 36 B
    const HMTX_OFF: usize = HHEA_OFF + 36; // 8 B: one long metric + two side bearings
    const LOCA_OFF: usize = HMTX_OFF + 8; // 8 B
    const MAXP_OFF: usize = LOCA_OFF + 8; // 32 B
    const FONT_LEN: usize = MAXP_OFF + 32;

    fn put_record(font: &mut [u8; FONT_LEN], i: usize, tag: &[u8; 4], off: usize, len: usize) {
        let r = 12 + 16 * i;
        font[r..r + 4].copy_from_slice(tag);
        font[r + 8..r + 12].copy_from_slice(&(off as u32).to_be_bytes());
        font[r + 12..r + 16].copy_from_slice(&(len as u32).to_be_bytes());
    }

    //@harness unit=U20.8 props=C20 tier=thorough level=bounded bound="maxp of any 32 bytes (version 0.5 and 1.0, any numGlyphs and limits), declared maxp length 6 or 32; the other tables are one fixed minimal skeleton (head, hhea with 1 long metric, 8-byte hmtx, loca, glyf)" timeout=3600 fns=Outlines::new
    #[kani::proof]
    #[kani::unwind(8)]
    fn outlines_new_limits_total_for_every_maxp() {
        let maxp_len: usize = if kani::any() { 32 } else { 6 };
        check_outlines_new(maxp_len);
    }

    fn check_outlines_new(maxp_len: usize) {
        let mut font = [0u8; FONT_LEN];
        font[0..4].copy_from_slice(&0x0001_0000u32.to_be_bytes());
        font[4..6].copy_from_slice(&(N_TABLES as u16).to_be_bytes());
        put_record(&mut font, 0, b"glyf", GLYF_OFF, 4);
        put_record(&mut font, 1, b"head", HEAD_OFF, 54);
        put_record(&mut font, 2, b"hhea", HHEA_OFF, 36);
        put_record(&mut font, 3, b"hmtx", HMTX_OFF, 8);
        put_record(&mut font, 4, b"loca", LOCA_OFF, 8);
        put_record(&mut font, 5, b"maxp", MAXP_OFF, maxp_len);
        // head: majorVersion 1, unitsPerEm 1000, indexToLocFormat 0
        font[HEAD_OFF + 1] = 1;
        font[HEAD_OFF + 18..HEAD_OFF + 20].copy_from_slice(&1000u16.to_be_bytes());
        // hhea: majorVersion 1, numberOfHMetrics 1
        font[HHEA_OFF + 1] = 1;
        font[HHEA_OFF + 35] = 1;
        let maxp: [u8; 32] = kani::any();
        font[MAXP_OFF..MAXP_OFF + 32].copy_from_slice(&maxp);

        let Ok(fr) = FontRef::new(&font) else {
            assert!(false, "the skeleton font opens");
            return;
        };
        let be16 = |o: usize| u16::from_be_bytes([maxp[o], maxp[o + 1]]);
        let version = u32::from_be_bytes([maxp[0], maxp[1], maxp[2], maxp[3]]);
        let v1 = version == 0x0001_0000 && maxp_len == 32;
        let v05 = version == 0x0000_5000;
        let out = Outlines::new(&fr);
        if let Some(o) = &out {
            if v1 {
                assert!(o.glyph_count == be16(4));
                assert!(o.max_twilight_points as u32 == (be16(16) as u32 + 4).min(0xFFFF));
                assert!(o.max_storage == be16(18));
                assert!(o.max_function_defs == be16(20));
                assert!(o.max_instruction_defs == be16(22));
                assert!(o.max_stack_elements as u32 == (be16(24) as u32 + 32).min(0xFFFF));
                assert!(o.prefer_interpreter == (be16(26) != 0));
            } else if v05 {
                assert!(o.glyph_count == be16(4));
                assert!(o.max_twilight_points == 4 && o.max_stack_elements == 32);
                assert!(o.max_storage == 0 && o.max_function_defs == 0 && o.max_instruction_defs == 0);
                assert!(!o.prefer_interpreter);
            }
            assert!(o.units_per_em() == 1000 && o.cvt_len == 0);
        }
        kani::cover!(out.is_some() && v1 && be16(24) >= 0xFFE0);
        kani::cover!(out.is_some() && v1 && be16(16) >= 0xFFFC);
        kani::cover!(out.is_some() && v05);
        kani::cover!(out.is_none());
    }
}
