//@weave-into skrifa/src/outline/glyf/hint/call_stack.rs
// U02.2 (C02): the interpreter's call stack refuses instead of overflowing: for every depth 0..=32, push succeeds
// iff depth < 32 (CallStackOverflow otherwise), pop returns the record pushed last (CallStackUnderflow on empty).
#[cfg(kani)]
mod verif_call_stack {
    use super::*;
    #[allow(unused_imports)]
    use std::{vec, vec::Vec};

    //@defaults unit=U02.2 props=C02,C20 tier=quick level=complete timeout=600
    //@harness fns=CallStack::push,CallStack::pop,CallStack::peek,CallStack::clear
    #[kani::proof]
    #[kani::unwind(34)]
    fn call_stack_bounded() {
        let mut s = CallStack::default();
        let len: usize = kani::any();
        kani::assume(len <= MAX_DEPTH); // invariant
        s.len = len;
        let mut rec = CallRecord::default();
        rec.return_pc = kani::any();
        rec.current_count = kani::any();
        let r = s.push(rec);
        assert!(r.is_ok() == (len < MAX_DEPTH));
        match r {
            Ok(()) => {
                assert!(s.len == len + 1);
                let p = s.pop();
                assert!(matches!(p, Ok(q) if q.return_pc == rec.return_pc && q.current_count == rec.current_count));
                assert!(s.len == len);
            }
            Err(e) => { assert!(matches!(e, HintErrorKind::CallStackOverflow) && s.len == len); }
        }
        let mut e = CallStack::default();
        assert!(matches!(e.pop(), Err(HintErrorKind::CallStackUnderflow)) && e.peek().is_none());
        s.clear();
        assert!(s.len == 0);
        kani::cover!(len == MAX_DEPTH);
        kani::cover!(len == MAX_DEPTH - 1);
    }
}
