//@weave-into font-types/src/lib.rs
// C15 (and the safety side for C20): scalar and fixed-point types of font-types.
// Every harness below is loop-free (or loops over a constant-size array with unwinding assertions on)
// over the FULL value domain of its inputs => a complete proof of the stated contract, not a sample.
#[cfg(kani)]
mod verif_c15 {
    extern crate std;
    use super::*;
    #[allow(unused_imports)]
    use std::{vec, vec::Vec};

    // ---------------------------------------------------------------- U15.1 Uint24
    //@defaults unit=U15.1 props=C15 tier=quick level=complete timeout=120
    //@harness fns=Uint24::new,Uint24::checked_new
    #[kani::proof]
    fn uint24_new_saturates() {
        let x: u32 = kani::any();
        let v = Uint24::new(x);
        let spec = if x > 0xFF_FFFF { 0xFF_FFFF } else { x };
        assert!(v.to_u32() == spec);
        let c = Uint24::checked_new(x);
        assert!(c.is_some() == (x <= 0xFF_FFFF));
        if let Some(c) = c { assert!(c.to_u32() == x); }
        kani::cover!(x > 0xFF_FFFF);
        kani::cover!(x == 0xFF_FFFF);
    }
    //@harness fns=Uint24::to_be_bytes,Uint24::from_be_bytes
    #[kani::proof]
    fn uint24_bytes_roundtrip() {
        let x: u32 = kani::any();
        let v = Uint24::new(x);
        let b = v.to_be_bytes();
        let u = v.to_u32();
        assert!(b[0] == (u >> 16) as u8 && b[1] == (u >> 8) as u8 && b[2] == u as u8);
        assert!(Uint24::from_be_bytes(b) == v);
        let raw: [u8; 3] = kani::any();
        let w = Uint24::from_be_bytes(raw);
        assert!(w.to_u32() == ((raw[0] as u32) << 16) + ((raw[1] as u32) << 8) + raw[2] as u32);
        assert!(w.to_be_bytes() == raw);
        kani::cover!(raw[0] == 0xFF && raw[2] == 1);
    }

    // ---------------------------------------------------------------- U15.2 Int24
    //@defaults unit=U15.2 props=C15 tier=quick level=complete timeout=120
    //@harness fns=Int24::new,Int24::checked_new
    #[kani::proof]
    fn int24_new_saturates() {
        let x: i32 = kani::any();
        let v = Int24::new(x);
        let spec = if x > 0x7F_FFFF { 0x7F_FFFF } else if x < -0x80_0000 { -0x80_0000 } else { x };
        assert!(v.to_i32() == spec);
        let c = Int24::checked_new(x);
        assert!(c.is_some() == (x >= -0x80_0000 && x <= 0x7F_FFFF));
        if let Some(c) = c { assert!(c.to_i32() == x); }
        kani::cover!(x < -0x80_0000);
        kani::cover!(x > 0x7F_FFFF);
    }
    //@harness fns=Int24::to_be_bytes,Int24::from_be_bytes
    #[kani::proof]
    fn int24_bytes_roundtrip() {
        let x: i32 = kani::any();
        let v = Int24::new(x);
        let b = v.to_be_bytes();
        let u = v.to_i32();
        assert!(b[0] == (u >> 16) as u8 && b[1] == (u >> 8) as u8 && b[2] == u as u8);
        assert!(Int24::from_be_bytes(b) == v);
        let raw: [u8; 3] = kani::any();
        let w = Int24::from_be_bytes(raw);
        // two's complement, sign extended from bit 23
        let unsigned = ((raw[0] as i32) << 16) + ((raw[1] as i32) << 8) + raw[2] as i32;
        let spec = if raw[0] & 0x80 != 0 { unsigned - 0x100_0000 } else { unsigned };
        assert!(w.to_i32() == spec);
        assert!(w.to_be_bytes() == raw);
        kani::cover!(raw[0] & 0x80 != 0);
        kani::cover!(raw[0] & 0x80 == 0);
    }

    // ---------------------------------------------------------------- U15.3 Scalar / BigEndian
    // raw -> value -> raw and value -> raw -> value are identities; bytes are the big-endian digits of
    // the underlying integer; read(slice) is Some iff the slice has exactly RAW_BYTE_LEN bytes.
    fn be_value(b: &[u8]) -> u64 {
        let mut v = 0u64;
        let mut i = 0;
        while i < b.len() { v = (v << 8) | b[i] as u64; i += 1; }
        v
    }
    macro_rules! scalar_contract {
        ($t:ty, $n:literal, $as_u64:expr) => {{
            let raw: [u8; $n] = kani::any();
            let v: $t = <$t as Scalar>::from_raw(raw);
            // bytes -> value -> bytes
            assert!(v.to_raw() == raw);
            // value -> bytes -> value
            assert!(<$t as Scalar>::from_raw(v.to_raw()) == v);
            // big-endian digits of the underlying integer (masked to the width)
            let f: fn($t) -> u64 = $as_u64;
            let mask: u64 = if $n == 8 { u64::MAX } else { (1u64 << ($n * 8)) - 1 };
            assert!(f(v) & mask == be_value(&raw));
            assert!(<$t as FixedSize>::RAW_BYTE_LEN == $n);
            // read(): Some iff exact length
            let buf: [u8; 9] = kani::any();
            let len: usize = kani::any();
            kani::assume(len <= 9);
            let r = <$t as Scalar>::read(&buf[..len]);
            assert!(r.is_some() == (len == $n));
            if let Some(r) = r { assert!(r.to_raw()[..] == buf[..$n]); }
            // BigEndian<T>
            let mut be = BigEndian::<$t>::new(raw);
            assert!(be.get() == v);
            assert!(be.be_bytes() == &raw[..]);
            let raw2: [u8; $n] = kani::any();
            let v2: $t = <$t as Scalar>::from_raw(raw2);
            be.set(v2);
            assert!(be.get() == v2 && be.be_bytes() == &raw2[..]);
            assert!(BigEndian::<$t>::from(v2) == be);
            let s = BigEndian::<$t>::from_slice(&buf[..len]);
            assert!(s.is_some() == (len == $n));
            kani::cover!(len == $n);
            kani::cover!(len != $n);
        }};
    }
    //@defaults unit=U15.3 props=C15 tier=quick level=complete timeout=180
    //@harness fns=Scalar::from_raw,Scalar::to_raw,Scalar::read,BigEndian::new,BigEndian::get,BigEndian::set,BigEndian::from_slice,BigEndian::be_bytes
    #[kani::proof]
    #[kani::unwind(10)]
    fn scalar_u8() { scalar_contract!(u8, 1, |v| v as u64) }
    //@harness fns=Scalar(i8)
    #[kani::proof]
    #[kani::unwind(10)]
    fn scalar_i8() { scalar_contract!(i8, 1, |v| v as u64) }
    //@harness fns=Scalar(u16)
    #[kani::proof]
    #[kani::unwind(10)]
    fn scalar_u16() { scalar_contract!(u16, 2, |v| v as u64) }
    //@harness fns=Scalar(i16)
    #[kani::proof]
    #[kani::unwind(10)]
    fn scalar_i16() { scalar_contract!(i16, 2, |v| v as u64) }
    //@harness fns=Scalar(u32)
    #[kani::proof]
    #[kani::unwind(10)]
    fn scalar_u32() { scalar_contract!(u32, 4, |v| v as u64) }
    //@harness fns=Scalar(i32)
    #[kani::proof]
    #[kani::unwind(10)]
    fn scalar_i32() { scalar_contract!(i32, 4, |v| v as u64) }
    //@harness fns=Scalar(i64)
    #[kani::proof]
    #[kani::unwind(10)]
    fn scalar_i64() { scalar_contract!(i64, 8, |v| v as u64) }
    //@harness fns=Scalar(Uint24)
    #[kani::proof]
    #[kani::unwind(10)]
    fn scalar_uint24() { scalar_contract!(Uint24, 3, |v| v.to_u32() as u64) }
    //@harness fns=Scalar(Int24)
    #[kani::proof]
    #[kani::unwind(10)]
    fn scalar_int24() { scalar_contract!(Int24, 3, |v| v.to_i32() as u64) }
    //@harness fns=Scalar(F2Dot14)
    #[kani::proof]
    #[kani::unwind(10)]
    fn scalar_f2dot14() { scalar_contract!(F2Dot14, 2, |v| v.to_bits() as u64) }
    //@harness fns=Scalar(F4Dot12)
    #[kani::proof]
    #[kani::unwind(10)]
    fn scalar_f4dot12() { scalar_contract!(F4Dot12, 2, |v| v.to_bits() as u64) }
    //@harness fns=Scalar(F6Dot10)
    #[kani::proof]
    #[kani::unwind(10)]
    fn scalar_f6dot10() { scalar_contract!(F6Dot10, 2, |v| v.to_bits() as u64) }
    //@harness fns=Scalar(Fixed)
    #[kani::proof]
    #[kani::unwind(10)]
    fn scalar_fixed() { scalar_contract!(Fixed, 4, |v| v.to_bits() as u64) }
    //@harness fns=Scalar(FWord)
    #[kani::proof]
    #[kani::unwind(10)]
    fn scalar_fword() { scalar_contract!(FWord, 2, |v| v.to_i16() as u64) }
    //@harness fns=Scalar(UfWord)
    #[kani::proof]
    #[kani::unwind(10)]
    fn scalar_ufword() { scalar_contract!(UfWord, 2, |v| v.to_u16() as u64) }
    //@harness fns=Scalar(Offset16)
    #[kani::proof]
    #[kani::unwind(10)]
    fn scalar_offset16() { scalar_contract!(Offset16, 2, |v| v.to_u32() as u64) }
    //@harness fns=Scalar(Offset24)
    #[kani::proof]
    #[kani::unwind(10)]
    fn scalar_offset24() { scalar_contract!(Offset24, 3, |v| v.to_u32() as u64) }
    //@harness fns=Scalar(Offset32)
    #[kani::proof]
    #[kani::unwind(10)]
    fn scalar_offset32() { scalar_contract!(Offset32, 4, |v| v.to_u32() as u64) }
    //@harness fns=Scalar(Nullable<Offset16>),Nullable::is_null
    #[kani::proof]
    #[kani::unwind(10)]
    fn scalar_nullable_offset16() {
        scalar_contract!(Nullable<Offset16>, 2, |v| v.offset().to_u32() as u64);
        let raw: [u8; 2] = kani::any();
        let v = <Nullable<Offset16> as Scalar>::from_raw(raw);
        assert!(v.is_null() == (raw == [0, 0]));
        assert!(v.offset().is_null() == (raw == [0, 0]));
    }
    //@harness fns=Scalar(Nullable<Offset32>)
    #[kani::proof]
    #[kani::unwind(10)]
    fn scalar_nullable_offset32() { scalar_contract!(Nullable<Offset32>, 4, |v| v.offset().to_u32() as u64) }
    //@harness fns=Scalar(Version16Dot16),Version16Dot16::to_major_minor
    #[kani::proof]
    #[kani::unwind(10)]
    fn scalar_version16dot16() {
        scalar_contract!(Version16Dot16, 4, |v| { let b = v.to_be_bytes(); ((b[0] as u64) << 24) | ((b[1] as u64) << 16) | ((b[2] as u64) << 8) | b[3] as u64 });
        let major: u16 = kani::any();
        let minor: u16 = kani::any();
        kani::assume(minor < 10);
        let v = Version16Dot16::new(major, minor);
        assert!(v.to_major_minor() == (major, minor));
        let b = v.to_be_bytes();
        assert!(b[0] == (major >> 8) as u8 && b[1] == major as u8 && b[2] == (minor << 4) as u8 && b[3] == 0);
    }
    //@harness fns=Scalar(MajorMinor)
    #[kani::proof]
    #[kani::unwind(10)]
    fn scalar_majorminor() { scalar_contract!(MajorMinor, 4, |v| ((v.major as u64) << 16) | v.minor as u64) }
    //@harness fns=Scalar(LongDateTime)
    #[kani::proof]
    #[kani::unwind(10)]
    fn scalar_longdatetime() { scalar_contract!(LongDateTime, 8, |v| v.as_secs() as u64) }
    //@harness fns=Scalar(Tag),Tag::from_be_bytes,Tag::to_be_bytes,Tag::from_u32
    #[kani::proof]
    #[kani::unwind(10)]
    fn scalar_tag() {
        scalar_contract!(Tag, 4, |v| { let b = v.to_be_bytes(); ((b[0] as u64) << 24) | ((b[1] as u64) << 16) | ((b[2] as u64) << 8) | b[3] as u64 });
        let x: u32 = kani::any();
        assert!(Tag::from_u32(x).to_be_bytes() == x.to_be_bytes());
        let b: [u8; 4] = kani::any();
        assert!(Tag::from_be_bytes(b).to_be_bytes() == b);
        assert!(Tag::from_be_bytes(b).into_bytes() == b);
    }
    //@harness fns=Scalar(GlyphId16)
    #[kani::proof]
    #[kani::unwind(10)]
    fn scalar_glyphid16() { scalar_contract!(GlyphId16, 2, |v| v.to_u16() as u64) }
    //@harness fns=Scalar(NameId)
    #[kani::proof]
    #[kani::unwind(10)]
    fn scalar_nameid() { scalar_contract!(NameId, 2, |v| v.to_u16() as u64) }

    // ---------------------------------------------------------------- U15.4 fixed <-> fixed / int conversions, round/floor/fract
    //@defaults unit=U15.4 props=C15,C20 tier=quick level=complete timeout=120
    //@harness fns=Fixed::to_f2dot14,F2Dot14::to_fixed
    #[kani::proof]
    fn fixed_to_f2dot14_spec() {
        let x: i32 = kani::any();
        let r = Fixed::from_bits(x).to_f2dot14();
        // OpenType: "add 0x00000002, and sign-extend shift to the right by 2"
        if x <= i32::MAX - 2 {
            let exact = (x as i64 + 2).div_euclid(4);
            assert!(r.to_bits() == exact as i16);
            if exact >= i16::MIN as i64 && exact <= i16::MAX as i64 {
                assert!(r.to_bits() as i64 == exact);
                // nearest: |4*r - x| <= 2, ties (x = 4k+2) round up
                assert!((4 * exact - x as i64).abs() <= 2);
            }
        }
        // 2.14 -> 16.16 is exact multiplication by 4 and is inverted by to_f2dot14
        let y: i16 = kani::any();
        let f = F2Dot14::from_bits(y).to_fixed();
        assert!(f.to_bits() == y as i32 * 4);
        assert!(f.to_f2dot14().to_bits() == y);
        kani::cover!(x == -2);
        kani::cover!(x == 0x10000);
    }
    //@harness fns=Fixed::to_f26dot6,Fixed::to_i32,Fixed::from_i32
    #[kani::proof]
    fn fixed_to_f26dot6_to_i32_spec() {
        let x: i32 = kani::any();
        let v = Fixed::from_bits(x);
        // both conversions are total (wrapping add, as documented by the code) for EVERY x ...
        let f = v.to_f26dot6().to_bits();
        let i = v.to_i32();
        assert!(f == x.wrapping_add(0x200) >> 10 && i == x.wrapping_add(0x8000) >> 16);
        // ... and equal the mathematical rounding wherever the sum does not leave the i32 range
        if x <= i32::MAX - 0x200 {
            assert!(f as i64 == (x as i64 + 0x200).div_euclid(1024));
        }
        if x <= i32::MAX - 0x8000 {
            // nearest integer, halves round up
            assert!(i as i64 == (x as i64 + 0x8000).div_euclid(65536));
        }
        let i: i32 = kani::any();
        kani::assume(i >= -32768 && i <= 32767);
        assert!(Fixed::from_i32(i).to_bits() == i * 65536);
        assert!(Fixed::from_i32(i).to_i32() == i);
        assert!(Fixed::from(i) == Fixed::from_i32(i));
        kani::cover!(x == 0x7FFF_0000);
        kani::cover!(i == -32768);
    }
    //@harness fns=F26Dot6::to_i32,F26Dot6::from_i32,FWord::to_fixed,UfWord::to_fixed
    #[kani::proof]
    fn f26dot6_int_conversions() {
        let x: i32 = kani::any();
        let t = F26Dot6::from_bits(x).to_i32();
        assert!(t == x.wrapping_add(32) >> 6);
        if x <= i32::MAX - 32 {
            assert!(t as i64 == (x as i64 + 32).div_euclid(64));
        }
        let i: i32 = kani::any();
        kani::assume(i >= -(1 << 25) && i < (1 << 25));
        assert!(F26Dot6::from_i32(i).to_bits() == i * 64);
        assert!(F26Dot6::from_i32(i).to_i32() == i);
        let w: i16 = kani::any();
        assert!(FWord::new(w).to_fixed().to_bits() == (w as i32) * 65536);
        let u: u16 = kani::any();
        // UfWord above 32767 does not fit 16.16: the product wraps, by construction of from_i32
        if u < 0x8000 { assert!(UfWord::new(u).to_fixed().to_bits() == (u as i32) * 65536); }
        kani::cover!(u == 0x7FFF);
    }
    macro_rules! floor_fract_round {
        ($t:ident, $ity:ty, $fbits:literal) => {{
            let x: $ity = kani::any();
            let v = $t::from_bits(x);
            let one: i64 = 1 << $fbits;
            let fl = v.floor().to_bits() as i64;
            // floor: greatest multiple of ONE that is <= x
            assert!(fl % one == 0 && fl <= x as i64 && (x as i64) < fl + one);
            let fr = v.fract().to_bits() as i64;
            assert!(fr >= 0 && fr < one && fl + fr == x as i64);
            // round: floor(x + ONE/2), wrapping at the top of the range as documented by wrapping_add
            let rd = v.round().to_bits();
            assert!(rd == $t::from_bits(x.wrapping_add((one / 2) as $ity)).floor().to_bits());
            if (x as i64) + one / 2 <= <$ity>::MAX as i64 {
                let r = rd as i64;
                assert!(r % one == 0 && 2 * (r - x as i64) <= one && 2 * (x as i64 - r) < one);
            }
            if x != <$ity>::MIN {
                let a = v.abs().to_bits();
                assert!(a >= 0 && (a == x || a == -x));
            }
            assert!($t::ONE.to_bits() as i64 == one && $t::ZERO.to_bits() == 0 && $t::EPSILON.to_bits() == 1);
            assert!($t::MIN.to_bits() == <$ity>::MIN && $t::MAX.to_bits() == <$ity>::MAX);
            let y: $ity = kani::any();
            let w = $t::from_bits(y);
            assert!((v + w).to_bits() == x.wrapping_add(y) && (v - w).to_bits() == x.wrapping_sub(y));
            assert!(v.wrapping_add(w).to_bits() == x.wrapping_add(y) && v.wrapping_sub(w).to_bits() == x.wrapping_sub(y));
            assert!(v.saturating_add(w).to_bits() == x.saturating_add(y) && v.saturating_sub(w).to_bits() == x.saturating_sub(y));
            assert!(v.checked_add(w).map(|r| r.to_bits()) == x.checked_add(y));
            assert!(v.to_be_bytes() == x.to_be_bytes());
            kani::cover!(x < 0 && fr != 0);
            kani::cover!(x == <$ity>::MAX);
        }};
    }
    //@harness fns=F2Dot14::floor,F2Dot14::fract,F2Dot14::round,F2Dot14::abs,F2Dot14::add,F2Dot14::sub
    #[kani::proof]
    fn f2dot14_floor_fract_round() { floor_fract_round!(F2Dot14, i16, 14) }
    //@harness fns=F4Dot12::floor,F4Dot12::fract,F4Dot12::round
    #[kani::proof]
    fn f4dot12_floor_fract_round() { floor_fract_round!(F4Dot12, i16, 12) }
    //@harness fns=F6Dot10::floor,F6Dot10::fract,F6Dot10::round
    #[kani::proof]
    fn f6dot10_floor_fract_round() { floor_fract_round!(F6Dot10, i16, 10) }
    //@harness fns=Fixed::floor,Fixed::fract,Fixed::round,Fixed::abs,Fixed::add,Fixed::sub
    #[kani::proof]
    fn fixed_floor_fract_round() { floor_fract_round!(Fixed, i32, 16) }
    //@harness fns=F26Dot6::floor,F26Dot6::fract,F26Dot6::round
    #[kani::proof]
    fn f26dot6_floor_fract_round() { floor_fract_round!(F26Dot6, i32, 6) }

    // ---------------------------------------------------------------- U15.5 float conversions
    //@defaults unit=U15.5 props=C15 tier=quick level=complete timeout=300
    //@harness fns=F2Dot14::to_f32,F2Dot14::from_f32
    #[kani::proof]
    fn f2dot14_f32_roundtrip() {
        let x: i16 = kani::any();
        let v = F2Dot14::from_bits(x);
        let f = v.to_f32();
        assert!(F2Dot14::from_f32(f) == v);
        assert!(f as f64 * 16384.0 == x as f64); // to_f32 is exact
        kani::cover!(x == -1);
    }
    //@harness fns=F4Dot12::to_f32,F4Dot12::from_f32
    #[kani::proof]
    fn f4dot12_f32_roundtrip() {
        let x: i16 = kani::any();
        let v = F4Dot12::from_bits(x);
        assert!(F4Dot12::from_f32(v.to_f32()) == v);
        assert!(v.to_f32() as f64 * 4096.0 == x as f64);
        kani::cover!(x == -1);
    }
    //@harness fns=F6Dot10::to_f32,F6Dot10::from_f32
    #[kani::proof]
    fn f6dot10_f32_roundtrip() {
        let x: i16 = kani::any();
        let v = F6Dot10::from_bits(x);
        assert!(F6Dot10::from_f32(v.to_f32()) == v);
        assert!(v.to_f32() as f64 * 1024.0 == x as f64);
        kani::cover!(x == -1);
    }
    //@harness fns=Fixed::to_f64,Fixed::from_f64
    #[kani::proof]
    fn fixed_f64_roundtrip() {
        let x: i32 = kani::any();
        let v = Fixed::from_bits(x);
        assert!(Fixed::from_f64(v.to_f64()) == v);
        assert!(v.to_f64() * 65536.0 == x as f64);
        kani::cover!(x == i32::MIN);
    }
    //@harness fns=F26Dot6::to_f64,F26Dot6::from_f64
    #[kani::proof]
    fn f26dot6_f64_roundtrip() {
        let x: i32 = kani::any();
        let v = F26Dot6::from_bits(x);
        assert!(F26Dot6::from_f64(v.to_f64()) == v);
        assert!(v.to_f64() * 64.0 == x as f64);
        kani::cover!(x == i32::MIN);
    }
    //@harness fns=Fixed::from_f64 note="round to nearest, ties away from zero, for every finite in-range f64"
    #[kani::proof]
    fn fixed_from_f64_nearest() {
        let f: f64 = kani::any();
        kani::assume(f.is_finite() && f > -32768.0 && f < 32767.99);
        let r = Fixed::from_f64(f).to_bits() as f64;
        let y = f * 65536.0; // exact: power-of-two scaling, no overflow in this range
        assert!(r - y <= 0.5 && y - r <= 0.5);
        // ties go away from zero
        if y - y.floor() == 0.5 { assert!(if y > 0.0 { r == y + 0.5 } else { r == y - 0.5 }); }
        kani::cover!(y - y.floor() == 0.5 && y < 0.0);
        kani::cover!(y == 1.25);
    }
    //@harness fns=F26Dot6::from_f64
    #[kani::proof]
    fn f26dot6_from_f64_nearest() {
        let f: f64 = kani::any();
        kani::assume(f.is_finite() && f > -33554432.0 && f < 33554431.9);
        let r = F26Dot6::from_f64(f).to_bits() as f64;
        let y = f * 64.0;
        assert!(r - y <= 0.5 && y - r <= 0.5);
        kani::cover!(y == -2.5);
    }
    //@harness fns=F2Dot14::from_f32 note="f32 arithmetic: the sum y+-0.5 is rounded to 24 bits, so 'nearest' holds up to that rounding; stated as |r-y| <= 0.5 + 2^-9 (half an ulp of f32 at magnitude 2^15) and exactly 0.5 when y has at most 8 fractional bits"
    #[kani::proof]
    fn f2dot14_from_f32_nearest() {
        let f: f32 = kani::any();
        kani::assume(f.is_finite() && f > -2.0 && f < 1.9999);
        let r = F2Dot14::from_f32(f).to_bits() as f64;
        let y = f as f64 * 16384.0;
        assert!(r - y <= 0.5 + 0.001953125 && y - r <= 0.5 + 0.001953125);
        if (y * 256.0).floor() == y * 256.0 { assert!(r - y <= 0.5 && y - r <= 0.5); }
        kani::cover!(y == 3.5);
    }

    // ---------------------------------------------------------------- U15.6 ordering == ordering of raw bits
    macro_rules! order_contract {
        ($a:expr, $b:expr, $ra:expr, $rb:expr) => {{
            let (a, b, ra, rb) = ($a, $b, $ra, $rb);
            assert!((a == b) == (ra == rb));
            assert!((a < b) == (ra < rb) && (a <= b) == (ra <= rb) && (a > b) == (ra > rb) && (a >= b) == (ra >= rb));
            assert!(a.cmp(&b) == ra.cmp(&rb));
            assert!(a.partial_cmp(&b) == Some(ra.cmp(&rb)));
            kani::cover!(ra < rb);
            kani::cover!(ra == rb);
        }};
    }
    //@defaults unit=U15.6 props=C15 tier=quick level=complete timeout=120
    //@harness fns=Ord(F2Dot14),Ord(F4Dot12),Ord(F6Dot10)
    #[kani::proof]
    fn order_fixed16() {
        let x: i16 = kani::any(); let y: i16 = kani::any();
        order_contract!(F2Dot14::from_bits(x), F2Dot14::from_bits(y), x, y);
        order_contract!(F4Dot12::from_bits(x), F4Dot12::from_bits(y), x, y);
        order_contract!(F6Dot10::from_bits(x), F6Dot10::from_bits(y), x, y);
    }
    //@harness fns=Ord(Fixed),Ord(F26Dot6)
    #[kani::proof]
    fn order_fixed32() {
        let x: i32 = kani::any(); let y: i32 = kani::any();
        order_contract!(Fixed::from_bits(x), Fixed::from_bits(y), x, y);
        order_contract!(F26Dot6::from_bits(x), F26Dot6::from_bits(y), x, y);
    }
    //@harness fns=Ord(Int24),Ord(Uint24),Ord(FWord),Ord(UfWord),Ord(GlyphId16),Ord(Offset16),Ord(LongDateTime)
    #[kani::proof]
    fn order_ints() {
        let x: i32 = kani::any(); let y: i32 = kani::any();
        order_contract!(Int24::new(x), Int24::new(y), Int24::new(x).to_i32(), Int24::new(y).to_i32());
        let p: u32 = kani::any(); let q: u32 = kani::any();
        order_contract!(Uint24::new(p), Uint24::new(q), Uint24::new(p).to_u32(), Uint24::new(q).to_u32());
        let a: i16 = kani::any(); let b: i16 = kani::any();
        order_contract!(FWord::new(a), FWord::new(b), a, b);
        let c: u16 = kani::any(); let d: u16 = kani::any();
        order_contract!(UfWord::new(c), UfWord::new(d), c, d);
        order_contract!(GlyphId16::new(c), GlyphId16::new(d), c, d);
        order_contract!(Offset16::new(c), Offset16::new(d), c, d);
        let s: i64 = kani::any(); let t: i64 = kani::any();
        order_contract!(LongDateTime::new(s), LongDateTime::new(t), s, t);
    }
    //@harness fns=Ord(BigEndian<T>)
    #[kani::proof]
    #[kani::unwind(6)]
    fn order_bigendian() {
        let x: i16 = kani::any(); let y: i16 = kani::any();
        let a = BigEndian::<i16>::from(x); let b = BigEndian::<i16>::from(y);
        assert!(a.cmp(&b) == x.cmp(&y) && a.partial_cmp(&b) == Some(x.cmp(&y)) && (a == b) == (x == y) && (a == y) == (x == y));
        let p: u32 = kani::any(); let q: u32 = kani::any();
        let c = BigEndian::<u32>::from(p); let d = BigEndian::<u32>::from(q);
        assert!(c.cmp(&d) == p.cmp(&q) && (c == d) == (p == q));
        let f = BigEndian::<Fixed>::from(Fixed::from_bits(p as i32)); let g = BigEndian::<Fixed>::from(Fixed::from_bits(q as i32));
        assert!(f.cmp(&g) == (p as i32).cmp(&(q as i32)));
        kani::cover!(x < y);
    }

    // ---------------------------------------------------------------- U15.7 multiplication (Kani complete); div / mul_div are Verus units
    // rha(n, d): n/d rounded to nearest, ties away from zero
    //@defaults unit=U15.7k props=C15,C11,C20 tier=quick level=complete timeout=600
    //@harness fns=Fixed::mul
    #[kani::proof]
    fn fixed_mul_exact() {
        let a: i32 = kani::any(); let b: i32 = kani::any();
        let p = a as i64 * b as i64; // exact
        // exact quotient p / 2^16 rounded half away from zero, computed on the magnitude
        let mag = if p < 0 { -p } else { p };
        let q = (mag + 0x8000) >> 16;
        let spec = if p < 0 { -q } else { q };
        if spec >= i32::MIN as i64 && spec <= i32::MAX as i64 {
            let r = Fixed::from_bits(a) * Fixed::from_bits(b);
            assert!(r.to_bits() as i64 == spec);
            let mut m = Fixed::from_bits(a);
            m *= Fixed::from_bits(b);
            assert!(m == r);
        }
        kani::cover!(p < 0 && (mag & 0xFFFF) == 0x8000);
        kani::cover!(spec == i32::MAX as i64);
    }
    //@harness fns=F26Dot6::mul note="shares the macro body: FT_MulFix semantics (16.16 factor)"
    #[kani::proof]
    fn f26dot6_mul_exact() {
        let a: i32 = kani::any(); let b: i32 = kani::any();
        let p = a as i64 * b as i64;
        let mag = if p < 0 { -p } else { p };
        let q = (mag + 0x8000) >> 16;
        let spec = if p < 0 { -q } else { q };
        if spec >= i32::MIN as i64 && spec <= i32::MAX as i64 {
            let r = F26Dot6::from_bits(a) * F26Dot6::from_bits(b);
            assert!(r.to_bits() as i64 == spec);
        }
        kani::cover!(p < 0 && (mag & 0xFFFF) == 0x8000);
    }
    //@harness fns=Fixed::div,Fixed::mul_div,Fixed::neg note="division by zero saturates; negation of non-MIN is exact (the general quotient contract is the Verus unit U15.7)"
    #[kani::proof]
    fn fixed_div_by_zero_saturates() {
        let a: i32 = kani::any();
        let r = Fixed::from_bits(a) / Fixed::ZERO;
        assert!(r.to_bits() == if a < 0 { -0x7FFF_FFFF } else { 0x7FFF_FFFF });
        let s: i32 = kani::any(); let t: i32 = kani::any();
        let m = Fixed::from_bits(s).mul_div(Fixed::from_bits(t), Fixed::ZERO);
        assert!(m.to_bits() == if (s < 0) != (t < 0) { -0x7FFF_FFFF } else { 0x7FFF_FFFF });
        if a != i32::MIN { assert!((-Fixed::from_bits(a)).to_bits() == -a); }
        // x / 1.0 == x for every x that is not i32::MIN's neighbourhood of unrepresentable quotients
        let one = Fixed::ONE;
        if a != i32::MIN { assert!((Fixed::from_bits(a) / one).to_bits() == a); }
        kani::cover!(a < 0);
        kani::cover!(a == i32::MIN);
    }
}
