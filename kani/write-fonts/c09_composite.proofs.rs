//@weave-into write-fonts/src/tables/glyf/composite.rs
//@include write_sink.proofs.rs
// C09 (composite glyphs: "glyph i decodes to exactly the ... components (ids, flags, anchors, transforms)"), U09.8: a composite
// glyph with ONE component - any glyph id, either anchor kind with any arguments, any transform, any of the five manual flags -
// written by the real CompositeGlyph / Component / Anchor / Transform writers (through the sink contract) is read back by
// read-fonts' component iterator as exactly that component, with the computed and manual flags, and nothing after it.
#[cfg(kani)]
mod verif_c09_composite {
    use super::*;
    use crate::write::verif_sink::*;
    use crate::write::TableWriter;
    use read_fonts::{FontData, FontRead};
    use types::F2Dot14;
    #[allow(unused_imports)]
    use std::{vec, vec::Vec};

    //@harness unit=U09.8 props=C09,C04 tier=quick level=bounded bound="one component; every glyph id, anchor, transform and manual flag combination; no instructions" timeout=1800 fns=CompositeGlyph::write_into,Component::write_into,Component::compute_flag,Anchor::write_into,Transform::write_into,read_fonts::CompositeGlyph::components
    #[kani::proof]
    #[kani::unwind(6)]
    #[kani::stub(std::hash::RandomState::new, fixed_random_state)]
    #[kani::stub(TableWriter::write_slice, write_slice_sink)]
    #[kani::stub(TableWriter::pad_to_2byte_aligned, pad_sink)]
    fn composite_one_component_roundtrip() {
        let gid: u16 = kani::any();
        let (a, b): (u16, u16) = kani::any();
        let anchor = if kani::any() { Anchor::Offset { x: a as i16, y: b as i16 } } else { Anchor::Point { base: a, component: b } };
        let (xx, yx, xy, yy): (i16, i16, i16, i16) = kani::any();
        let transform = Transform {
            xx: F2Dot14::from_bits(xx),
            yx: F2Dot14::from_bits(yx),
            xy: F2Dot14::from_bits(xy),
            yy: F2Dot14::from_bits(yy),
        };
        let flags = ComponentFlags {
            round_xy_to_grid: kani::any(),
            use_my_metrics: kani::any(),
            scaled_component_offset: kani::any(),
            unscaled_component_offset: kani::any(),
            overlap_compound: kani::any(),
        };
        let comp = Component { glyph: GlyphId16::new(gid), anchor, flags, transform };
        let g = CompositeGlyph { bbox: Bbox::default(), components: vec![comp.clone()], _instructions: vec![] };
        reset_sink();
        let mut w = TableWriter::default();
        g.write_into(&mut w);
        let (bytes, n) = sink_bytes();
        assert!(n % 2 == 0 && n >= 16);
        let r = read_fonts::tables::glyf::CompositeGlyph::read(FontData::new(&bytes[..n]));
        assert!(r.is_ok());
        let r = r.unwrap();
        let mut it = r.components();
        let c = it.next();
        assert!(c.is_some());
        let c = c.unwrap();
        assert!(c.glyph == comp.glyph && c.anchor == comp.anchor && c.transform == comp.transform);
        assert!(ComponentFlags::from(c.flags) == flags);
        assert!(!c.flags.contains(CompositeGlyphFlags::MORE_COMPONENTS) && !c.flags.contains(CompositeGlyphFlags::WE_HAVE_INSTRUCTIONS));
        assert!(it.next().is_none());
        kani::cover!(matches!(anchor, Anchor::Point { .. }) && a > 255);
        kani::cover!(xx == 0x4000 && yy != 0x4000 && yx == 0 && xy == 0);
        kani::cover!(yx != 0);
    }
}
