//@weave-into write-fonts/src/lib.rs
//@include write_sink.proofs.rs
// Writer -> reader round trips through the sink contract (see write_sink.proofs.rs) for the hand-written codecs:
// C10 packed deltas / packed point numbers, C09 simple glyph points and loca, C16 coverage builder.
#[cfg(kani)]
mod verif_codecs {
    use crate::write::verif_sink::*;
    use crate::write::TableWriter;
    use crate::FontWrite;
    use read_fonts::{FontData, FontRead};
    use types::GlyphId16;
    #[allow(unused_imports)]
    use std::{vec, vec::Vec};

    // ------------------------------------------------------------------ C10
    //@defaults unit=U10.2 props=C10 tier=quick level=bounded bound="2 deltas, each over the full i32 range (forces zero / 8 / 16 / 32-bit run selection and run merging)" timeout=900
    //@harness fns=PackedDeltas::write_into,PackedDeltas::iter_runs,PackedDeltaRun::write_into,read_fonts::PackedDeltas::iter,DeltaRunIter::next
    #[kani::proof]
    #[kani::unwind(7)]
    #[kani::stub(std::hash::RandomState::new, fixed_random_state)]
    #[kani::stub(TableWriter::write_slice, write_slice_sink)]
    fn packed_deltas_roundtrip_2() {
        let a: i32 = kani::any();
        let b: i32 = kani::any();
        let pd = crate::tables::variations::PackedDeltas::new(vec![a, b]);
        reset_sink();
        let mut w = TableWriter::default();
        pd.write_into(&mut w);
        let (bytes, n) = sink_bytes();
        assert!(n <= 10 && n >= 1);
        // never longer than the naive encoding of two values of the widest needed type (+1 control byte each)
        let r = read_fonts::tables::variations::PackedDeltas::consume_all(FontData::new(&bytes[..n]));
        let mut it = r.iter();
        assert!(it.next() == Some(a));
        assert!(it.next() == Some(b));
        assert!(it.next().is_none());
        kani::cover!(a == 0 && b == 70000);
        kani::cover!(a == -129 && b == 5);
    }
    //@harness fns=PackedPointNumbers::write_into,read_fonts::PackedPointNumbers::iter bound="<=2 point numbers, strictly increasing, each any u16 (gaps below and above 127 force byte/word runs)" unit=U10.3
    #[kani::proof]
    #[kani::unwind(7)]
    #[kani::stub(std::hash::RandomState::new, fixed_random_state)]
    #[kani::stub(TableWriter::write_slice, write_slice_sink)]
    fn packed_points_roundtrip_2() {
        let a: u16 = kani::any();
        let b: u16 = kani::any();
        kani::assume(a < b);
        let two: bool = kani::any();
        let pts = if two { vec![a, b] } else { vec![a] };
        let pp = crate::tables::variations::PackedPointNumbers::Some(pts);
        reset_sink();
        let mut w = TableWriter::default();
        pp.write_into(&mut w);
        let (bytes, n) = sink_bytes();
        assert!(n >= 2 && n <= 8);
        let (r, rest) = read_fonts::tables::variations::PackedPointNumbers::split_off_front(FontData::new(&bytes[..n]));
        assert!(rest.len() == 0); // the reader consumes exactly what the writer produced
        let mut it = r.iter();
        assert!(it.next() == Some(a));
        if two { assert!(it.next() == Some(b)); }
        assert!(it.next().is_none());
        // the "all points" form
        reset_sink();
        let mut w2 = TableWriter::default();
        crate::tables::variations::PackedPointNumbers::All.write_into(&mut w2);
        let (bytes2, n2) = sink_bytes();
        assert!(n2 == 1 && bytes2[0] == 0);
        kani::cover!(two && b - a > 127);
        kani::cover!(!two && a > 127);
    }

    // ------------------------------------------------------------------ C09
    //@defaults unit=U09.4 props=C09,C04 tier=thorough level=bounded bound="one contour of 1 point, every i16 coordinate pair, on-curve flag symbolic" timeout=2400
    //@harness fns=SimpleGlyph::write_into,SimpleGlyph::compute_point_deltas,flag_and_delta,RepeatableFlag::iter_from_flags,read_fonts::SimpleGlyph::points,read_fonts::SimpleGlyph::read_points_fast note="the first point's delta is its coordinate, so every i16 delta value (skip / short +- / long encodings and their boundaries) is exercised on both axes"
    #[kani::proof]
    #[kani::unwind(6)]
    #[kani::stub(std::hash::RandomState::new, fixed_random_state)]
    #[kani::stub(TableWriter::write_slice, write_slice_sink)]
    #[kani::stub(TableWriter::pad_to_2byte_aligned, pad_sink)]
    fn simple_glyph_one_point_roundtrip() {
        use crate::tables::glyf::{Bbox, Contour, SimpleGlyph};
        use read_fonts::tables::glyf::CurvePoint;
        let (x0, y0): (i16, i16) = (kani::any(), kani::any());
        let on0: bool = kani::any();
        let mut g = SimpleGlyph {
            bbox: Bbox::default(),
            contours: vec![Contour::from(vec![CurvePoint::new(x0, y0, on0)])],
            instructions: vec![],
        };
        g.recompute_bounding_box();
        reset_sink();
        let mut w = TableWriter::default();
        g.write_into(&mut w);
        let (bytes, n) = sink_bytes();
        assert!(n % 2 == 0 && n >= 16);
        let r = read_fonts::tables::glyf::SimpleGlyph::read(FontData::new(&bytes[..n]));
        assert!(r.is_ok());
        let r = r.unwrap();
        assert!(r.num_points() == 1 && r.end_pts_of_contours().len() == 1 && r.end_pts_of_contours()[0].get() == 0);
        assert!(r.x_min() == x0 && r.x_max() == x0 && r.y_min() == y0 && r.y_max() == y0);
        let mut it = r.points();
        assert!(it.next() == Some(CurvePoint::new(x0, y0, on0)));
        assert!(it.next().is_none());
        let mut pts = [read_fonts::types::Point::<i32>::default(); 1];
        let mut fl = [read_fonts::tables::glyf::PointFlags::default(); 1];
        assert!(r.read_points_fast(&mut pts, &mut fl).is_ok());
        assert!(pts[0].x == x0 as i32 && pts[0].y == y0 as i32 && fl[0].is_on_curve() == on0);
        kani::cover!(x0 == -256);
        kani::cover!(x0 == 255 && y0 == 0);
        kani::cover!(y0 == i16::MIN);
    }
    // NOTE: the two-point SimpleGlyph writer->reader harness (second point's deltas over every i16 pair) leaves several hundred checks
    // undetermined after 600-1200 s / 15 GB in this session and is kept, unclaimed, in attic/c09_simple_glyph_two_points.proofs.rs.txt.
    //@defaults unit=U09.3 props=C09 tier=quick level=bounded bound="3 offsets, each any u32" timeout=900
    //@harness fns=Loca::new,LocaFormat::new,Loca::write_into,read_fonts::Loca::get_raw unit=U09.3 tier=quick timeout=900 bound="3 offsets, each any u32"
    #[kani::proof]
    #[kani::unwind(8)]
    #[kani::stub(std::hash::RandomState::new, fixed_random_state)]
    #[kani::stub(TableWriter::write_slice, write_slice_sink)]
    fn loca_roundtrip_3() {
        use crate::tables::loca::{Loca, LocaFormat};
        let o: [u32; 3] = kani::any();
        kani::assume(o[0] <= o[1] && o[1] <= o[2]); // glyph offsets are cumulative
        let l = Loca::new(vec![o[0], o[1], o[2]]);
        let short = matches!(l.format(), LocaFormat::Short);
        // short iff every offset is even and the last is below 0x20000
        assert!(short == (o[0] % 2 == 0 && o[1] % 2 == 0 && o[2] % 2 == 0 && o[2] < 0x20000));
        reset_sink();
        let mut w = TableWriter::default();
        l.write_into(&mut w);
        let (bytes, n) = sink_bytes();
        assert!(n == if short { 6 } else { 12 });
        let r = read_fonts::tables::loca::Loca::read(FontData::new(&bytes[..n]), !short).unwrap();
        assert!(r.len() == 2);
        assert!(r.get_raw(0) == Some(o[0]) && r.get_raw(1) == Some(o[1]) && r.get_raw(2) == Some(o[2]) && r.get_raw(3).is_none());
        kani::cover!(short && o[2] == 0x1FFFE);
        kani::cover!(!short && o[1] % 2 == 1);
    }

    // ------------------------------------------------------------------ C16
    //@defaults unit=U16.1 props=C16 tier=quick level=bounded bound="2 glyph ids (any order, duplicates allowed), query glyph symbolic" timeout=900
    //@harness fns=CoverageTableBuilder::from_glyphs,CoverageTableBuilder::build,CoverageTable::write_into,read_fonts::CoverageTable::get
    #[kani::proof]
    #[kani::unwind(7)]
    #[kani::stub(std::hash::RandomState::new, fixed_random_state)]
    #[kani::stub(TableWriter::write_slice, write_slice_sink)]
    fn coverage_builder_roundtrip_2() {
        use crate::tables::layout::builders::CoverageTableBuilder;
        let a: u16 = kani::any();
        let b: u16 = kani::any();
        let cov = CoverageTableBuilder::from_glyphs(vec![GlyphId16::new(a), GlyphId16::new(b)]).build();
        reset_sink();
        let mut w = TableWriter::default();
        cov.write_into(&mut w);
        let (bytes, n) = sink_bytes();
        let r = read_fonts::tables::layout::CoverageTable::read(FontData::new(&bytes[..n])).unwrap();
        let q: u16 = kani::any();
        let lo = if a < b { a } else { b };
        let hi = if a < b { b } else { a };
        // rank of q in the sorted, de-duplicated set
        let expect = if q == lo { Some(0u16) } else if q == hi { Some(1u16) } else { None };
        assert!(r.get(GlyphId16::new(q)) == expect);
        kani::cover!(a == b);
        kani::cover!(b as u32 == a as u32 + 1);
        kani::cover!(a as u32 > b as u32 + 1 && q == a);
    }

    // NOTE: harnesses comparing PackedPointNumbers::compute_size with the number of bytes written at the 127/128/129
    // point boundary (needs a 128-element Vec through the run iterator) did not finish within 900 s / 16 GB and were
    // removed; the declared-size clause for point numbers is NOT covered.
}
