//@weave-into write-fonts/src/tables/glyf/simple.rs
// C09 (U09.6): implied on-curve point elision. For integer design coordinates (what glyf stores) an on-curve point is
// treated as the implied midpoint of its off-curve neighbours exactly when it IS their midpoint - otherwise eliding
// it would change the drawn path.
#[cfg(kani)]
mod verif_midpoint {
    use super::*;
    #[allow(unused_imports)]
    use std::{vec, vec::Vec};

    //@defaults unit=U09.6 props=C09 tier=thorough level=complete timeout=2400
    //@harness fns=is_mid_point,OtRound::ot_round,util::isclose note="all integer coordinates of the i16 design grid"
    #[kani::proof]
    fn is_mid_point_exact_on_integer_grid() {
        let c: [i16; 6] = kani::any();
        let p0 = kurbo::Point::new(c[0] as f64, c[1] as f64);
        let p1 = kurbo::Point::new(c[2] as f64, c[3] as f64);
        let p2 = kurbo::Point::new(c[4] as f64, c[5] as f64);
        let exact = (c[0] as i32 + c[4] as i32 == 2 * c[2] as i32) && (c[1] as i32 + c[5] as i32 == 2 * c[3] as i32);
        assert!(is_mid_point(p0, p1, p2) == exact);
        kani::cover!(exact && c[0] != c[4]);
        kani::cover!(!exact && (c[0] as i32 + c[4] as i32) / 2 == c[2] as i32 && c[1] == c[3] && c[3] == c[5]);
    }
}
