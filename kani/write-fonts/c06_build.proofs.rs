//@weave-into write-fonts/src/font_builder.rs
// C06 FontBuilder::build on ONE table with a symbolic tag and symbolic contents (U06.7, bounded): the table directory record
// points at the payload, the payload bytes come out unchanged - except bytes 8..12 of a table tagged exactly 'head', which
// carry the checksum adjustment that makes the whole-file checksum 0xB1B0AFBA - and the file is padded to 4 bytes.
#[cfg(kani)]
mod verif_c06_build {
    use super::*;
    #[allow(unused_imports)]
    use std::{vec, vec::Vec};

    //@harness unit=U06.7 props=C06 tier=thorough level=bounded bound="one table, 13 B payload, any tag" timeout=2400 fns=FontBuilder::build,FontBuilder::ordered_tags
    #[kani::proof]
    #[kani::unwind(24)]
    fn build_single_table_payload_and_head_adjustment() {
        let tagb: [u8; 4] = kani::any();
        kani::assume(tagb[0] >= 0x20 && tagb[0] <= 0x7e && tagb[1] >= 0x20 && tagb[1] <= 0x7e);
        kani::assume(tagb[2] >= 0x20 && tagb[2] <= 0x7e && tagb[3] >= 0x20 && tagb[3] <= 0x7e);
        let tag = Tag::new(&tagb);
        let data: [u8; 13] = kani::any();
        let mut b = FontBuilder::new();
        b.add_raw(tag, data.to_vec());
        let out = b.build();
        assert!(out.len() == 12 + 16 + 16);
        assert!(out[4] == 0 && out[5] == 1); // numTables
        assert!(out[12..16] == tagb);
        assert!(out[20..24] == 28u32.to_be_bytes()); // offset
        assert!(out[24..28] == 13u32.to_be_bytes()); // length
        let is_head = &tagb == b"head";
        let mut i = 0;
        while i < 13 {
            if !(is_head && i >= 8 && i < 12) {
                assert!(out[28 + i] == data[i]);
            }
            i += 1;
        }
        assert!(out[41] == 0 && out[42] == 0 && out[43] == 0);
        if is_head {
            assert!(read_fonts::tables::compute_checksum(&out) == 0xB1B0_AFBA);
        }
        kani::cover!(is_head);
        kani::cover!(&tagb == b"bhed");
        kani::cover!(!is_head && data[8] != 0);
    }
}
