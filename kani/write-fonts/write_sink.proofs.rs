//@weave-into write-fonts/src/write.rs
// Helper module for every write-fonts harness (no harness of its own except the contract check U04.0).
//
// CBMC cannot carry the real byte sink: every TableWriter::write_slice goes through Vec growth
// (RawVec::grow_amortized) and a 14-field table already exhausts memory. The harnesses therefore verify each
// table's write_into against the CONTRACT of the sink - "write_slice(b) appends exactly b to the bytes of the
// table being written; pad_to_2byte_aligned appends one 0 byte iff that length is odd; nothing else changes" -
// modelled by a fixed array, and unit U04.0 below discharges that contract on the real two-line functions.
#[cfg(kani)]
pub(crate) mod verif_sink {
    use super::*;
    #[allow(unused_imports)]
    use std::{vec, vec::Vec};

    // ---- sink model: up to MAXOBJ objects (the root table and the subtables reached through write_offset) ----
    pub(crate) const OBJ_CAP: usize = 112;
    pub(crate) const MAXOBJ: usize = 4;
    pub(crate) const MAXOFF: usize = 6;
    pub(crate) static mut BUF: [[u8; OBJ_CAP]; MAXOBJ] = [[0; OBJ_CAP]; MAXOBJ];
    pub(crate) static mut LEN: [usize; MAXOBJ] = [0; MAXOBJ];
    pub(crate) static mut CUR: usize = 0;
    pub(crate) static mut NEXT: usize = 1;
    // pending offsets: (parent object, position in parent, width, child object)
    pub(crate) static mut OFFS: [(usize, usize, usize, usize); MAXOFF] = [(0, 0, 0, 0); MAXOFF];
    pub(crate) static mut NOFFS: usize = 0;
    pub(crate) static mut OVERFLOW: bool = false;

    //@assume kani: std::hash::RandomState::new (getrandom syscall, unsupported by Kani) replaced by a fixed state; only TableWriter::default()'s empty ObjectStore uses it
    pub(crate) fn fixed_random_state() -> std::hash::RandomState {
        unsafe { core::mem::transmute::<(u64, u64), std::hash::RandomState>((0u64, 0u64)) }
    }
    pub(crate) fn reset_sink() {
        unsafe { LEN = [0; MAXOBJ]; CUR = 0; NEXT = 1; NOFFS = 0; OVERFLOW = false; }
    }
    /// contract model of TableWriter::write_slice: append to the object being written
    pub(crate) fn write_slice_sink(_w: &mut TableWriter, bytes: &[u8]) {
        unsafe {
            let c = CUR;
            if LEN[c] + bytes.len() > OBJ_CAP { OVERFLOW = true; return; }
            let mut i = 0;
            while i < bytes.len() {
                BUF[c][LEN[c] + i] = bytes[i];
                i += 1;
            }
            LEN[c] += bytes.len();
        }
    }
    /// contract model of TableWriter::pad_to_2byte_aligned
    pub(crate) fn pad_sink(_w: &mut TableWriter) {
        unsafe {
            let c = CUR;
            if LEN[c] % 2 != 0 {
                if LEN[c] + 1 > OBJ_CAP { OVERFLOW = true; return; }
                BUF[c][LEN[c]] = 0;
                LEN[c] += 1;
            }
        }
    }
    /// model of TableWriter::write_offset: the target is serialized as a separate object, `width` placeholder bytes
    /// are reserved in the parent and the (parent, position, width, child) edge is recorded for link().
    //@assume kani: TableWriter::write_offset + Graph::pack_objects/serialize (object de-duplication and offset packing, property C05) replaced by a model that lays the objects out one after another in creation order with offsets relative to the parent's start
    pub(crate) fn write_offset_model(w: &mut TableWriter, obj: &dyn FontWrite, width: usize) {
        unsafe {
            if NEXT >= MAXOBJ || NOFFS >= MAXOFF || LEN[CUR] + width > OBJ_CAP { OVERFLOW = true; return; }
            let parent = CUR;
            let child = NEXT;
            NEXT += 1;
            OFFS[NOFFS] = (parent, LEN[parent], width, child);
            NOFFS += 1;
            let mut i = 0;
            while i < width { BUF[parent][LEN[parent] + i] = 0; i += 1; }
            LEN[parent] += width;
            CUR = child;
            obj.write_into(w);
            CUR = parent;
        }
    }
    pub(crate) const OUT_CAP: usize = 160;
    /// lay the objects out one after another and resolve the recorded offsets
    pub(crate) fn link() -> Option<([u8; OUT_CAP], usize)> {
        unsafe {
            if OVERFLOW { return None; }
            if NEXT == 1 {
                // offset-free table: the root object's bytes are the compiled table (no loop: plain copy)
                let mut out = [0u8; OUT_CAP];
                out[..OBJ_CAP].copy_from_slice(&BUF[0]);
                return Some((out, LEN[0]));
            }
            let mut start = [0usize; MAXOBJ];
            let mut total = 0;
            let mut k = 0;
            while k < NEXT { start[k] = total; total += LEN[k]; k += 1; }
            if total > OUT_CAP { return None; }
            let mut j = 0;
            while j < NOFFS {
                let (p, pos, width, c) = OFFS[j];
                let off = (start[c] - start[p]) as u32;
                let be = off.to_be_bytes();
                let mut i = 0;
                while i < width { BUF[p][pos + i] = be[4 - width + i]; i += 1; }
                j += 1;
            }
            let mut out = [0u8; OUT_CAP];
            let mut k = 0;
            while k < NEXT {
                let mut i = 0;
                while i < LEN[k] { out[start[k] + i] = BUF[k][i]; i += 1; }
                k += 1;
            }
            Some((out, total))
        }
    }
    /// bytes of the root object only (for offset-free tables)
    pub(crate) fn sink_bytes() -> ([u8; OBJ_CAP], usize) {
        unsafe { (BUF[0], LEN[0]) }
    }

    /// The C04 round trip, generic over every write-fonts type that can also be parsed: take ANY value the parser can
    /// produce from <= N symbolic bytes (so every field value and every version / format the reader accepts), compile
    /// it through write_into, parse the compiled bytes again: it must parse, and equal the value that was written.
    pub(crate) fn roundtrip<T, const N: usize>()
    where
        T: for<'a> read_fonts::FontRead<'a> + FontWrite + PartialEq,
    {
        let buf: [u8; N] = kani::any();
        let len: usize = kani::any();
        kani::assume(len <= N);
        let Ok(v0) = T::read(read_fonts::FontData::new(&buf[..len])) else { return; };
        kani::cover!(true);
        reset_sink();
        let mut w = TableWriter::default();
        v0.write_into(&mut w);
        let Some((bytes, n)) = link() else { return; }; // beyond the model's capacity: not decided by this harness
        kani::cover!(n > 0);
        let v1 = T::read(read_fonts::FontData::new(&bytes[..n]));
        match v1 {
            Ok(v1) => assert!(v1 == v0, "compiled table does not read back as written"),
            Err(_) => assert!(false, "compiled table does not parse"),
        }
    }

    //@defaults unit=U04.0 props=C04,C09,C10,C16,C08 tier=quick level=bounded bound="<=2 calls of <=4 bytes each, contents symbolic" timeout=600
    //@harness fns=TableWriter::write_slice,TableData::write_bytes,TableWriter::pad_to_2byte_aligned,TableWriter::into_data note="the callee contract every write-fonts harness relies on, on the REAL functions with the real Vec"
    #[kani::proof]
    #[kani::unwind(7)]
    #[kani::stub(std::hash::RandomState::new, fixed_random_state)]
    fn sink_contract_on_real_writer() {
        let mut w = TableWriter::default();
        let a: [u8; 4] = kani::any();
        let la: usize = kani::any();
        kani::assume(la <= 4);
        w.write_slice(&a[..la]);
        assert!(w.current_data().bytes.len() == la);
        let b: [u8; 3] = kani::any();
        let lb: usize = kani::any();
        kani::assume(lb <= 3);
        w.write_slice(&b[..lb]);
        {
            let d = &w.current_data().bytes;
            assert!(d.len() == la + lb);
            let k: usize = kani::any();
            if k < la { assert!(d[k] == a[k]); }
            if k >= la && k < la + lb { assert!(d[k] == b[k - la]); }
        }
        w.pad_to_2byte_aligned();
        let d = w.into_data();
        assert!(d.bytes.len() == la + lb + (la + lb) % 2);
        if (la + lb) % 2 == 1 { assert!(d.bytes[la + lb] == 0); }
        assert!(d.offsets.is_empty());
        kani::cover!((la + lb) % 2 == 1);
        kani::cover!(la == 4 && lb == 3);
    }
}
