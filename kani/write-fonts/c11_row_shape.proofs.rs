//@weave-into write-fonts/src/tables/variations/ivs_builder.rs
// C11, variation-store builder: the row-shape algebra every encoding decision rests on ("however the builder merges,
// reorders or narrows rows" a delta set must stay retrievable). ColumnBits::for_val is the narrowest width that holds a
// delta (all i32); RowShape::{can_cover, merge, row_cost, count_lengths, n_non_zero_regions} are the column-wise
// definitions, for every shape of up to 3 columns: a shape covers another iff EVERY column is at least as wide, a merged
// shape covers both operands, costs add up.
#[cfg(kani)]
mod verif_c11_row_shape {
    use super::*;
    #[allow(unused_imports)]
    use std::{vec, vec::Vec};

    fn any_bits() -> ColumnBits {
        let k: u8 = kani::any();
        kani::assume(k < 4);
        [ColumnBits::None, ColumnBits::One, ColumnBits::Two, ColumnBits::Four][k as usize]
    }
    fn width(b: ColumnBits) -> usize { match b { ColumnBits::None => 0, ColumnBits::One => 1, ColumnBits::Two => 2, ColumnBits::Four => 4 } }

    //@defaults unit=U11.6 props=C11 tier=quick level=complete timeout=600
    //@harness fns=ColumnBits::for_val,ColumnBits::cost
    #[kani::proof]
    fn column_bits_is_narrowest_width() {
        let v: i32 = kani::any();
        let b = ColumnBits::for_val(v);
        let want = if v == 0 { 0 } else if v >= -128 && v <= 127 { 1 } else if v >= -32768 && v <= 32767 { 2 } else { 4 };
        assert!(width(b) == want && b.cost() == want);
        // the derived order is the order of widths
        let c = any_bits();
        assert!((b >= c) == (width(b) >= width(c)));
        kani::cover!(want == 2);
    }
    //@harness fns=RowShape::can_cover,RowShape::merge,RowShape::row_cost,RowShape::count_lengths,RowShape::n_non_zero_regions,RowShape::overhead level=bounded bound="shapes of exactly 3 columns, every combination of column widths"
    #[kani::proof]
    #[kani::unwind(6)]
    fn row_shape_algebra_is_column_wise() {
        let (a0, a1, a2, b0, b1, b2) = (any_bits(), any_bits(), any_bits(), any_bits(), any_bits(), any_bits());
        let a = RowShape(vec![a0, a1, a2]);
        let b = RowShape(vec![b0, b1, b2]);
        let cover = width(a0) >= width(b0) && width(a1) >= width(b1) && width(a2) >= width(b2);
        assert!(a.can_cover(&b) == cover);
        let m = a.merge(&b);
        assert!(m.0.len() == 3);
        assert!(width(m.0[0]) == width(a0).max(width(b0)) && width(m.0[1]) == width(a1).max(width(b1)) && width(m.0[2]) == width(a2).max(width(b2)));
        assert!(m.can_cover(&a) && m.can_cover(&b));
        assert!(a.row_cost() == width(a0) + width(a1) + width(a2));
        let nz = (width(a0) != 0) as usize + (width(a1) != 0) as usize + (width(a2) != 0) as usize;
        assert!(a.n_non_zero_regions() == nz && a.overhead() == 10 + 2 * nz);
        let (n8, n16, n32) = a.count_lengths();
        let cnt = |w: usize| ((width(a0) == w) as u16) + ((width(a1) == w) as u16) + ((width(a2) == w) as u16);
        assert!(n8 == cnt(1) && n16 == cnt(2) && n32 == cnt(4));
        kani::cover!(!cover && width(a0) > width(b0));
        kani::cover!(cover);
    }
}
