//@weave-into write-fonts/src/round.rs
// C15: OtRound (the rounding the writers use when turning design coordinates into font units) is "round half UP",
// floor(x + 0.5), for every impl - including the two-component ones - on every finite input whose result is representable.
#[cfg(kani)]
mod verif_c15_ot_round {
    use super::*;

    // floor(x + 0.5) characterised without calling floor: the unique integer r with r <= x + 0.5 < r + 1
    fn is_round_half_up_f64(x: f64, r: f64) -> bool { r <= x + 0.5 && x + 0.5 < r + 1.0 && r == r.trunc() }

    //@defaults unit=U15.8 props=C15 tier=quick level=complete timeout=900 note="every finite input with /x/ < 1e9 (f64), 1e6 (f32), 30000 (points: results must fit i16)"
    //@harness fns=OtRound<f64>(f64)::ot_round,OtRound<i16>(f64)::ot_round,OtRound<u16>(f64)::ot_round
    #[kani::proof]
    fn ot_round_f64_is_floor_of_x_plus_half() {
        let x: f64 = kani::any();
        kani::assume(x.is_finite() && x.abs() < 1.0e9);
        let r: f64 = x.ot_round();
        assert!(is_round_half_up_f64(x, r));
        if r >= -32768.0 && r <= 32767.0 { let i: i16 = x.ot_round(); assert!(i as f64 == r); }
        if r >= 0.0 && r <= 65535.0 { let u: u16 = x.ot_round(); assert!(u as f64 == r); }
        // exact halves go UP, also when negative
        if x == -0.5 { assert!(r == 0.0); }
        if x == -1.5 { assert!(r == -1.0); }
        if x == 2.5 { assert!(r == 3.0); }
        kani::cover!(x == -1.5);
        kani::cover!(x > 1000.25 && x < 1000.75);
    }
    //@harness fns=OtRound<f32>(f32)::ot_round,OtRound<i16>(f32)::ot_round,OtRound<u16>(f32)::ot_round
    #[kani::proof]
    fn ot_round_f32_is_floor_of_x_plus_half() {
        let x: f32 = kani::any();
        kani::assume(x.is_finite() && x.abs() < 1.0e6);
        let r: f32 = x.ot_round();
        assert!(r == (x + 0.5).floor());
        assert!(r <= x + 0.5 && x + 0.5 < r + 1.0);
        if r >= -32768.0 && r <= 32767.0 { let i: i16 = x.ot_round(); assert!(i as f32 == r); }
        if r >= 0.0 && r <= 65535.0 { let u: u16 = x.ot_round(); assert!(u as f32 == r); }
        if x == -0.5 { assert!(r == 0.0); }
        kani::cover!(x == -2.5);
    }
    //@harness fns=OtRound<(i16,i16)>(kurbo::Point)::ot_round,OtRound<kurbo::Vec2>(kurbo::Vec2)::ot_round
    #[kani::proof]
    fn ot_round_point_and_vec2_round_each_component_half_up() {
        let (x, y): (f64, f64) = kani::any();
        kani::assume(x.is_finite() && x.abs() < 30000.0 && y.is_finite() && y.abs() < 30000.0);
        let v = kurbo::Vec2::new(x, y).ot_round();
        assert!(is_round_half_up_f64(x, v.x) && is_round_half_up_f64(y, v.y));
        let (px, py): (i16, i16) = kurbo::Point::new(x, y).ot_round();
        assert!(px as f64 == v.x && py as f64 == v.y);
        kani::cover!(x == -0.5 && y == -1.5);
    }
}
