//@weave-into write-fonts/src/tables/variations.rs
//@include write_sink.proofs.rs
// C10: the size a tuple variation DECLARES for its packed point numbers / packed deltas (compute_size, which goes into the
// tuple header's variationDataSize and decides where the reader starts the next tuple) equals the number of bytes write_into
// produces, at the run-length and count-width boundaries (63/64/65 deltas, 127/128/129 point numbers). The data is CONCRETE
// (lengths this large cannot be carried symbolically), so each harness is one concrete execution of the real code.
#[cfg(kani)]
mod verif_c10_sizes {
    use super::*;
    use crate::write::verif_sink::fixed_random_state;
    use crate::write::TableWriter;
    use crate::FontWrite;
    #[allow(unused_imports)]
    use std::{vec, vec::Vec};

    static mut COUNT: usize = 0;
    static mut FIRST: [u8; 2] = [0; 2];
    fn write_slice_count(_w: &mut TableWriter, bytes: &[u8]) {
        unsafe {
            let mut i = 0;
            while i < bytes.len() {
                if COUNT + i < 2 { FIRST[COUNT + i] = bytes[i]; }
                i += 1;
            }
            COUNT += bytes.len();
        }
    }
    fn points_declared_vs_written(n: usize) {
        let p = PackedPointNumbers::Some(vec![7u16; n]);
        let declared = p.compute_size() as usize;
        unsafe { COUNT = 0; }
        let mut tw = TableWriter::default();
        p.write_into(&mut tw);
        let written = unsafe { COUNT };
        assert!(declared == written);
        // count header: one byte below 128 points, otherwise two bytes with the high bit set
        let first = unsafe { FIRST };
        if n < 128 { assert!(first[0] as usize == n); } else { assert!(u16::from_be_bytes(first) as usize == (n | 0x8000)); }
        kani::cover!(true);
    }
    //@defaults unit=U10.5 props=C10 tier=thorough level=bounded bound="one concrete execution per listed length (concrete data)" timeout=2400
    //@harness fns=PackedPointNumbers::compute_size,PackedPointNumbers::write_into,PackedPointRun::compute_size,PackedPointRun::write_into,PackedPointNumbers::iter_runs
    #[kani::proof]
    #[kani::unwind(132)]
    #[kani::stub(std::hash::RandomState::new, fixed_random_state)]
    #[kani::stub(TableWriter::write_slice, write_slice_count)]
    fn packed_points_declared_size_127() { points_declared_vs_written(127) }
    //@harness fns=PackedPointNumbers::compute_size,PackedPointNumbers::write_into
    #[kani::proof]
    #[kani::unwind(132)]
    #[kani::stub(std::hash::RandomState::new, fixed_random_state)]
    #[kani::stub(TableWriter::write_slice, write_slice_count)]
    fn packed_points_declared_size_128() { points_declared_vs_written(128) }
    //@harness fns=PackedPointNumbers::compute_size,PackedPointNumbers::write_into
    #[kani::proof]
    #[kani::unwind(132)]
    #[kani::stub(std::hash::RandomState::new, fixed_random_state)]
    #[kani::stub(TableWriter::write_slice, write_slice_count)]
    fn packed_points_declared_size_129() { points_declared_vs_written(129) }

    fn deltas_declared_vs_written(n: usize, v: i32) {
        let d = PackedDeltas::new(vec![v; n]);
        let declared = d.compute_size() as usize;
        unsafe { COUNT = 0; }
        let mut tw = TableWriter::default();
        d.write_into(&mut tw);
        assert!(declared == unsafe { COUNT });
        kani::cover!(true);
    }
    //@harness fns=PackedDeltas::compute_size,PackedDeltas::write_into,PackedDeltaRun::compute_size,PackedDeltaRun::write_into,PackedDeltas::iter_runs
    #[kani::proof]
    #[kani::unwind(70)]
    #[kani::stub(std::hash::RandomState::new, fixed_random_state)]
    #[kani::stub(TableWriter::write_slice, write_slice_count)]
    fn packed_deltas_declared_size_64_65() {
        deltas_declared_vs_written(64, 300);
        deltas_declared_vs_written(65, 300);
        deltas_declared_vs_written(65, 0);
    }
}
