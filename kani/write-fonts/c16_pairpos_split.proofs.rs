//@weave-into write-fonts/src/graph/splitting/pairpos.rs
// C16 (U16.5): copying a value record while splitting a class-based PairPos subtable keeps the record layout of the
// value format: exactly record_byte_len(format) bytes, one recorded offset per non-null device offset, in order.
#[cfg(kani)]
mod verif_c16_copy_value_rec {
    use super::*;
    use read_fonts::FontData;
    #[allow(unused_imports)]
    use std::{vec, vec::Vec};

    fn fixed_random_state() -> std::hash::RandomState {
        unsafe { core::mem::transmute::<(u64, u64), std::hash::RandomState>((0u64, 0u64)) }
    }
    //@defaults unit=U16.5 props=C16 tier=quick level=bounded bound="every ValueFormat (all 256 flag combinations), any record bytes" timeout=900
    //@harness fns=copy_value_rec
    #[kani::proof]
    #[kani::unwind(34)]
    #[kani::stub(std::hash::RandomState::new, fixed_random_state)]
    fn copy_value_rec_keeps_layout() {
        // every combination of the four device flags x metrics absent / all present (32 enumerated formats),
        // record bytes symbolic (so every null / non-null pattern of the device offsets)
        let buf: [u8; 16] = kani::any();
        let mut combo: u16 = 0;
        let mut witnessed = false;
        while combo < 32 {
            let bits = ((combo & 0xF) << 4) | if combo >= 16 { 0xF } else { 0 };
            let format = ValueFormat::from_bits_truncate(bits);
            let rec = rgpos::ValueRecord::read(FontData::new(&buf), format).unwrap();
            let mut n_dev = 0usize;
            if !rec.x_placement_device.get().is_null() { n_dev += 1; }
            if !rec.y_placement_device.get().is_null() { n_dev += 1; }
            if !rec.x_advance_device.get().is_null() { n_dev += 1; }
            if !rec.y_advance_device.get().is_null() { n_dev += 1; }
            let oid: [ObjectId; 4] = [ObjectId::next(), ObjectId::next(), ObjectId::next(), ObjectId::next()];
            let devs: Vec<OffsetRecord> = vec![
                OffsetRecord { pos: 0, len: crate::graph::OffsetLen::Offset16, object: oid[0], adjustment: 0 },
                OffsetRecord { pos: 0, len: crate::graph::OffsetLen::Offset16, object: oid[1], adjustment: 0 },
                OffsetRecord { pos: 0, len: crate::graph::OffsetLen::Offset16, object: oid[2], adjustment: 0 },
                OffsetRecord { pos: 0, len: crate::graph::OffsetLen::Offset16, object: oid[3], adjustment: 0 },
            ];
            let mut target = TableData::default();
            let seen = copy_value_rec(&mut target, &rec, format, &devs);
            assert!(seen == n_dev);
            assert!(target.offsets.len() == n_dev);
            // the copied record has exactly the layout the format prescribes
            assert!(target.bytes.len() == format.record_byte_len());
            if n_dev > 0 { assert!(target.offsets[0].object == oid[0]); }
            if format.contains(ValueFormat::Y_PLACEMENT_DEVICE) && !format.contains(ValueFormat::X_PLACEMENT_DEVICE) && n_dev == 0 { witnessed = true; }
            combo += 1;
        }
        kani::cover!(witnessed);
    }
}
