//@weave-into write-fonts/src/graph/splitting/pairpos.rs
// C16 (U16.5): copying a value record while splitting a class-based PairPos subtable keeps the record layout of the
// value format: exactly record_byte_len(format) bytes, one recorded offset per non-null device offset, in order.
#[cfg(kani)]
mod verif_c16_copy_value_rec {
    use super::*;
    use read_fonts::FontData;
    #[allow(unused_imports)]
    use std::{vec, vec::Vec};

    fn fixed_random_state() -> std::hash::RandomState {
        unsafe { core::mem::transmute::<(u64, u64), std::hash::RandomState>((0u64, 0u64)) }
    }
    // contract models of the byte sink TableData::{write_bytes, add_offset} (append n bytes / append a `width`-byte
    // placeholder and record the target object); the real Vec-backed functions are discharged in unit U04.0
    static mut BYTES: usize = 0;
    static mut NOFF: usize = 0;
    static mut OBJ: [u64; 4] = [0; 4];
    fn write_bytes_model(_t: &mut TableData, bytes: &[u8]) { unsafe { BYTES += bytes.len(); } }
    fn add_offset_model(_t: &mut TableData, object: ObjectId, width: usize, _adjustment: u32) {
        unsafe { if NOFF < 4 { OBJ[NOFF] = object.0; } NOFF += 1; BYTES += width; }
    }
    //@defaults unit=U16.5 props=C16 tier=quick level=bounded bound="all 16 device-flag combinations x metrics absent / all present (32 enumerated formats), any record bytes" timeout=900
    //@harness fns=copy_value_rec
    #[kani::proof]
    #[kani::unwind(34)]
    #[kani::stub(std::hash::RandomState::new, fixed_random_state)]
    #[kani::stub(TableData::write_bytes, write_bytes_model)]
    #[kani::stub(TableData::add_offset, add_offset_model)]
    fn copy_value_rec_keeps_layout() {
        let buf: [u8; 16] = kani::any();
        let mut combo: u16 = 0;
        let mut witnessed = false;
        while combo < 32 {
            let bits = ((combo & 0xF) << 4) | if combo >= 16 { 0xF } else { 0 };
            let format = ValueFormat::from_bits_truncate(bits);
            let rec = rgpos::ValueRecord::read(FontData::new(&buf), format).unwrap();
            let mut n_dev = 0usize;
            if !rec.x_placement_device.get().is_null() { n_dev += 1; }
            if !rec.y_placement_device.get().is_null() { n_dev += 1; }
            if !rec.x_advance_device.get().is_null() { n_dev += 1; }
            if !rec.y_advance_device.get().is_null() { n_dev += 1; }
            let devs: [OffsetRecord; 4] = [
                OffsetRecord { pos: 0, len: crate::graph::OffsetLen::Offset16, object: ObjectId(11), adjustment: 0 },
                OffsetRecord { pos: 0, len: crate::graph::OffsetLen::Offset16, object: ObjectId(12), adjustment: 0 },
                OffsetRecord { pos: 0, len: crate::graph::OffsetLen::Offset16, object: ObjectId(13), adjustment: 0 },
                OffsetRecord { pos: 0, len: crate::graph::OffsetLen::Offset16, object: ObjectId(14), adjustment: 0 },
            ];
            unsafe { BYTES = 0; NOFF = 0; }
            let mut target = TableData::default();
            let seen = copy_value_rec(&mut target, &rec, format, &devs);
            let (bytes, noff, obj) = unsafe { (BYTES, NOFF, OBJ) };
            assert!(seen == n_dev && noff == n_dev);
            // the copied record has exactly the layout the format prescribes
            assert!(bytes == format.record_byte_len());
            // device offsets are re-attached in order
            if n_dev > 0 { assert!(obj[0] == 11); }
            if n_dev > 1 { assert!(obj[1] == 12); }
            if format.contains(ValueFormat::Y_PLACEMENT_DEVICE) && !format.contains(ValueFormat::X_PLACEMENT_DEVICE) && n_dev == 0 { witnessed = true; }
            combo += 1;
        }
        kani::cover!(witnessed);
    }
}
