//@weave-into write-fonts/src/lib.rs
//@include write_sink.proofs.rs
// C04 for tables with arrays and offsets: values are constructed directly (fixed shape, every field symbolic),
// compiled through the real write_into (sink / offset model of write_sink.proofs.rs) and parsed back with the
// real read-fonts parser + to_owned_table; the result must equal the value written.
#[cfg(kani)]
mod verif_c04_shapes {
    use crate::write::verif_sink::*;
    use crate::write::TableWriter;
    use crate::FontWrite;
    use read_fonts::{FontData, FontRead};
    use types::GlyphId16;
    #[allow(unused_imports)]
    use std::{vec, vec::Vec};

    fn roundtrip_value<T>(v0: &T) -> usize
    where
        T: for<'a> FontRead<'a> + FontWrite + PartialEq,
    {
        reset_sink();
        let mut w = TableWriter::default();
        v0.write_into(&mut w);
        let linked = link();
        assert!(linked.is_some());
        let (bytes, n) = linked.unwrap();
        match T::read(FontData::new(&bytes[..n])) {
            Ok(v1) => assert!(v1 == *v0, "compiled table does not read back as written"),
            Err(_) => assert!(false, "compiled table does not parse"),
        }
        n
    }

    //@defaults unit=U04.2 props=C04,C16 tier=quick level=bounded bound="fixed shapes (2 array elements), every field symbolic" timeout=900
    //@harness fns=CoverageFormat1::write_into,CoverageFormat2::write_into,RangeRecord::write_into
    #[kani::proof]
    #[kani::unwind(8)]
    #[kani::stub(std::hash::RandomState::new, fixed_random_state)]
    #[kani::stub(TableWriter::write_slice, write_slice_sink)]
    fn coverage_formats_roundtrip() {
        use crate::tables::layout::{CoverageFormat1, CoverageFormat2, RangeRecord};
        let c1 = CoverageFormat1::new(vec![GlyphId16::new(kani::any()), GlyphId16::new(kani::any())]);
        assert!(roundtrip_value(&c1) == 8);
        let c2 = CoverageFormat2::new(vec![
            RangeRecord::new(GlyphId16::new(kani::any()), GlyphId16::new(kani::any()), kani::any()),
            RangeRecord::new(GlyphId16::new(kani::any()), GlyphId16::new(kani::any()), kani::any()),
        ]);
        assert!(roundtrip_value(&c2) == 16);
        kani::cover!(true);
    }
    //@harness fns=ClassDefFormat1::write_into,ClassDefFormat2::write_into,ClassRangeRecord::write_into
    #[kani::proof]
    #[kani::unwind(8)]
    #[kani::stub(std::hash::RandomState::new, fixed_random_state)]
    #[kani::stub(TableWriter::write_slice, write_slice_sink)]
    fn classdef_formats_roundtrip() {
        use crate::tables::layout::{ClassDefFormat1, ClassDefFormat2, ClassRangeRecord};
        let c1 = ClassDefFormat1::new(GlyphId16::new(kani::any()), vec![kani::any(), kani::any()]);
        assert!(roundtrip_value(&c1) == 10);
        let c2 = ClassDefFormat2::new(vec![
            ClassRangeRecord::new(GlyphId16::new(kani::any()), GlyphId16::new(kani::any()), kani::any()),
            ClassRangeRecord::new(GlyphId16::new(kani::any()), GlyphId16::new(kani::any()), kani::any()),
        ]);
        assert!(roundtrip_value(&c2) == 16);
        kani::cover!(true);
    }
    fn single_pos_with_device_on(slot: u8) {
        use crate::tables::gpos::{SinglePosFormat1, ValueRecord};
        use crate::tables::layout::{CoverageFormat1, CoverageTable, DeviceOrVariationIndex};
        let d1 = DeviceOrVariationIndex::variation_index(kani::any(), kani::any());
        let vr = ValueRecord::new();
        let vr = match slot { 0 => vr.with_x_placement_device(d1), 1 => vr.with_y_placement_device(d1), 2 => vr.with_x_advance_device(d1), _ => vr.with_y_advance_device(d1) };
        let cov = CoverageTable::Format1(CoverageFormat1::new(vec![GlyphId16::new(kani::any())]));
        let sp = SinglePosFormat1::new(cov, vr);
        reset_sink();
        let mut w = TableWriter::default();
        sp.write_into(&mut w);
        let linked = link();
        assert!(linked.is_some());
        let (bytes, n) = linked.unwrap();
        let back = SinglePosFormat1::read(FontData::new(&bytes[..n]));
        assert!(back.is_ok());
        let back = back.unwrap();
        // (a value record read back carries an explicit format, so compare field by field, not with ==)
        let (a, b) = (&sp.value_record, &back.value_record);
        assert!(a.format() == b.format());
        assert!(a.x_placement == b.x_placement && a.y_placement == b.y_placement && a.x_advance == b.x_advance && a.y_advance == b.y_advance);
        assert!(a.x_placement_device == b.x_placement_device && a.y_placement_device == b.y_placement_device
            && a.x_advance_device == b.x_advance_device && a.y_advance_device == b.y_advance_device);
        assert!(sp.coverage == back.coverage);
        kani::cover!(true);
    }
    //@defaults unit=U04.3 props=C04,C16 tier=thorough level=bounded bound="one shape per harness: a SinglePos value record with one device (VariationIndex) subtable on one device slot; field values symbolic" timeout=2400
    //@harness fns=ValueRecord::write_into,ValueRecord::format,SinglePosFormat1::write_into,read_fonts::ValueRecord::read note="through the offset model: the device offset must come back on the slot it was written for (x placement)"
    #[kani::proof]
    #[kani::unwind(22)]
    #[kani::stub(std::hash::RandomState::new, fixed_random_state)]
    #[kani::stub(TableWriter::write_slice, write_slice_sink)]
    #[kani::stub(TableWriter::write_offset, write_offset_model)]
    fn single_pos_device_slot0() { single_pos_with_device_on(0) }
    //@harness fns=ValueRecord::write_into note="y placement device"
    #[kani::proof]
    #[kani::unwind(22)]
    #[kani::stub(std::hash::RandomState::new, fixed_random_state)]
    #[kani::stub(TableWriter::write_slice, write_slice_sink)]
    #[kani::stub(TableWriter::write_offset, write_offset_model)]
    fn single_pos_device_slot1() { single_pos_with_device_on(1) }
    //@harness fns=ValueRecord::write_into note="x advance device"
    #[kani::proof]
    #[kani::unwind(22)]
    #[kani::stub(std::hash::RandomState::new, fixed_random_state)]
    #[kani::stub(TableWriter::write_slice, write_slice_sink)]
    #[kani::stub(TableWriter::write_offset, write_offset_model)]
    fn single_pos_device_slot2() { single_pos_with_device_on(2) }
    //@harness fns=ValueRecord::write_into note="y advance device"
    #[kani::proof]
    #[kani::unwind(22)]
    #[kani::stub(std::hash::RandomState::new, fixed_random_state)]
    #[kani::stub(TableWriter::write_slice, write_slice_sink)]
    #[kani::stub(TableWriter::write_offset, write_offset_model)]
    fn single_pos_device_slot3() { single_pos_with_device_on(3) }
    //@defaults unit=U04.2 props=C04,C16 tier=quick level=bounded bound="fixed shapes (2 array elements), every field symbolic" timeout=900
    //@harness fns=Gasp::write_into,GaspRange::write_into
    #[kani::proof]
    #[kani::unwind(8)]
    #[kani::stub(std::hash::RandomState::new, fixed_random_state)]
    #[kani::stub(TableWriter::write_slice, write_slice_sink)]
    fn gasp_roundtrip() {
        use crate::tables::gasp::{Gasp, GaspRange};
        use read_fonts::tables::gasp::GaspRangeBehavior;
        let g = Gasp::new(kani::any(), 2, vec![
            GaspRange::new(kani::any(), GaspRangeBehavior::from_bits_truncate(kani::any())),
            GaspRange::new(kani::any(), GaspRangeBehavior::from_bits_truncate(kani::any())),
        ]);
        assert!(roundtrip_value(&g) == 12);
        kani::cover!(true);
    }
}
