//@weave-into write-fonts/src/lib.rs
//@include write_sink.proofs.rs
// C04 for tables with arrays and offsets: values are constructed directly (fixed shape, every field symbolic),
// compiled through the real write_into (sink / offset model of write_sink.proofs.rs) and parsed back with the
// real read-fonts parser + to_owned_table; the result must equal the value written.
#[cfg(kani)]
mod verif_c04_shapes {
    use crate::write::verif_sink::*;
    use crate::write::TableWriter;
    use crate::FontWrite;
    use read_fonts::{FontData, FontRead};
    use types::GlyphId16;
    #[allow(unused_imports)]
    use std::{vec, vec::Vec};

    fn roundtrip_value<T>(v0: &T) -> usize
    where
        T: for<'a> FontRead<'a> + FontWrite + PartialEq,
    {
        reset_sink();
        let mut w = TableWriter::default();
        v0.write_into(&mut w);
        let linked = link();
        assert!(linked.is_some());
        let (bytes, n) = linked.unwrap();
        match T::read(FontData::new(&bytes[..n])) {
            Ok(v1) => assert!(v1 == *v0, "compiled table does not read back as written"),
            Err(_) => assert!(false, "compiled table does not parse"),
        }
        n
    }

    //@defaults unit=U04.2 props=C04,C16 tier=quick level=bounded bound="fixed shapes (2 array elements), every field symbolic" timeout=900
    //@harness fns=CoverageFormat1::write_into,CoverageFormat2::write_into,RangeRecord::write_into
    #[kani::proof]
    #[kani::unwind(8)]
    #[kani::stub(std::hash::RandomState::new, fixed_random_state)]
    #[kani::stub(TableWriter::write_slice, write_slice_sink)]
    fn coverage_formats_roundtrip() {
        use crate::tables::layout::{CoverageFormat1, CoverageFormat2, RangeRecord};
        let c1 = CoverageFormat1::new(vec![GlyphId16::new(kani::any()), GlyphId16::new(kani::any())]);
        assert!(roundtrip_value(&c1) == 8);
        let c2 = CoverageFormat2::new(vec![
            RangeRecord::new(GlyphId16::new(kani::any()), GlyphId16::new(kani::any()), kani::any()),
            RangeRecord::new(GlyphId16::new(kani::any()), GlyphId16::new(kani::any()), kani::any()),
        ]);
        assert!(roundtrip_value(&c2) == 16);
        kani::cover!(true);
    }
    //@harness fns=ClassDefFormat1::write_into,ClassDefFormat2::write_into,ClassRangeRecord::write_into
    #[kani::proof]
    #[kani::unwind(8)]
    #[kani::stub(std::hash::RandomState::new, fixed_random_state)]
    #[kani::stub(TableWriter::write_slice, write_slice_sink)]
    fn classdef_formats_roundtrip() {
        use crate::tables::layout::{ClassDefFormat1, ClassDefFormat2, ClassRangeRecord};
        let c1 = ClassDefFormat1::new(GlyphId16::new(kani::any()), vec![kani::any(), kani::any()]);
        assert!(roundtrip_value(&c1) == 10);
        let c2 = ClassDefFormat2::new(vec![
            ClassRangeRecord::new(GlyphId16::new(kani::any()), GlyphId16::new(kani::any()), kani::any()),
            ClassRangeRecord::new(GlyphId16::new(kani::any()), GlyphId16::new(kani::any()), kani::any()),
        ]);
        assert!(roundtrip_value(&c2) == 16);
        kani::cover!(true);
    }
    //@defaults unit=U04.3 props=C04,C16 tier=quick level=bounded bound="4 enumerated shapes (one device table on each device slot), metric and device values symbolic" timeout=900
    //@harness fns=ValueRecord::write_into,ValueRecord::format,read_fonts::ValueRecord::read note="a device (VariationIndex) subtable attached to one of the four device slots is written - through the offset model - as a non-null offset in exactly that slot of the compiled record, the other three stay null, and the metrics keep their values"
    #[kani::proof]
    #[kani::unwind(18)]
    #[kani::stub(std::hash::RandomState::new, fixed_random_state)]
    #[kani::stub(TableWriter::write_slice, write_slice_sink)]
    #[kani::stub(TableWriter::write_offset, write_offset_model)]
    fn value_record_device_slots() {
        use crate::tables::gpos::ValueRecord;
        use crate::tables::layout::DeviceOrVariationIndex;
        let mut slot = 0u8;
        while slot < 4 {
            let (xa, ya): (i16, i16) = (kani::any(), kani::any());
            let d1 = DeviceOrVariationIndex::variation_index(kani::any(), kani::any());
            let vr = ValueRecord::new().with_x_advance(xa).with_y_advance(ya);
            let vr = match slot { 0 => vr.with_x_placement_device(d1), 1 => vr.with_y_placement_device(d1), 2 => vr.with_x_advance_device(d1), _ => vr.with_y_advance_device(d1) };
            // explicit format with all four device slots present, so that null device offsets are written too and
            // the ORDER of the four slots is observable
            let all = crate::tables::gpos::ValueFormat::X_ADVANCE | crate::tables::gpos::ValueFormat::Y_ADVANCE
                | crate::tables::gpos::ValueFormat::X_PLACEMENT_DEVICE | crate::tables::gpos::ValueFormat::Y_PLACEMENT_DEVICE
                | crate::tables::gpos::ValueFormat::X_ADVANCE_DEVICE | crate::tables::gpos::ValueFormat::Y_ADVANCE_DEVICE;
            let vr = vr.with_explicit_value_format(all);
            let format = vr.format();
            assert!(format == all);
            reset_sink();
            let mut w = TableWriter::default();
            vr.write_into(&mut w);
            let linked = link();
            assert!(linked.is_some());
            let (bytes, n) = linked.unwrap();
            let r = read_fonts::tables::gpos::ValueRecord::read(FontData::new(&bytes[..n]), format);
            assert!(r.is_ok());
            let r = r.unwrap();
            assert!(r.x_advance() == Some(xa) && r.y_advance() == Some(ya) && r.x_placement().is_none() && r.y_placement().is_none());
            assert!(r.x_placement_device.get().is_null() == (slot != 0));
            assert!(r.y_placement_device.get().is_null() == (slot != 1));
            assert!(r.x_advance_device.get().is_null() == (slot != 2));
            assert!(r.y_advance_device.get().is_null() == (slot != 3));
            slot += 1;
        }
        kani::cover!(true);
    }
    //@defaults unit=U04.2 props=C04,C16 tier=quick level=bounded bound="fixed shapes (2 array elements), every field symbolic" timeout=900
    //@harness fns=Gasp::write_into,GaspRange::write_into
    #[kani::proof]
    #[kani::unwind(8)]
    #[kani::stub(std::hash::RandomState::new, fixed_random_state)]
    #[kani::stub(TableWriter::write_slice, write_slice_sink)]
    fn gasp_roundtrip() {
        use crate::tables::gasp::{Gasp, GaspRange};
        use read_fonts::tables::gasp::GaspRangeBehavior;
        let g = Gasp::new(kani::any(), 2, vec![
            GaspRange::new(kani::any(), GaspRangeBehavior::from_bits_truncate(kani::any())),
            GaspRange::new(kani::any(), GaspRangeBehavior::from_bits_truncate(kani::any())),
        ]);
        assert!(roundtrip_value(&g) == 12);
        kani::cover!(true);
    }
}
