//@weave-into write-fonts/src/tables/cmap.rs
// C08 writer half (U08.1): CmapSubtable::create_format_4 (+ Format4SegmentComputer) against the same executable
// OpenType format-4 lookup that the reader is verified against (read-fonts unit U08.2): the compiled arrays answer
// every mapped code point with its glyph and every other code point with "missing". Code points are ENUMERATED
// shapes (CBMC exhausts memory on symbolic code points); glyph ids are fully symbolic.
#[cfg(kani)]
mod verif_cmap_writer {
    use super::*;
    #[allow(unused_imports)]
    use std::{vec, vec::Vec};

    // OpenType format-4 lookup over the owned arrays, written from the specification text
    fn fmt4_lookup(t: &Cmap4, cp: u16) -> u16 {
        let n = t.end_code.len();
        let mut i = 0;
        while i < n {
            if t.end_code[i] >= cp {
                if t.start_code[i] > cp { return 0; }
                let ro = t.id_range_offsets[i];
                if ro == 0 {
                    return (cp as i32 + t.id_delta[i] as i32) as u16;
                }
                let Some(idx) = (ro as usize / 2 + (cp - t.start_code[i]) as usize).checked_sub(n - i) else { return 0; };
                if idx >= t.glyph_id_array.len() { return 0; }
                let g = t.glyph_id_array[idx];
                if g == 0 { return 0; }
                return (g as i32 + t.id_delta[i] as i32) as u16;
            }
            i += 1;
        }
        0
    }
    fn well_formed(t: &Cmap4) -> bool {
        let n = t.end_code.len();
        n >= 1 && t.start_code.len() == n && t.id_delta.len() == n && t.id_range_offsets.len() == n
            && t.end_code[n - 1] == 0xFFFF && t.start_code[n - 1] == 0xFFFF
    }
    fn ch(c: u16) -> char { char::from_u32(c as u32).unwrap() }

    fn single(c1: u16) {
        let g1: u16 = kani::any();
        kani::assume(g1 != 0);
        let m = [(ch(c1), GlyphId::new(g1 as u32))];
        let sub = CmapSubtable::create_format_4(&m).unwrap();
        let CmapSubtable::Format4(t) = sub else { panic!() };
        assert!(well_formed(&t));
        assert!(fmt4_lookup(&t, c1) == g1);
        let other: u16 = kani::any();
        kani::assume(other != c1 && other != 0xFFFF);
        assert!(fmt4_lookup(&t, other) == 0);
        kani::cover!(g1 as i32 - c1 as i32 > 32767 || c1 >= 0x7FFF);
        kani::cover!((g1 as i32 - c1 as i32) < -32768 || c1 < 0x8000);
    }
    //@defaults unit=U08.1 props=C08 tier=quick level=bounded bound="enumerated code-point shapes (one harness per shape), every non-zero 16-bit glyph id" timeout=900
    //@harness fns=CmapSubtable::create_format_4,Format4SegmentComputer::compute note="one mapping at U+0041; includes glyph id - code point > 32767 (the idDelta modulo case)"
    #[kani::proof]
    #[kani::unwind(5)]
    fn format4_single_mapping_0041() { single(0x41) }
    //@harness fns=CmapSubtable::create_format_4 note="one mapping at U+7FFF"
    #[kani::proof]
    #[kani::unwind(5)]
    fn format4_single_mapping_7fff() { single(0x7FFF) }
    //@harness fns=CmapSubtable::create_format_4 note="one mapping at U+FFFE (adjacent to the 0xFFFF sentinel segment); glyph id - code point < -32768"
    #[kani::proof]
    #[kani::unwind(5)]
    fn format4_single_mapping_fffe() { single(0xFFFE) }
    // NOTE: a harness with two adjacent pairs (two glyph-array segments, where the second idRangeOffset must skip the first
    // segment's ids) exhausted CBMC's memory (16 GB) even with three of the four glyph ids fixed, and a fully concrete 9-pair version did not finish in 1000 s
    // (unwinding undetermined); both were removed:
    // multi-segment glyph-id-array layouts of the writer are NOT covered.
}
