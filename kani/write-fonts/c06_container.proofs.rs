//@weave-into write-fonts/src/font_builder.rs
// C06 leaf mechanisms (U06.1-U06.3): round4, compute_checksum, checksum_and_padding against an executable
// specification of the OpenType checksum (sum of big-endian u32 words of the zero-padded table, mod 2^32).
// FontBuilder::build itself is NOT reached (CBMC cannot carry its BTreeMap).
#[cfg(kani)]
mod verif_c06 {
    use super::*;
    #[allow(unused_imports)]
    use std::{vec, vec::Vec};

    //@defaults unit=U06.1 props=C06,C20 tier=quick level=complete timeout=300
    //@harness fns=round4
    #[kani::proof]
    fn round4_contract() {
        let n: usize = kani::any();
        kani::assume(n <= usize::MAX - 3); // table lengths are slice lengths (<= isize::MAX)
        let r = round4(n);
        assert!(r >= n && r - n < 4 && r % 4 == 0);
        kani::cover!(r == n && n > 0);
        kani::cover!(r - n == 3);
    }
    fn spec_checksum(t: &[u8]) -> u32 {
        // OpenType: pad with zeros to a multiple of 4, sum the big-endian u32 words mod 2^32
        let mut sum = 0u32;
        let mut i = 0;
        while i < t.len() {
            let b = |k: usize| if i + k < t.len() { t[i + k] as u32 } else { 0 };
            sum = sum.wrapping_add((b(0) << 24) | (b(1) << 16) | (b(2) << 8) | b(3));
            i += 4;
        }
        sum
    }
    //@harness fns=read_fonts::tables::compute_checksum,checksum_and_padding level=bounded bound="table length symbolic <=18 B, contents symbolic" unit=U06.2
    #[kani::proof]
    #[kani::unwind(20)]
    fn checksum_matches_spec() {
        let buf: [u8; 18] = kani::any();
        let len: usize = kani::any();
        kani::assume(len <= 18);
        let t = &buf[..len];
        let (c, pad) = checksum_and_padding(t);
        assert!(c == spec_checksum(t));
        assert!(c == read_fonts::tables::compute_checksum(t));
        assert!((len as u32 + pad) % 4 == 0 && pad < 4);
        // appending the padding zeros does not change the checksum (what the builder relies on)
        let mut padded = [0u8; 20];
        let mut i = 0;
        while i < len { padded[i] = buf[i]; i += 1; }
        assert!(read_fonts::tables::compute_checksum(&padded[..len + pad as usize]) == c);
        kani::cover!(len % 4 == 3);
        kani::cover!(len == 16);
    }
    //@harness fns=read_fonts::tables::compute_checksum level=bounded bound="two 4-aligned parts, each <=8 B" unit=U06.2 note="per-table checksums of 4-aligned, zero-padded tables add up: cs(a ++ b) = cs(a) + cs(b) mod 2^32 - the fact the file-level checksum adjustment relies on"
    #[kani::proof]
    #[kani::unwind(7)]
    fn checksum_additive_over_aligned_parts() {
        let buf: [u8; 16] = kani::any();
        let la: usize = kani::any();
        let lb: usize = kani::any();
        kani::assume(la <= 8 && la % 4 == 0 && lb <= 8);
        let a = &buf[..la];
        let ab = &buf[..la + lb];
        let b = &buf[la..la + lb];
        let cs = read_fonts::tables::compute_checksum;
        assert!(cs(ab) == cs(a).wrapping_add(cs(b)));
        kani::cover!(la == 8 && lb == 7);
    }
}
