//@weave-into write-fonts/src/graph/splitting.rs
// C16 (U16.4): the coverage side of lookup splitting. split_range_record restricts one coverage range record to an
// (inclusive) window of coverage indices: against its specification for EVERY valid record and window.
#[cfg(kani)]
mod verif_c16_split_range {
    use super::*;
    use read_fonts::FontData;
    #[allow(unused_imports)]
    use std::{vec, vec::Vec};

    //@defaults unit=U16.4 props=C16 tier=quick level=complete timeout=600
    //@harness fns=split_range_record
    #[kani::proof]
    #[kani::unwind(4)]
    fn split_range_record_spec() {
        let sg: u16 = kani::any(); let eg: u16 = kani::any(); let cs: u16 = kani::any();
        // a valid coverage range record: glyphs ascending, coverage indices fit u16
        kani::assume(sg <= eg);
        let len = eg - sg;
        kani::assume(cs as u32 + len as u32 <= 0xFFFF);
        let mut bytes = [0u8; 6];
        bytes[0..2].copy_from_slice(&sg.to_be_bytes());
        bytes[2..4].copy_from_slice(&eg.to_be_bytes());
        bytes[4..6].copy_from_slice(&cs.to_be_bytes());
        let rec: &rlayout::RangeRecord = FontData::new(&bytes).read_ref_at(0).unwrap();
        let start: u16 = kani::any(); let end: u16 = kani::any(); // inclusive window of coverage indices
        kani::assume(start <= end);
        let r = split_range_record(rec, start, end);
        let ce = cs + len; // last coverage index of the record (inclusive)
        let lo = cs.max(start);
        let hi = ce.min(end);
        if lo > hi {
            assert!(r.is_none()); // no coverage index in common
        } else {
            // exactly the glyphs whose coverage index lies in the window, re-indexed from the window start
            let r = r.unwrap();
            assert!(r.start_glyph_id.to_u16() == sg + (lo - cs));
            assert!(r.end_glyph_id.to_u16() == sg + (hi - cs));
            assert!(r.start_coverage_index == lo - start);
        }
        kani::cover!(lo == hi && hi == start && ce == start);
        kani::cover!(lo > hi);
        kani::cover!(lo < hi && start > cs && end < ce);
    }
}
