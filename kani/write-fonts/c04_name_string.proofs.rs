//@weave-into write-fonts/src/tables/name.rs
// C04 (U04.4): name-table strings. The length a name record declares for its string equals the number of bytes the
// string writer emits, for the UTF-16BE encoding and EVERY pair of Unicode scalar values (BMP and supplementary:
// surrogate pairs count two code units) - otherwise the string read back is truncated or runs into the next one.
#[cfg(kani)]
mod verif_c04_name {
    use super::*;
    use crate::write::TableWriter;
    #[allow(unused_imports)]
    use std::{vec, vec::Vec};

    fn fixed_random_state() -> std::hash::RandomState {
        unsafe { core::mem::transmute::<(u64, u64), std::hash::RandomState>((0u64, 0u64)) }
    }
    static mut COUNT: usize = 0;
    static mut LAST: [u8; 2] = [0; 2];
    fn write_slice_count(_w: &mut TableWriter, bytes: &[u8]) {
        unsafe { COUNT += bytes.len(); if bytes.len() == 2 { LAST = [bytes[0], bytes[1]]; } }
    }
    fn declared_vs_written(s: &str) -> (usize, usize) {
        let w = NameStringWriter { encoding: Encoding::Utf16Be, string: s };
        let declared = w.compute_length() as usize;
        unsafe { COUNT = 0; }
        let mut tw = TableWriter::default();
        w.write_into(&mut tw);
        (declared, unsafe { COUNT })
    }
    //@defaults unit=U04.4 props=C04 tier=quick level=bounded bound="strings of 1 character, every Unicode scalar value" timeout=900
    //@harness fns=NameStringWriter::compute_length,NameStringWriter::write_into
    #[kani::proof]
    #[kani::unwind(8)]
    #[kani::stub(std::hash::RandomState::new, fixed_random_state)]
    #[kani::stub(TableWriter::write_slice, write_slice_count)]
    fn name_string_utf16_declared_length_one_char() {
        let c1: char = kani::any();
        let mut buf = [0u8; 4];
        let s: &str = c1.encode_utf8(&mut buf);
        let (declared, written) = declared_vs_written(s);
        assert!(declared == written);
        assert!(written == 2 * c1.len_utf16());
        kani::cover!(c1 as u32 > 0xFFFF);
        kani::cover!((c1 as u32) < 0x80);
    }
    //@harness fns=NameStringWriter::compute_length,NameStringWriter::write_into tier=thorough timeout=2400 bound="strings of 2 characters, every pair of Unicode scalar values"
    #[kani::proof]
    #[kani::unwind(10)]
    #[kani::stub(std::hash::RandomState::new, fixed_random_state)]
    #[kani::stub(TableWriter::write_slice, write_slice_count)]
    fn name_string_utf16_declared_length_matches_written() {
        let c1: char = kani::any();
        let c2: char = kani::any();
        let mut buf = [0u8; 8];
        let l1 = c1.encode_utf8(&mut buf).len();
        let l2 = c2.encode_utf8(&mut buf[l1..]).len();
        let s = core::str::from_utf8(&buf[..l1 + l2]).unwrap();
        let (declared, written) = declared_vs_written(s);
        assert!(declared == written);
        assert!(written == 2 * (c1.len_utf16() + c2.len_utf16()));
        kani::cover!(c1 as u32 > 0xFFFF && (c2 as u32) < 0x80);
        kani::cover!(written == 8);
    }
}
