//@weave-into write-fonts/src/lib.rs
//@include write_sink.proofs.rs
// Helper only (no harness): exports the fixed RandomState used to stub std::hash::RandomState::new to dependent crates whose
// `#![forbid(unsafe_code)]` does not allow them to construct one themselves (incremental-font-transfer).
#[cfg(kani)]
pub fn verif_fixed_random_state() -> std::hash::RandomState {
    crate::write::verif_sink::fixed_random_state()
}
