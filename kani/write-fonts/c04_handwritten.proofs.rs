//@weave-into write-fonts/src/tables/layout.rs
//@include write_sink.proofs.rs
// C04 for the hand-written FontWrite impls of flag / scalar-like values that the generated tables embed (the generated
// round-trip harnesses do not reach them because they sit in tables with offsets): the bytes written are exactly the
// big-endian encoding of the value's bits, and parsing those bytes gives back an equal value - for EVERY value.
#[cfg(kani)]
mod verif_c04_handwritten {
    use super::*;
    use crate::write::verif_sink::*;
    use crate::write::TableWriter;
    use crate::FontWrite;
    use types::Scalar;
    #[allow(unused_imports)]
    use std::{vec, vec::Vec};

    fn written<T: FontWrite>(v: &T) -> ([u8; OBJ_CAP], usize) {
        reset_sink();
        let mut w = TableWriter::default();
        v.write_into(&mut w);
        sink_bytes()
    }

    //@defaults unit=U04.5 props=C04,C16 tier=quick level=complete timeout=600
    //@harness fns=LookupFlag::write_into,LookupFlag::to_bits,LookupFlag::from_bits_truncate,LookupFlag::mark_attachment_class,LookupFlag::set_mark_attachment_class
    #[kani::proof]
    #[kani::unwind(4)]
    #[kani::stub(std::hash::RandomState::new, fixed_random_state)]
    #[kani::stub(TableWriter::write_slice, write_slice_sink)]
    fn lookup_flag_written_as_its_bits() {
        let x: u16 = kani::any();
        // every flag value a parsed font can carry (reserved bits included) and every value the constructor makes
        let f = if kani::any() { LookupFlag::from_raw(x.to_be_bytes()) } else { LookupFlag::from_bits_truncate(x) };
        let (b, n) = written(&f);
        assert!(n == 2);
        assert!([b[0], b[1]] == f.to_bits().to_be_bytes());
        // reads back as the same flag, with the same mark attachment class and the same flag bits
        let g = LookupFlag::from_raw([b[0], b[1]]);
        assert!(g == f);
        assert!(g.mark_attachment_class() == f.mark_attachment_class());
        let hi = f.to_bits() >> 8;
        assert!(f.mark_attachment_class() == if hi == 0 { None } else { Some(hi) });
        // setting a class keeps the low (flag) byte and stores the class in the high byte
        let c: u16 = kani::any();
        let mut h = f;
        h.set_mark_attachment_class(c);
        assert!(h.to_bits() == (f.to_bits() & 0x00ff) | ((c & 0xff) << 8));
        kani::cover!(f.mark_attachment_class() == Some(3) && f.to_bits() & 0x10 != 0);
        kani::cover!(f.to_bits() & 0x00e0 != 0);
    }
    //@harness fns=LookupType::write_into,LookupType::to_raw
    #[kani::proof]
    #[kani::unwind(4)]
    #[kani::stub(std::hash::RandomState::new, fixed_random_state)]
    #[kani::stub(TableWriter::write_slice, write_slice_sink)]
    fn lookup_type_written_as_its_number() {
        let x: u16 = kani::any();
        let t = if kani::any() { LookupType::Gpos(x) } else { LookupType::Gsub(x) };
        let (b, n) = written(&t);
        assert!(n == 2 && [b[0], b[1]] == x.to_be_bytes());
        kani::cover!(x == 9);
    }
    //@harness fns=TupleVariationCount::write_into,TupleIndex::write_into
    #[kani::proof]
    #[kani::unwind(4)]
    #[kani::stub(std::hash::RandomState::new, fixed_random_state)]
    #[kani::stub(TableWriter::write_slice, write_slice_sink)]
    fn tuple_count_and_index_written_as_their_bits() {
        use read_fonts::tables::variations::{TupleIndex, TupleVariationCount};
        let x: u16 = kani::any();
        let c = TupleVariationCount::from_bits(x);
        let (b, n) = written(&c);
        assert!(n == 2 && [b[0], b[1]] == x.to_be_bytes());
        assert!(c.count() == x & 0x0fff && c.shared_point_numbers() == (x & 0x8000 != 0));
        let i = TupleIndex::from_bits(x);
        let (b, n) = written(&i);
        assert!(n == 2 && [b[0], b[1]] == x.to_be_bytes());
        assert!(i.bits() == x);
        kani::cover!(x & 0x8000 != 0);
    }
    //@harness fns=Bbox::write_into
    #[kani::proof]
    #[kani::unwind(10)]
    #[kani::stub(std::hash::RandomState::new, fixed_random_state)]
    #[kani::stub(TableWriter::write_slice, write_slice_sink)]
    fn bbox_written_in_spec_order() {
        use crate::tables::glyf::Bbox;
        let bb = Bbox { x_min: kani::any(), y_min: kani::any(), x_max: kani::any(), y_max: kani::any() };
        let (b, n) = written(&bb);
        assert!(n == 8);
        assert!(i16::from_be_bytes([b[0], b[1]]) == bb.x_min && i16::from_be_bytes([b[2], b[3]]) == bb.y_min);
        assert!(i16::from_be_bytes([b[4], b[5]]) == bb.x_max && i16::from_be_bytes([b[6], b[7]]) == bb.y_max);
        kani::cover!(bb.x_min != bb.y_max);
    }
}
