mod f10_replay {
    use super::*;
    use read_fonts::{FontRef, TableProvider};

    #[test]
    fn var_deltas_near_u32_max_base() {
        let font = FontRef::new(font_test_data::COLRV0V1_VARIABLE).unwrap();
        let colr = font.colr().unwrap();
        let coords = [F2Dot14::from_f32(0.5)];
        let inst = ColrInstance::new(colr, &coords);
        assert!(inst.var_store.is_some());
        let _ = inst.var_deltas::<3>(0xFFFF_FFFE);
    }
}
