// F12 replay: a format-12 group that maps U+10FFFF (char::MAX) is looked up correctly but never enumerated with the
// default limits: the exclusive range end is clamped to `max_char` instead of `max_char + 1`.
use read_fonts::{
    tables::cmap::{Cmap12, Cmap12IterLimits},
    FontData, FontRead,
};

#[test]
fn cmap12_enumerates_char_max() {
    let mut b: Vec<u8> = vec![0, 12, 0, 0, 0, 0, 0, 28, 0, 0, 0, 0, 0, 0, 0, 1];
    b.extend_from_slice(&0x10FFFEu32.to_be_bytes()); // startCharCode
    b.extend_from_slice(&0x10FFFFu32.to_be_bytes()); // endCharCode
    b.extend_from_slice(&5u32.to_be_bytes()); // startGlyphID
    let cmap12 = Cmap12::read(FontData::new(&b)).unwrap();
    assert_eq!(cmap12.map_codepoint(0x10FFFFu32).map(|g| g.to_u32()), Some(6));
    let limits = Cmap12IterLimits { max_char: char::MAX as u32, glyph_count: 100 };
    let pairs: Vec<_> = cmap12.iter_with_limits(limits).map(|(c, g)| (c, g.to_u32())).collect();
    assert_eq!(pairs, vec![(0x10FFFE, 5), (0x10FFFF, 6)]);
}
