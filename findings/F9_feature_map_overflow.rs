// F9 replay: format-1 feature map whose record has first_new_entry_index = 0xFFFF and entry_map_count = 2:
// `record.first_new_entry_index().get() + i` overflows u16 for i = 1.
use font_test_data::ift as test_data;
use incremental_font_transfer::patchmap::{intersecting_patches, FeatureSet, SubsetDefinition};
use read_fonts::{collections::IntSet, types::Tag, FontRef};
use std::collections::BTreeSet;
use write_fonts::FontBuilder;

#[test]
fn feature_record_first_new_entry_index_near_u16_max() {
    let buf = test_data::feature_map_format1();
    let off = buf.offset_for("FeatureRecord[1]");
    let mut bytes = buf.as_slice().to_vec();
    // 'liga' record: first new entry index := 0xFFFF (entry map count stays 2)
    bytes[off + 4] = 0xFF;
    bytes[off + 5] = 0xFF;
    let mut builder = FontBuilder::default();
    builder.add_raw(Tag::new(b"IFT "), bytes);
    builder.copy_missing_tables(FontRef::new(test_data::IFT_BASE).unwrap());
    let font_bytes = builder.build();
    let font = FontRef::new(&font_bytes).unwrap();
    let mut cps = IntSet::<u32>::empty();
    cps.insert(0x13);
    cps.insert(0x14);
    let def = SubsetDefinition::new(
        cps,
        FeatureSet::Set(BTreeSet::from([Tag::new(b"liga")])),
        Default::default(),
    );
    // must yield a value or an error, never an overflow panic
    let _ = intersecting_patches(&font, &def);
}
