// F11 replay: a Device table whose endSize is below its startSize parses (the length computation saturates) but
// Device::iter computes `end_size - start_size` unchecked.
use read_fonts::{tables::layout::Device, FontData, FontRead};

#[test]
fn device_with_inverted_sizes_iterates_without_panic() {
    // startSize = 12, endSize = 9, deltaFormat = 1 (2-bit deltas), no delta words
    let bytes = [0u8, 12, 0, 9, 0, 1];
    let device = Device::read(FontData::new(&bytes)).unwrap();
    assert_eq!(device.iter().count(), 0);
}
